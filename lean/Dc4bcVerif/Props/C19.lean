/-
  C19 — persisting and restoring a round at any point never changes its behaviour.

  Model: `Instance` (machine picked by the pool, machine state, dump state, payload),
  `Instance.restore` = `FromDump` (pool lookup by state name + `MustCopyWithState`),
  `Instance.doEv` = `FSMInstance.Do`. The JSON text of the dump is modelled as the identity on
  the payload (validated by `fsmdiff`, which dumps and restores between every two events).
-/
import Dc4bcVerif.Model.Run
import Dc4bcVerif.Lemmas.FsmEngine

namespace Dc4bcVerif.Props.C19
open Dc4bcVerif.Gen Dc4bcVerif.Model

/-- the tables the code is built from do not make `MustNewFSM` / `fsm_pool.Init` panic -/
theorem pool_wellFormed : poolWellFormed = true := by decide

/-- `restore_total`, table part: the pool knows a machine for *every* state name that occurs in
any of the three tables — sources and terminal (cancelled / finished) states alike. -/
theorem pool_total (s : St) : (poolState s).isSome = true := by
  cases s <;> decide

/-- … and the machine it picks lists that state (so `MustCopyWithState` does not panic). -/
theorem pool_state_known (s : St) (mid : MachineId) (h : poolState s = some mid) :
    (sourceStates (machineOf mid)).contains s = true ∨ isFinState (machineOf mid) s = true := by
  revert h; cases s <;> cases mid <;> decide

/-- `restore_total`: every dump whose state field is a state name restores; in particular every
dump produced by a successful `Do` (see `ok_dump_state`). -/
theorem restore_total (s : St) (p : Payload) : (Instance.restore (some s) p).isSome = true := by
  unfold Instance.restore
  have := pool_total s
  cases h : poolState s with
  | none => simp [h] at this
  | some m => simp [h]

/-- after a successful `Do` the dump's state field is the machine's state -/
theorem ok_dump_state (i : Instance) (e : Ev) (a : Arg)
    (hok : (i.doEv e a).2.res = .ok) :
    (i.doEv e a).1.dumpState = some (i.doEv e a).1.state := by
  have hok' : (doEvent (machineOf i.machine) runAction i.state i.payload e a).res = .ok := hok
  obtain ⟨d, hd⟩ := doEvent_ok_state (machineOf i.machine) runAction i.state i.payload e a hok'
  unfold Instance.doEv
  simp only [hd]

/-- states at which the node hands the round over to the next machine (a fin state of one
machine that is the initial state of another) -/
def handOver (s : St) : Bool :=
  allMachines.any (fun m => isFinState m s) && allMachines.any (fun m => (sourceStates m).contains s)

/-- the hand-over states are exactly the two the node glue treats by hand -/
theorem handOver_states (s : St) : handOver s = true ↔
    (s = .s_state_sig_proposal_collected ∨ s = .s_state_dkg_master_key_collected) := by
  cases s <;> decide

/-- inside one machine the pool keeps answering with that machine, up to a hand-over state -/
def sameMachineOrHandOver (mid : MachineId) (s : St) : Bool :=
  poolState s == some mid || (handOver s && isFinState (machineOf mid) s)

theorem machine_closed (mid : MachineId) : closedUnder (machineOf mid) (sameMachineOrHandOver mid) = true := by
  cases mid <;> decide

/-- `restore_bisim`: dump + restore after a successful event gives back *the same instance*
(same machine, same state, same payload), except at the two hand-over states, where it gives the
next machine (which is what the node relies on). Equal instances respond equally to every
subsequent event, so restoring at any subset of points is unobservable. -/
theorem restore_bisim (i : Instance) (e : Ev) (a : Arg)
    (hc : poolState i.state = some i.machine)
    (hok : (i.doEv e a).2.res = .ok)
    (hno : handOver (i.doEv e a).1.state = false) :
    Instance.restore (i.doEv e a).1.dumpState (i.doEv e a).1.payload = some (i.doEv e a).1 := by
  have hds := ok_dump_state i e a hok
  have hh := doEvent_hops (machineOf i.machine) runAction i.state i.payload e a
  have h0 : sameMachineOrHandOver i.machine i.state = true := by
    unfold sameMachineOrHandOver; simp [hc]
  have h1 := closedUnder_hops (machine_closed i.machine) hh h0
  have hst : (i.doEv e a).1.state = (doEvent (machineOf i.machine) runAction i.state i.payload e a).state := rfl
  have hmach : (i.doEv e a).1.machine = i.machine := rfl
  rw [← hst] at h1
  unfold sameMachineOrHandOver at h1
  simp only [hno, Bool.false_and, Bool.or_false, beq_iff_eq] at h1
  rw [hds]
  unfold Instance.restore
  simp only [h1, Option.map_some]
  congr 1
  cases hi : i.doEv e a with
  | mk i' o =>
    simp only [hi] at hds hmach
    cases i' with
    | mk mach st ds pl =>
      simp only at hds hmach ⊢
      subst hmach
      rw [hds]

/-- consequence spelled out: the restored instance answers the next event exactly as the
in-memory one (acceptance, next state, response data, resulting dump) -/
theorem restored_responds_equally (i : Instance) (e : Ev) (a : Arg) (e' : Ev) (a' : Arg)
    (hc : poolState i.state = some i.machine)
    (hok : (i.doEv e a).2.res = .ok)
    (hno : handOver (i.doEv e a).1.state = false) :
    ∃ r, Instance.restore (i.doEv e a).1.dumpState (i.doEv e a).1.payload = some r ∧
      r.doEv e' a' = (i.doEv e a).1.doEv e' a' :=
  ⟨_, restore_bisim i e a hc hok hno, rfl⟩

/-- the consistency premise is an invariant: it holds for a created round and after every
restore, whatever was restored -/
theorem create_consistent (id : String) : poolState (Instance.create id).state = some (Instance.create id).machine := by
  show poolState .s___idle = some .sig
  decide

theorem restore_consistent (ds : Option St) (p : Payload) (r : Instance)
    (h : Instance.restore ds p = some r) : poolState r.state = some r.machine := by
  unfold Instance.restore at h
  cases ds with
  | none => simp at h
  | some s =>
    cases hp : poolState s with
    | none => simp [hp] at h
    | some m =>
      simp [hp] at h
      subst h
      exact hp

/-- shape of a persisted step: on success the stored round is the restored result -/
theorem persistStep_ok_shape (i : Instance) (ea : Ev × Arg) (hok : (i.doEv ea.1 ea.2).2.res = .ok) :
    ∃ m, poolState (i.doEv ea.1 ea.2).1.state = some m ∧
      persistStep i ea = { machine := m, state := (i.doEv ea.1 ea.2).1.state,
                           dumpState := some (i.doEv ea.1 ea.2).1.state, payload := (i.doEv ea.1 ea.2).1.payload } := by
  have hds := ok_dump_state i ea.1 ea.2 hok
  unfold persistStep
  simp only [hok, beq_self_eq_true, ↓reduceIte, hds]
  unfold Instance.restore
  have := pool_total (i.doEv ea.1 ea.2).1.state
  cases hp : poolState (i.doEv ea.1 ea.2).1.state with
  | none => simp [hp] at this
  | some m => exact ⟨m, rfl, by simp [hp]⟩

theorem persistStep_not_ok (i : Instance) (ea : Ev × Arg) (h : (i.doEv ea.1 ea.2).2.res ≠ .ok) :
    persistStep i ea = i := by
  unfold persistStep
  have : ((i.doEv ea.1 ea.2).2.res == .ok) = false := by simpa using h
  simp only [this, Bool.false_eq_true, ↓reduceIte]

/-- non-vacuity: a cancelled round (one decline) is a reachable instance that restores -/
example : (Instance.restore (some .s_state_sig_proposal_canceled_by_participant) { dkgId := "r" }).isSome = true := by
  decide

end Dc4bcVerif.Props.C19
