/-
  C16 / C18 with lines that are no messages (`Model/BoardLines.lean`; fix 58eae51), for EVERY history of sends, writers dying in
  the middle of an append and foreign lines:
  * `offset_eq_position_lines` - every message stands at the position its offset names;
  * `append_only_lines`        - a step never changes a line that is there;
  * `send_adds_one_message`    - a send adds exactly one message line, carrying its id, at the end;
  * `read_from_own_offset`     - a message that is in the file is returned by a read from any offset up to its own (unless ignored);
  * `read_is_total` is the type of `getMessages` (a list, no error); `pinned_unreadable_after_junk`,
    `pinned_send_after_torn_tail_glues`: what the pinned tree did (witnesses, `by decide`).
  Core-only.
-/
import Dc4bcVerif.Model.BoardLines

namespace Dc4bcVerif.Props.C16Lines
open Dc4bcVerif.Model.Board (Entry)
open Dc4bcVerif.Model.BoardLines

/-- every message line carries its position -/
def OffsetsOk (f : File) : Prop := ∀ k e, f.lines[k]? = some (Line.msg e) → e.offset = k

theorem offsetsOk_append_junk (l : List Line) (s : Nat) (h : ∀ k e, l[k]? = some (Line.msg e) → e.offset = k) :
    ∀ k e, (l ++ [Line.junk s])[k]? = some (Line.msg e) → e.offset = k := by
  intro k e hk
  by_cases hlt : k < l.length
  · rw [List.getElem?_append_left hlt] at hk; exact h k e hk
  · rw [List.getElem?_append_right (by omega)] at hk
    cases hkk : k - l.length with
    | zero => rw [hkk] at hk; simp at hk
    | succ n => rw [hkk] at hk; simp at hk

theorem offsetsOk_append_msg (l : List Line) (id : String) (size : Nat) (h : ∀ k e, l[k]? = some (Line.msg e) → e.offset = k) :
    ∀ k e, (l ++ [Line.msg ⟨id, l.length, size⟩])[k]? = some (Line.msg e) → e.offset = k := by
  intro k e hk
  by_cases hlt : k < l.length
  · rw [List.getElem?_append_left hlt] at hk; exact h k e hk
  · rw [List.getElem?_append_right (by omega)] at hk
    cases hkk : k - l.length with
    | zero =>
      rw [hkk] at hk
      simp only [List.getElem?_cons_zero, Option.some.injEq, Line.msg.injEq] at hk
      subst hk
      show l.length = k
      omega
    | succ n => rw [hkk] at hk; simp at hk

theorem closeTorn_ok (f : File) (h : OffsetsOk f) : OffsetsOk (closeTorn f) := by
  unfold closeTorn
  cases ht : f.torn with
  | none => exact h
  | some s => exact offsetsOk_append_junk f.lines s h

theorem step_ok (f : File) (op : Op) (h : OffsetsOk f) : OffsetsOk (step f op) := by
  cases op with
  | send id size =>
    show OffsetsOk (send f id size)
    unfold send
    exact offsetsOk_append_msg (closeTorn f).lines id size (closeTorn_ok f h)
  | dies size =>
    unfold step
    cases f.torn <;> exact h
  | garbage size =>
    unfold step
    cases ht : f.torn with
    | none => exact offsetsOk_append_junk f.lines size h
    | some s => exact offsetsOk_append_junk f.lines (s + size) h

/-- **offset_eq_position_lines.** -/
theorem offset_eq_position_lines (ops : List Op) : OffsetsOk (run {} ops) := by
  have : ∀ f : File, OffsetsOk f → OffsetsOk (run f ops) := by
    induction ops with
    | nil => intro f h; exact h
    | cons op rest ih => intro f h; exact ih _ (step_ok f op h)
  exact this {} (by intro k e hk; simp at hk)

/-- **append_only_lines.** -/
theorem append_only_lines (f : File) (op : Op) : ∃ more, (step f op).lines = f.lines ++ more := by
  cases op with
  | send id size =>
    show ∃ more, (send f id size).lines = f.lines ++ more
    unfold send closeTorn
    cases f.torn with
    | none => exact ⟨_, rfl⟩
    | some s => exact ⟨[Line.junk s] ++ [Line.msg ⟨id, (f.lines ++ [Line.junk s]).length, size⟩], by simp⟩
  | dies size => unfold step; cases f.torn <;> exact ⟨[], by simp⟩
  | garbage size => unfold step; cases f.torn <;> exact ⟨_, rfl⟩

/-- **send_adds_one_message.** -/
theorem send_adds_one_message (f : File) (id : String) (size : Nat) :
    ∃ closed, (send f id size).lines = closed ++ [Line.msg ⟨id, closed.length, size⟩] ∧
      closed.filterMap Line.msg? = f.lines.filterMap Line.msg? ∧ (send f id size).torn = none := by
  obtain ⟨lines, torn⟩ := f
  unfold send closeTorn
  cases torn with
  | none => exact ⟨lines, rfl, rfl, rfl⟩
  | some s => exact ⟨lines ++ [Line.junk s], rfl, by simp [Line.msg?], rfl⟩

/-- **read_from_own_offset.** -/
theorem read_from_own_offset (f : File) (k : Nat) (e : Entry) (hk : f.lines[k]? = some (Line.msg e))
    (off : Nat) (hoff : off ≤ k) (ignId : List String) (ignOff : List Nat)
    (hi : ignId.contains e.id = false) (ho : ignOff.contains e.offset = false) :
    e ∈ getMessages f off ignId ignOff := by
  unfold getMessages
  rw [List.mem_filter]
  refine ⟨?_, by simp only [hi, ho, Bool.not_false, Bool.and_self]⟩
  rw [List.mem_filterMap]
  refine ⟨Line.msg e, ?_, rfl⟩
  have : (f.lines.drop off)[k - off]? = some (Line.msg e) := by
    rw [List.getElem?_drop]; rw [show off + (k - off) = k by omega]; exact hk
  exact List.mem_of_getElem? this

/-! ### the pinned tree -/

/-- one line that does not decode: every read from an offset at or before it fails (the Poll loop of every node ends) -/
theorem pinned_unreadable_after_junk :
    let f := run {} [.send "a" 10, .garbage 7, .send "b" 10]
    getMessagesPinned f 0 [] [] = none ∧ getMessagesPinned f 1 [] [] = none ∧
    (getMessages f 0 [] []).map (·.id) = ["a", "b"] := by decide

/-- a writer dies in its append, the next one sends: since the fix its message stands on its own line at its offset;
on the pinned tree it is glued onto the fragment - no line carries it -/
theorem pinned_send_after_torn_tail_glues :
    let f := step (run {} [.send "a" 10]) (.dies 5)
    ((send f "b" 10).lines.filterMap Line.msg?).map (fun e => (e.id, e.offset)) = [("a", 0), ("b", 2)] ∧
    ((sendPinned f "b" 10).lines.filterMap Line.msg?).map (fun e => (e.id, e.offset)) = [("a", 0)] := by decide

end Dc4bcVerif.Props.C16Lines
