/-
  C01 — reconstructed threshold signatures verify under the group key and agree.

  Algebraic model: `F` a field (the scalar field), `G₁ G₂ G_T` `F`-vector spaces (the groups written
  additively), `e : G₁ →ₗ G₂ →ₗ G_T` bilinear (the pairing), `H m : G₂` the hash-to-curve point.
  Shares are `f(i+1)` for the group polynomial `f` of degree `< t`; a partial signature is
  `f(i+1) • H m`; recovery is kyber's `share.RecoverCommit` / `tbls.Recover`:
  `Σ_i (Π_{j≠i} x_j / (x_j − x_i)) • σ_i` over the collected nodes (`Model/Shamir.lean`, the very
  definitions the driver runs over ℤ/r against the real shares).
-/
import Mathlib.LinearAlgebra.Lagrange
import Dc4bcVerif.Model.Shamir

set_option linter.unusedSectionVars false

namespace Dc4bcVerif.Props.C01
open Polynomial Dc4bcVerif.Model.Shamir

section Scalars
variable {F : Type} [Field F] [DecidableEq F]

theorem sumL_eq (l : List F) : sumL l = l.sum := by
  induction l with
  | nil => rfl
  | cons a t ih => simp only [sumL, List.foldr_cons, List.sum_cons] at ih ⊢; rw [ih]

theorem prodL_eq (l : List F) : prodL l = l.prod := by
  induction l with
  | nil => rfl
  | cons a t ih => simp only [prodL, List.foldr_cons, List.prod_cons] at ih ⊢; rw [ih]

/-- the weight computed by the list code is the Lagrange weight over the node set -/
theorem weight_eq (xs : List F) (hnd : xs.Nodup) (xi : F) :
    weight xs xi = ∏ y ∈ xs.toFinset.erase xi, y / (y - xi) := by
  unfold weight
  rw [prodL_eq, ← List.prod_toFinset _ (hnd.filter _)]
  apply Finset.prod_congr _ (fun _ _ => rfl)
  ext y
  simp [and_comm]

theorem basis_eval_zero (s : Finset F) (x : F) :
    (Lagrange.basis s id x).eval 0 = ∏ y ∈ s.erase x, y / (y - x) := by
  unfold Lagrange.basis
  rw [eval_prod]
  apply Finset.prod_congr rfl
  intro y _
  simp only [Lagrange.basisDivisor, id, eval_mul, eval_C, eval_sub, eval_X]
  rw [← neg_sub x y, div_eq_mul_inv, inv_neg]
  ring

/-- **Lagrange recovery.** For every field, every list of pairwise distinct nodes and every
polynomial of degree below the number of nodes, kyber's recovery formula applied to the points
`(x, f x)` returns `f 0`. -/
theorem recover_eq_eval_zero (xs : List F) (hnd : xs.Nodup) (f : F[X]) (hdeg : f.degree < xs.length) :
    recoverAtZero (xs.map (fun x => (x, f.eval x))) = f.eval 0 := by
  unfold recoverAtZero
  have hfst : (xs.map (fun x => (x, f.eval x))).map (·.1) = xs := by
    rw [List.map_map]; exact List.map_id' xs
  rw [sumL_eq, hfst, List.map_map]
  have hinj : Set.InjOn (id : F → F) (xs.toFinset : Set F) := fun _ _ _ _ h => h
  have hcard : xs.toFinset.card = xs.length := List.toFinset_card_of_nodup hnd
  have hrepr := Lagrange.eq_interpolate (s := xs.toFinset) (v := id) (f := f) hinj (by rw [hcard]; exact hdeg)
  conv_rhs => rw [hrepr]
  rw [Lagrange.interpolate_apply, eval_finsetSum, ← List.sum_toFinset _ hnd]
  apply Finset.sum_congr rfl
  intro x _
  simp only [Function.comp, eval_mul, eval_C, id]
  rw [weight_eq xs hnd x, basis_eval_zero]

/-- the polynomial with the given coefficient list (constant term first) -/
noncomputable def toPoly : List F → F[X]
  | [] => 0
  | c :: cs => C c + X * toPoly cs

/-- `PriPoly.Eval` (Horner) evaluates that polynomial -/
theorem evalPoly_eq (cs : List F) (x : F) : evalPoly cs x = (toPoly cs).eval x := by
  induction cs with
  | nil => simp [evalPoly, toPoly]
  | cons c cs ih =>
    simp only [evalPoly, List.foldr_cons] at ih ⊢
    simp [toPoly, ih]

theorem toPoly_degree_lt (cs : List F) : (toPoly cs).degree < (cs.length : WithBot ℕ) ∨ cs = [] := by
  induction cs with
  | nil => right; rfl
  | cons c cs ih =>
    left
    simp only [toPoly, List.length_cons]
    rcases ih with ih | ih
    · refine lt_of_le_of_lt (degree_add_le _ _) ?_
      rw [max_lt_iff]
      constructor
      · exact lt_of_le_of_lt degree_C_le (by exact_mod_cast Nat.succ_pos _)
      · rw [mul_comm, degree_mul_X]
        calc (toPoly cs).degree + 1 < (cs.length : WithBot ℕ) + 1 := by
              exact WithBot.add_lt_add_right (by simp) ih
          _ = ((cs.length + 1 : ℕ) : WithBot ℕ) := by push_cast; rfl
    · subst ih
      simp only [toPoly, mul_zero, add_zero, List.length_nil, zero_add]
      exact lt_of_le_of_lt degree_C_le (by exact_mod_cast Nat.zero_lt_one)

theorem toPoly_degree_lt' (cs : List F) (h : cs ≠ []) : (toPoly cs).degree < (cs.length : WithBot ℕ) :=
  (toPoly_degree_lt cs).resolve_right h

/-- share node of participant `j` (kyber: `x = j + 1`) -/
def node (j : ℕ) : F := ((j + 1 : ℕ) : F)

/-- **recover_eq** (scalar form). Shares `f(j+1)` of ANY `t`-coefficient polynomial, collected from
any list of participants whose nodes are pairwise distinct in the field and which has at least
`t` members — in any order — recover `f(0)`, the group secret. -/
theorem recover_shares (cs : List F) (hcs : cs ≠ []) (idxs : List ℕ)
    (hnd : (idxs.map (node (F := F))).Nodup) (hlen : cs.length ≤ idxs.length) :
    recoverAtZero (idxs.map (fun j => (node j, evalPoly cs (node j)))) = evalPoly cs 0 := by
  have h := recover_eq_eval_zero (idxs.map (node (F := F))) hnd (toPoly cs)
    (lt_of_lt_of_le (toPoly_degree_lt' cs hcs) (by simpa using hlen))
  rw [List.map_map] at h
  simp only [evalPoly_eq]
  exact h

/-- **recover_agree**: any two such signer lists (different `t`-subsets, different orders) recover the same value -/
theorem recover_agree (cs : List F) (hcs : cs ≠ []) (idxs idxs' : List ℕ)
    (hnd : (idxs.map (node (F := F))).Nodup) (hnd' : (idxs'.map (node (F := F))).Nodup)
    (hlen : cs.length ≤ idxs.length) (hlen' : cs.length ≤ idxs'.length) :
    recoverAtZero (idxs.map (fun j => (node j, evalPoly cs (node j)))) =
    recoverAtZero (idxs'.map (fun j => (node j, evalPoly cs (node j)))) := by
  rw [recover_shares cs hcs idxs hnd hlen, recover_shares cs hcs idxs' hnd' hlen']

end Scalars

section Signatures
variable {F : Type} [Field F] [DecidableEq F]
variable {G₁ G₂ GT : Type} [AddCommGroup G₁] [Module F G₁] [AddCommGroup G₂] [Module F G₂] [AddCommGroup GT] [Module F GT]

/-- `tbls.Recover` / `share.RecoverCommit`: the same weights applied to group elements -/
def recoverPoint (pts : List (F × G₂)) : G₂ :=
  (pts.map (fun p => weight (pts.map (·.1)) p.1 • p.2)).sum

/-- **recover_eq.** Partial signatures `f(j+1) • H` recover to the group signature `f(0) • H`. -/
theorem recover_signature (cs : List F) (hcs : cs ≠ []) (idxs : List ℕ)
    (hnd : (idxs.map (node (F := F))).Nodup) (hlen : cs.length ≤ idxs.length) (H : G₂) :
    recoverPoint (idxs.map (fun j => (node (F := F) j, evalPoly cs (node j) • H))) = evalPoly cs 0 • H := by
  have hs := recover_shares cs hcs idxs hnd hlen
  unfold recoverPoint
  unfold recoverAtZero at hs
  rw [sumL_eq] at hs
  rw [← hs, List.sum_smul]
  simp only [List.map_map]
  congr 1
  apply List.map_congr_left
  intro j _
  simp only [Function.comp, smul_smul]
  rw [mul_comm]
  rfl

/-- BLS verification equation -/
def verify (e : G₁ →ₗ[F] G₂ →ₗ[F] GT) (g₁ pk : G₁) (Hm σ : G₂) : Prop := e g₁ σ = e pk Hm

/-- **verify_recovered**: the recovered value verifies under the group key `f(0) • g₁` -/
theorem verify_recovered (e : G₁ →ₗ[F] G₂ →ₗ[F] GT) (g₁ : G₁) (Hm : G₂) (s : F) :
    verify e g₁ (s • g₁) Hm (s • Hm) := by
  simp [verify]

/-- the full chain: any ≥ t partial signatures of the shares reconstruct a value that verifies
under the group public key for that message -/
theorem reconstructed_signature_valid (e : G₁ →ₗ[F] G₂ →ₗ[F] GT) (g₁ : G₁) (Hm : G₂)
    (cs : List F) (hcs : cs ≠ []) (idxs : List ℕ)
    (hnd : (idxs.map (node (F := F))).Nodup) (hlen : cs.length ≤ idxs.length) :
    verify e g₁ (evalPoly cs 0 • g₁) Hm
      (recoverPoint (idxs.map (fun j => (node (F := F) j, evalPoly cs (node j) • Hm)))) := by
  rw [recover_signature cs hcs idxs hnd hlen]
  exact verify_recovered e g₁ Hm _

/-- **unique_sig**: for a pairing that is non-degenerate in its second argument at the generator,
a valid signature is unique — which is why every node, whatever subset it combined, holds the
same 96 bytes, and why the export may take any entry -/
theorem unique_sig (e : G₁ →ₗ[F] G₂ →ₗ[F] GT) (g₁ pk : G₁) (Hm σ σ' : G₂)
    (hnondeg : ∀ x : G₂, e g₁ x = 0 → x = 0)
    (h : verify e g₁ pk Hm σ) (h' : verify e g₁ pk Hm σ') : σ = σ' := by
  unfold verify at h h'
  have : e g₁ (σ - σ') = 0 := by rw [map_sub, h, h', sub_self]
  exact sub_eq_zero.mp (hnondeg _ this)

end Signatures

/-- non-vacuity: `F = ℚ`, `n = 5`, `t = 3`, signers 4, 0, 2 (in that order) -/
example : recoverAtZero ([4, 0, 2].map (fun j => (node (F := ℚ) j, evalPoly [7, 3, 5] (node j)))) = 7 := by
  have := recover_shares (F := ℚ) [7, 3, 5] (by simp) [4, 0, 2] (by simp [node]) (by simp)
  simpa [evalPoly] using this

end Dc4bcVerif.Props.C01
