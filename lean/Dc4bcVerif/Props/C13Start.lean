/-
  C13, node level, second part: the start of a batch handled again, and the theorem for every message
  (`node_reapply`), instantiated in the crash model (`node_crash_safe`).
-/
import Dc4bcVerif.Props.C13Node
import Dc4bcVerif.Props.C13

set_option linter.unusedSimpArgs false
set_option linter.unusedVariables false

namespace Dc4bcVerif.Props.C13Node
open Dc4bcVerif.Gen Dc4bcVerif.Model Dc4bcVerif.Model.Node Dc4bcVerif.Props

/-! ### the start of a batch

For an arbitrary payload the start of a batch can end, within the same `Do`, in a collected or a cancelled batch
(a threshold of zero, a deadline in the past); the round is then restarted and would accept the same proposal again.
It does so WITHOUT any change: the proposal overwrites exactly the fields it wrote the first time. -/

theorem table_start : ∀ mid ∈ allMids, ∀ s ∈ St.all, (lookup (machineOf mid) s eSTART).isSome = true → mid = .sign ∧ s = sIDLE := by decide

theorem table_start_refused : ∀ s ∈ St.all, s = sIDLE ∨ refusesAt signMachine eSTART s = true := by decide

/-- the start action on a payload whose signing part was itself written by that start (and possibly marked by the
validator) returns what it returned the first time -/
theorem start_action_again (p : Payload) (a : Arg) (hok : (sign_actionStartSigningProposal eSTART p a).res = .ok) (X : SignConf)
    (b : String) (pid : Int) (ts : Time) (tasks : List Task) (sc : SignConf) (dc : DkgConf)
    (ha : a = .signStart b pid ts tasks) (hs : p.sign = some sc) (hd : p.dkg = some dc)
    (hX : startedSign X dc b pid ts tasks = startedSign sc dc b pid ts tasks) :
    sign_actionStartSigningProposal eSTART { p with sign := some X } a = sign_actionStartSigningProposal eSTART p a := by
  subst ha
  unfold sign_actionStartSigningProposal at hok ⊢
  simp only [hs, hd] at hok ⊢
  split
  · rename_i hbad
    simp [hbad, aErr] at hok
  · unfold startedSign at hX
    rw [hX]

/-- the whole `Do`, again -/
theorem start_do_again (p : Payload) (a : Arg) (hok : (doEvent signMachine runAction sIDLE p eSTART a).res = .ok) :
    doEvent signMachine runAction sIDLE (doEvent signMachine runAction sIDLE p eSTART a).payload eSTART a =
      doEvent signMachine runAction sIDLE p eSTART a := by
  rw [sign_do_start p a] at hok ⊢
  by_cases hne : ((sign_actionStartSigningProposal eSTART p a).res != .ok) = true
  · simp only [hne, ↓reduceIte] at hok
    simp only [bne_iff_ne, ne_eq] at hne
    exact absurd hok hne
  · simp only [hne, Bool.false_eq_true, ↓reduceIte] at hok ⊢
    have hok0 : (sign_actionStartSigningProposal eSTART p a).res = .ok := by simpa using hne
    obtain ⟨_, b, pid, ts, tasks, sc, dc, ha, hs, hd, _, hpl⟩ := (sign_start_spec p a).2 hok0
    -- the payload after the validator: the started signing part, possibly marked
    have hsign : (sign_actionStartSigningProposal eSTART p a).payload.sign = some (startedSign sc dc b pid ts tasks) := by rw [hpl]
    have hcases := (C06.signAfter_cases (sign_actionStartSigningProposal eSTART p a) a _ hsign).2
    have hshape : ∃ X, (signAfterValidate (sign_actionStartSigningProposal eSTART p a) a).payload = { p with sign := some X } ∧
        startedSign X dc b pid ts tasks = startedSign sc dc b pid ts tasks := by
      simp only at hcases
      split at hcases
      · exact ⟨startedSign sc dc b pid ts tasks, by rw [hcases.2, hpl], rfl⟩
      · split at hcases
        · exact ⟨startedSign sc dc b pid ts tasks, by rw [hcases.2, hpl], rfl⟩
        · split at hcases
          · exact ⟨startedSign sc dc b pid ts tasks, by rw [hcases.2, hpl], rfl⟩
          · exact ⟨markProcess (startedSign sc dc b pid ts tasks), by rw [hcases.2, hpl], rfl⟩
    obtain ⟨X, hpX, hX⟩ := hshape
    rw [sign_do_start]
    rw [hpX, start_action_again p a hok0 X b pid ts tasks sc dc ha hs hd hX]
    simp only [hne, Bool.false_eq_true, ↓reduceIte]

/-- the operation a handled event gives rise to (step 12 of `processMessage`) -/
def opOf (rs5 : Option St) (rd5 : Option RespData) (m : NMsg) : Option NOp :=
  match rs5, rd5 with
  | some s, some d => if Dc4bcVerif.Gen.NodeGlue.operationStates.contains s.name then some ⟨s.name, m.round, d⟩ else none
  | _, _ => none

/-- `finish`, when everything in it succeeds -/
theorem finish_ok_eq (st2 : NodeSt) (i5 : Instance) (rs5 : Option St) (rd5 : Option RespData) (m : NMsg) (now : Time)
    (payloadOf : Tasks.Msg → Bytes) (sent : List Sent) (i6 : Instance) (st3 : NodeSt)
    (hrc : reconstructStep (rs5 == some .s_state_signing_partial_signs_collected) m = some sent)
    (h3 : restartAfterCollect (rs5 == some .s_state_signing_partial_signs_collected) i5 now = some i6)
    (hp : placeholders st2 m payloadOf = some st3) :
    finish st2 i5 rs5 rd5 m now payloadOf =
      { st := saveFSM st3 m.round (i6.dumpState, i6.payload), out := .ok, op := opOf rs5 rd5 m, sent := sent } := by
  unfold finish opOf
  simp only [hrc, h3, hp]
  cases rs5 <;> cases rd5 <;> rfl

theorem finish_ok_inv (st2 : NodeSt) (i5 : Instance) (rs5 : Option St) (rd5 : Option RespData) (m : NMsg) (now : Time)
    (payloadOf : Tasks.Msg → Bytes) (h : (finish st2 i5 rs5 rd5 m now payloadOf).out = .ok) :
    ∃ sent i6 st3, reconstructStep (rs5 == some .s_state_signing_partial_signs_collected) m = some sent ∧
      restartAfterCollect (rs5 == some .s_state_signing_partial_signs_collected) i5 now = some i6 ∧
      placeholders st2 m payloadOf = some st3 := by
  unfold finish at h
  dsimp only at h
  cases hrc : reconstructStep (rs5 == some .s_state_signing_partial_signs_collected) m with
  | none => simp [hrc, rejectWith] at h
  | some sent =>
    simp only [hrc] at h
    cases h3 : restartAfterCollect (rs5 == some .s_state_signing_partial_signs_collected) i5 now with
    | none => simp [h3] at h
    | some i6 =>
      simp only [h3] at h
      cases hp : placeholders st2 m payloadOf with
      | none => simp [hp] at h
      | some st3 => exact ⟨sent, i6, st3, rfl, rfl, rfl⟩

/-- saving signatures does not look at the stored rounds -/
theorem saveSignatures_rounds_irrelevant (a : NodeSt) (R : List (String × DumpV)) (l : List RSig) :
    saveSignatures { a with rounds := R } l = (saveSignatures a l).map (fun y => { y with rounds := R }) := by
  unfold saveSignatures
  cases l with
  | nil => rfl
  | cons x t => rfl

theorem placeholders_idem (st st3 : NodeSt) (m : NMsg) (payloadOf : Tasks.Msg → Bytes) (h : placeholders st m payloadOf = some st3)
    (R : String) (d : DumpV) : placeholders (saveFSM st3 R d) m payloadOf = some (saveFSM st3 R d) := by
  unfold placeholders at h ⊢
  split
  · rename_i hev
    simp only [hev, ↓reduceIte] at h
    cases hp : m.proposal with
    | none => simp [hp] at h
    | some bt =>
      obtain ⟨batch, tasks⟩ := bt
      simp only [hp] at h ⊢
      cases ht : Tasks.tasksToMessages tasks with
      | error e => simp [ht] at h
      | ok msgs =>
        simp only [ht] at h ⊢
        have hi := saveSignatures_idem _ _ _ h
        unfold saveFSM
        rw [saveSignatures_rounds_irrelevant, hi]
        rfl
  · rfl

theorem saveFSM_idem (st : NodeSt) (R : String) (d : DumpV) : saveFSM (saveFSM st R d) R d = saveFSM st R d := by
  unfold saveFSM
  simp only [assocSet_idem]

theorem table_start_reach : ∀ s ∈ reach1 signMachine sIDLE,
    s ≠ sSigCollected ∧ s ≠ sMKCollected ∧ poolState s = some .sign := by decide

theorem restartAfterCollect_indep (c : Bool) (i : Instance) (n1 n2 : Time) : restartAfterCollect c i n1 = restartAfterCollect c i n2 := by
  unfold restartAfterCollect
  split
  · cases Instance.restore i.dumpState i.payload with
    | none => rfl
    | some r => exact restart_indep r n1 n2
  · rfl

/-- the start of a batch: handled again, it is rejected, swallowed, or accepted with exactly the same result -/
theorem start_reapply (payloadOf : Tasks.Msg → Bytes) (st : NodeSt) (inst : Instance) (m : NMsg) (now1 : Time)
    (hg : getInstance st m.round = some (st, inst)) (hv : (if m.event == "event_sig_proposal_init" then Outcome.ok else verifyMessage st inst m) = .ok)
    (h1 : (m.event == "signature_reconstructed") = false) (h2 : (m.event == "signature_reconstruction_failed") = false)
    (hev : Ev.all.find? (fun e => e.name == m.event) = some eSTART)
    (hok : (handleEvent st inst m now1 payloadOf).out = .ok) (now2 : Time) :
    AgainAt payloadOf (handleEvent st inst m now1 payloadOf).st m (handleEvent st inst m now1 payloadOf).op now2 := by
  have hst := C18.preSteps_st st inst m now1
  unfold handleEvent at hok ⊢
  cases hp : preSteps st inst m now1 with
  | swallow s =>
    rw [hp] at hst
    have : s = st := hst
    subst this
    simp only
    unfold AgainAt processMessage
    simp only [hg, hv, h1, h2, Bool.false_eq_true, ↓reduceIte]
    unfold handleEvent
    rw [preSteps_indep s inst m now2 now1, hp]
    exact ⟨by simp, fun _ => ⟨rfl, Or.inl rfl⟩⟩
  | fail s => simp [hp, rejectWith] at hok
  | cont s inst2 =>
    rw [hp] at hst
    have : s = st := hst
    subst this
    simp only [hp] at hok ⊢
    unfold dispatch at hok ⊢
    simp only [hev] at hok ⊢
    split at hok
    · simp [rejectWith] at hok
    · rename_i hreq
      simp only [hreq, Bool.false_eq_true, ↓reduceIte]
      split at hok
      · simp [rejectWith] at hok
      · rename_i hbound
        simp only [hbound, Bool.false_eq_true, ↓reduceIte]
        unfold applyEvent at hok ⊢
        split at hok
        · cases hok
        · rename_i hnp
          simp only [hnp, Bool.false_eq_true, ↓reduceIte]
          cases hd : doOrReject inst2 eSTART (m.arg.getD .other) with
          | none => simp [hd, rejectWith] at hok
          | some x =>
            obtain ⟨i3, o3⟩ := x
            simp only [hd] at hok ⊢
            obtain ⟨hok3, hi3⟩ := C18Node.doOrReject_ok inst2 eSTART _ i3 o3 hd
            -- the first handling: idle signing machine, no hand-over
            obtain ⟨hsome, hreach, hmach3, hdump3, hrs3⟩ := doEv_ok_facts inst2 eSTART _ hok3
            obtain ⟨hm2, hs2⟩ := table_start inst2.machine (mem_allMids _) inst2.state (St.mem_all _) hsome
            rw [hm2, hs2] at hreach
            obtain ⟨hnsig, hnmk, hpool3⟩ := table_start_reach _ hreach
            have ho3 : o3 = (inst2.doEv eSTART (m.arg.getD .other)).2 := by
              unfold doOrReject at hd
              have hb : ((inst2.doEv eSTART (m.arg.getD .other)).2.res == .ok) = true := by simp [hok3]
              simp only [hb, ↓reduceIte, Option.some.injEq] at hd
              rw [hd]
            rw [← hi3] at hreach hmach3 hdump3 hnsig hnmk hpool3 hrs3
            rw [← ho3] at hrs3
            have hf1 : ∀ now, firstHandOver i3 o3 now = some (i3, respStateOf o3, respDataOf o3) := by
              intro now; unfold firstHandOver
              have : (respStateOf o3 == some .s_state_sig_proposal_collected) = false := by rw [hrs3]; simp; exact hnsig
              simp only [this, Bool.false_eq_true, ↓reduceIte]
            have hf2 : ∀ now, secondHandOver i3 (respStateOf o3) (respDataOf o3) now = some (i3, respStateOf o3, respDataOf o3) := by
              intro now; unfold secondHandOver
              have : (respStateOf o3 == some .s_state_dkg_master_key_collected) = false := by rw [hrs3]; simp; exact hnmk
              simp only [this, Bool.false_eq_true, ↓reduceIte]
            have hafter : ∀ (s0 : NodeSt) now, afterDo s0 i3 o3 m now payloadOf = finish s0 i3 (respStateOf o3) (respDataOf o3) m now payloadOf := by
              intro s0 now; unfold afterDo; simp only [hf1, hf2]
            rw [hafter] at hok ⊢
            obtain ⟨sent, i6, st3, hrc, h3, hpl⟩ := finish_ok_inv _ _ _ _ _ _ _ hok
            rw [finish_ok_eq s i3 _ _ m now1 payloadOf sent i6 st3 hrc h3 hpl]
            simp only
            -- the stored round: the signing machine, the payload the first `Do` left
            have hi6 : i6.payload = i3.payload ∧ ∃ s6, i6.dumpState = some s6 ∧ poolState s6 = some .sign ∧ (s6 = sIDLE ∨ s6 = i3.state) := by
              unfold restartAfterCollect at h3
              split at h3
              · cases hrr : Instance.restore i3.dumpState i3.payload with
                | none => simp [hrr] at h3
                | some rr =>
                  simp only [hrr] at h3
                  cases hdr : doOrReject rr .e_event_signing_restart (.default now1) with
                  | none => simp [hdr] at h3
                  | some y =>
                    obtain ⟨j, oj⟩ := y
                    simp only [hdr, Option.map_some, Option.some.injEq] at h3
                    obtain ⟨hokr, hj⟩ := C18Node.doOrReject_ok rr _ _ j oj hdr
                    rw [hdump3] at hrr
                    obtain ⟨_, hrp, _, _⟩ := restore_some _ _ _ hrr
                    rcases C18Node.restart_only_sign rr.machine rr.state with ⟨hm, hs⟩ | hnone
                    · have hgi := C06.restart_goes_idle rr.state hs rr.payload (.default now1)
                      have hds := C19.ok_dump_state rr _ _ hokr
                      have hstj : (rr.doEv .e_event_signing_restart (.default now1)).1.state = sIDLE := by
                        unfold Instance.doEv; simp only [hm]; exact hgi.1
                      have hplj : (rr.doEv .e_event_signing_restart (.default now1)).1.payload = rr.payload := by
                        unfold Instance.doEv; simp only [hm]; exact hgi.2.2
                      rw [← h3, hj]
                      exact ⟨by rw [hplj, hrp], sIDLE, by rw [hds, hstj], by decide, Or.inl rfl⟩
                    · exfalso
                      have hok' : (doEvent (machineOf rr.machine) runAction rr.state rr.payload .e_event_signing_restart (.default now1)).res = .ok := hokr
                      unfold doEvent at hok'
                      rw [hnone] at hok'
                      cases hok'
              · simp only [Option.some.injEq] at h3
                rw [← h3]
                exact ⟨rfl, i3.state, hdump3, hpool3, Or.inr rfl⟩
            obtain ⟨hp6, s6, hd6, hpool6, hs6⟩ := hi6
            refine second_handling payloadOf _ m _ now2 i6.dumpState i6.payload ?_ h1 h2 ?_
            · simp only [saveFSM]
              exact Dc4bcVerif.Lemmas.NodeLocal.lookupS_assocSet_eq _ _ _
            · intro r hr st2' inst2' hpre
              obtain ⟨_, hin⟩ := preSteps_cont _ r m now2 st2' inst2' hpre
              rw [hd6] at hr
              obtain ⟨hrs, hrp, _, hrpool⟩ := restore_some _ _ _ hr
              have hrm : r.machine = .sign := by rw [hpool6] at hrpool; exact (Option.some.inj hrpool).symm
              -- what is handed on: the signing machine with the payload the first `Do` left
              have hfacts : inst2'.machine = .sign ∧ inst2'.payload = i3.payload ∧ (inst2'.state = sIDLE ∨ inst2'.state = i3.state) := by
                rcases hin with h | ⟨a, b, c, _⟩
                · rw [h]
                  refine ⟨hrm, by rw [hrp, hp6], ?_⟩
                  rw [hrs]; exact hs6
                · exact ⟨a, by rw [c, hrp, hp6], Or.inl b⟩
              obtain ⟨hm', hp', hs'⟩ := hfacts
              by_cases hidle : inst2'.state = sIDLE
              · -- accepted again, with the same result
                have hdo : inst2'.doEv eSTART (m.arg.getD .other) = (i3, o3) := by
                  have hout : (inst2'.doEv eSTART (m.arg.getD .other)).2 = o3 := by
                    show doEvent (machineOf inst2'.machine) runAction inst2'.state inst2'.payload eSTART _ = o3
                    rw [hm', hidle, hp', ho3, hi3]
                    show _ = doEvent (machineOf inst2.machine) runAction inst2.state inst2.payload eSTART _
                    rw [hm2, hs2]
                    have hokd : (doEvent signMachine runAction sIDLE inst2.payload eSTART (m.arg.getD .other)).res = .ok := by
                      have := hok3
                      change (doEvent (machineOf inst2.machine) runAction inst2.state inst2.payload eSTART _).res = .ok at this
                      rw [hm2, hs2] at this; exact this
                    have := start_do_again inst2.payload (m.arg.getD .other) hokd
                    show doEvent signMachine runAction sIDLE (inst2.doEv eSTART (m.arg.getD .other)).1.payload eSTART _ = _
                    have hpay : (inst2.doEv eSTART (m.arg.getD .other)).1.payload =
                        (doEvent signMachine runAction sIDLE inst2.payload eSTART (m.arg.getD .other)).payload := by
                      show (doEvent (machineOf inst2.machine) runAction inst2.state inst2.payload eSTART _).payload = _
                      rw [hm2, hs2]
                      rfl
                    rw [hpay]; exact this
                  have hfst : (inst2'.doEv eSTART (m.arg.getD .other)).1 = i3 := by
                    have e1 : (inst2'.doEv eSTART (m.arg.getD .other)).1 =
                        { inst2' with state := (inst2'.doEv eSTART (m.arg.getD .other)).2.state,
                                      dumpState := (match (inst2'.doEv eSTART (m.arg.getD .other)).2.resp with
                                        | some (st, _) => st | none => inst2'.dumpState),
                                      payload := (inst2'.doEv eSTART (m.arg.getD .other)).2.payload } := rfl
                    have e2 : i3 =
                        { inst2 with state := o3.state,
                                     dumpState := (match o3.resp with | some (st, _) => st | none => inst2.dumpState),
                                     payload := o3.payload } := by rw [hi3, ho3]; rfl
                    rw [e1, hout, e2]
                    obtain ⟨d, hresp⟩ := doEvent_ok_state (machineOf inst2.machine) runAction inst2.state inst2.payload eSTART _ hok3
                    have hresp' : o3.resp = some (some o3.state, d) := by rw [ho3]; exact hresp
                    simp only [hresp', Instance.mk.injEq, and_true]
                    rw [hm', hm2]
                  exact Prod.ext hfst hout
                unfold DispatchQuiet dispatch
                simp only [hev, hreq, Bool.false_eq_true, ↓reduceIte]
                split
                · exact ⟨by simp [rejectWith], fun h => by simp [rejectWith] at h⟩
                · unfold applyEvent doPanics doOrReject
                  have hr3 : o3.res = .ok := by rw [ho3]; exact hok3
                  simp only [hdo, hr3, beq_self_eq_true, ↓reduceIte]
                  have : ((Res.ok == Res.panic) = true) = False := by simp
                  simp only [this, ↓reduceIte]
                  rw [hafter]
                  have h3' : restartAfterCollect (respStateOf o3 == some .s_state_signing_partial_signs_collected) i3 now2 = some i6 := by
                    rw [restartAfterCollect_indep _ i3 now2 now1]; exact h3
                  have hpl' := placeholders_idem s st3 m payloadOf hpl m.round (i6.dumpState, i6.payload)
                  rw [finish_ok_eq _ i3 _ _ m now2 payloadOf sent i6 _ hrc h3' hpl', saveFSM_idem]
                  exact ⟨by simp, fun _ => ⟨rfl, Or.inr rfl⟩⟩
              · -- not idle: the table refuses the start of a batch
                apply dispatch_refused
                intro ev' hf'
                have hev' : ev' = eSTART := by rw [hev] at hf'; exact (Option.some.inj hf').symm
                subst hev'
                rcases table_start_refused inst2'.state (St.mem_all _) with h | h
                · exact absurd h hidle
                · exact refused_err inst2' eSTART (by rw [hm']; exact h) _

/-- **node_reapply.** Every node state, every message, every two clock readings: a message that was handled successfully
is, when handled again on the resulting state, not a crash, and if it is accepted again then nothing changes and the
operation it asks for (if any) is the one it asked for the first time. A rejection changes nothing either
(`C18.reject_is_noop`). -/
theorem node_reapply (payloadOf : Tasks.Msg → Bytes) (st : NodeSt) (m : NMsg) (now1 now2 : Time)
    (hok : (processMessage st m now1 payloadOf).out = .ok) :
    AgainAt payloadOf (processMessage st m now1 payloadOf).st m (processMessage st m now1 payloadOf).op now2 := by
  apply node_reapply_of payloadOf st m now1 now2 ?_ hok
  intro st1 inst hg hv h1 h2 hok1
  by_cases hev : Ev.all.find? (fun e => e.name == m.event) = some eSTART
  · exact start_reapply payloadOf st1 inst m now1 hg hv h1 h2 hev hok1 now2
  · exact handleEvent_reapply payloadOf st1 inst m now1 hg hv h1 h2 (fun ev h he => hev (by rw [h, he])) hok1 now2

/-! ### the crash model, for the node's handler -/

open Dc4bcVerif.Model.Crash in
/-- the node's handler in the shape of `Model/Crash.lean`: `none` = not accepted -/
def nodeHandler (payloadOf : Tasks.Msg → Bytes) (now : Time) : Handler NodeSt NMsg NOp := fun st m =>
  let r := processMessage st m now payloadOf
  if r.out = .ok then some (r.st, r.op) else none

/-- **`ReapplySafe` holds of the node's handler** (at any fixed clock reading; `node_reapply` is the statement for two) -/
theorem node_reapplySafe (payloadOf : Tasks.Msg → Bytes) (now : Time) : C13.ReapplySafe (nodeHandler payloadOf now) := by
  intro s m s' o h
  unfold nodeHandler at h ⊢
  by_cases hok : (processMessage s m now payloadOf).out = .ok
  · simp only [hok, ↓reduceIte, Option.some.injEq, Prod.mk.injEq] at h
    obtain ⟨hs, ho⟩ := h
    have ha := node_reapply payloadOf s m now now hok
    rw [hs, ho] at ha
    by_cases hok2 : (processMessage s' m now payloadOf).out = .ok
    · right
      obtain ⟨hst, hop⟩ := ha.2 hok2
      refine ⟨(processMessage s' m now payloadOf).op, ?_, hop⟩
      simp only [hok2, ↓reduceIte, hst]
    · left; simp only [hok2, ↓reduceIte]
  · simp only [hok, ↓reduceIte] at h; cases h

open Dc4bcVerif.Model.Crash in
/-- **crash_safe for the node's handler, without assumption**: whatever the kills, the store is a crash-free prefix run,
possibly with the next message partially applied; once the log is worked through it IS the crash-free store. -/
theorem node_crash_safe (payloadOf : Tasks.Msg → Bytes) (now : Time) (log : List NMsg) (d : Store NodeSt NOp)
    (sched : List (Option Nat)) :
    ∃ j, C13.Partial (nodeHandler payloadOf now) log (clean (nodeHandler payloadOf now) log d j)
      (run C13.newOrder (nodeHandler payloadOf now) log d sched) :=
  C13.crash_safe (nodeHandler payloadOf now) (node_reapplySafe payloadOf now) log d sched

open Dc4bcVerif.Model.Crash in
theorem node_crash_safe_final (payloadOf : Tasks.Msg → Bytes) (now : Time) (log : List NMsg) (d : Store NodeSt NOp)
    (sched : List (Option Nat)) (hdone : log.length ≤ (run C13.newOrder (nodeHandler payloadOf now) log d sched).offset) :
    ∃ j, run C13.newOrder (nodeHandler payloadOf now) log d sched = clean (nodeHandler payloadOf now) log d j :=
  C13.crash_safe_final (nodeHandler payloadOf now) (node_reapplySafe payloadOf now) log d sched hdone

/-! ### non-vacuity: a message that IS accepted, and is rejected the second time -/

def nvSt : NodeSt := { self := "alice", skipVerify := true }
def nvMsg : NMsg :=
  { round := "r", event := "event_sig_proposal_init", sender := "alice", recipient := "",
    arg := some (.sigInit [⟨"alice", [1,2,3,4,5,6,7,8,9,10], [1,2,3,4,5,6,7,8,9,10]⟩, ⟨"bobby", [1,2,3,4,5,6,7,8,9,10], [1,2,3,4,5,6,7,8,9,10]⟩] 2 1000),
    validKeys := [] }

example : (processMessage nvSt nvMsg 5 (fun _ => [])).out = .ok := by decide +kernel
example : (processMessage (processMessage nvSt nvMsg 5 (fun _ => [])).st nvMsg 9 (fun _ => [])).out = .reject := by decide +kernel
example : (nodeHandler (fun _ => []) 5 nvSt nvMsg).isSome = true := by decide +kernel

end Dc4bcVerif.Props.C13Node
