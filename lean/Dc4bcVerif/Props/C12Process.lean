/-
  C12, the process as a whole — one airgapped PROCESS handles many ceremonies, and besides the per-round DKG instances it
  keeps volatile state that belongs to no round: the base seed in memory (`am.baseSeed`, loaded from the database when the
  process starts, and again by set_seed). `Props/C12.lean` proves the restart property for one round with a handler that is a
  function of that round's instance and the operation. This file proves what that silently assumed:

  * a handler here also READS the process memory `g` (the seed: `sha256(round ‖ baseSeed)`, `InitDKGInstance(baseSeed)`) and
    may, as far as the types go, WRITE it;
  * `carries_on_in_round`: if no handler writes the process memory (`MemPure`) and signing requests leave the instance alone
    (`UnloggedPure`), then after ANY history over ANY number of rounds, in any interleaving, stopping the process, opening the
    database again and replaying round `r` gives a machine that answers every later operation of round `r` exactly as the
    machine that never stopped;
  * `other_rounds_do_not_matter`: under the same hypotheses what a machine answers in round `r` does not depend on the
    other ceremonies its process handled before or in between ("two machines created from the same mnemonic and fed the same
    operations derive identical commitments and shares" — whatever else each has been through);
  * `mem_write_breaks_second_ceremony`: `MemPure` is necessary. A handler that derives the round's instance from the seed and
    then wipes the seed it was handed (an aliased slice: the machine's own) satisfies every hypothesis of `Props/C12.lean`
    round by round, and still a restart inside the SECOND ceremony of a process gives other answers.

  Tie to the code: `Gen/SeedFacts.lean` (regenerated from /repo on every run) lists every statement of package airgapped that
  writes `baseSeed`, every use of it, and what `dkg.InitDKGInstance` does with the slice it is handed; `SrcFacts` checks those
  lists (`seed_written_only_when_set`, `seed_parameter_is_read_only`). That `frand.NewCustom` and `sha256.Sum256` do not write
  their argument is trusted (external libraries) and exercised by airdiff's second-ceremony scenario on real machines.
-/
namespace Dc4bcVerif.Props.C12Process

variable {G V Op R Rd : Type} [DecidableEq Rd]

/-- a handler: (process memory, round, that round's instance, operation) ↦ (instance, result, process memory) -/
abbrev HG (G Rd V Op R : Type) := G → Rd → Option V → Op → Option V × R × G

structure Proc (G Rd V Op : Type) where
  /-- the seed in the database -/
  disk : G
  /-- `am.baseSeed` -/
  mem : G
  /-- `am.dkgInstances` -/
  inst : Rd → Option V
  /-- `operations_log` -/
  log : Rd → List Op

def upd {α : Type} (f : Rd → α) (r : Rd) (x : α) : Rd → α := fun r' => if r' = r then x else f r'

/-- `ProcessOperation(op, true)` for an operation of round `r` -/
def processOp (h : HG G Rd V Op R) (logged : Op → Bool) (p : Proc G Rd V Op) (r : Rd) (op : Op) : Proc G Rd V Op × R :=
  let out := h p.mem r (p.inst r) op
  ({ disk := p.disk, mem := out.2.2, inst := upd p.inst r out.1,
     log := if logged op then upd p.log r (p.log r ++ [op]) else p.log }, out.2.1)

/-- a process started on a database that holds seed `d` -/
def fresh (d : G) : Proc G Rd V Op := ⟨d, d, fun _ => none, fun _ => []⟩

/-- `ReplayOperationsLog(r)`: (instance, process memory afterwards) -/
def replay (h : HG G Rd V Op R) (r : Rd) : G → Option V → List Op → Option V × G
  | g, v, [] => (v, g)
  | g, v, op :: rest => replay h r (h g r v op).2.2 (h g r v op).1 rest

/-- stop the process, start it on the same database, replay round `r` -/
def restart (h : HG G Rd V Op R) (p : Proc G Rd V Op) (r : Rd) : Proc G Rd V Op :=
  { disk := p.disk, mem := (replay h r p.disk none (p.log r)).2,
    inst := upd (fun _ => none) r (replay h r p.disk none (p.log r)).1, log := p.log }

/-- any history: operations of any rounds in any order; results tagged with their round -/
def run (h : HG G Rd V Op R) (logged : Op → Bool) (p : Proc G Rd V Op) : List (Rd × Op) → Proc G Rd V Op × List (Rd × R)
  | [] => (p, [])
  | (r, op) :: rest =>
    let s := processOp h logged p r op
    let t := run h logged s.1 rest
    (t.1, (r, s.2) :: t.2)

/-- operations of one round -/
def runRound (h : HG G Rd V Op R) (logged : Op → Bool) (p : Proc G Rd V Op) (r : Rd) : List Op → Proc G Rd V Op × List R
  | [] => (p, [])
  | op :: rest =>
    let s := processOp h logged p r op
    let t := runRound h logged s.1 r rest
    (t.1, s.2 :: t.2)

/-- no handler writes the process memory -/
def MemPure (h : HG G Rd V Op R) : Prop := ∀ g r v op, (h g r v op).2.2 = g

/-- signing requests (not logged) leave the round's instance alone -/
def UnloggedPure (h : HG G Rd V Op R) (logged : Op → Bool) : Prop := ∀ g r v op, logged op = false → (h g r v op).1 = v

/-- the memory is the database's seed and every instance is what replaying its round's log from that seed rebuilds -/
def Inv (h : HG G Rd V Op R) (p : Proc G Rd V Op) : Prop :=
  p.mem = p.disk ∧ ∀ r, p.inst r = (replay h r p.disk none (p.log r)).1

omit [DecidableEq Rd] in
theorem replay_mem (h : HG G Rd V Op R) (hm : MemPure h) (r : Rd) (g : G) (v : Option V) (l : List Op) :
    (replay h r g v l).2 = g := by
  induction l generalizing g v with
  | nil => rfl
  | cons op rest ih => simp only [replay]; rw [hm g r v op]; exact ih g _

omit [DecidableEq Rd] in
theorem replay_append (h : HG G Rd V Op R) (hm : MemPure h) (r : Rd) (g : G) (v : Option V) (l : List Op) (op : Op) :
    (replay h r g v (l ++ [op])).1 = (h g r (replay h r g v l).1 op).1 := by
  induction l generalizing g v with
  | nil => rfl
  | cons x rest ih => simp only [List.cons_append, replay]; rw [hm g r v x]; exact ih g _

omit [DecidableEq Rd] in
theorem fresh_inv (h : HG G Rd V Op R) (d : G) : Inv h (fresh d : Proc G Rd V Op) := ⟨rfl, fun _ => rfl⟩

theorem process_inv (h : HG G Rd V Op R) (logged : Op → Bool) (hm : MemPure h) (hp : UnloggedPure h logged)
    (p : Proc G Rd V Op) (r : Rd) (op : Op) (hi : Inv h p) : Inv h (processOp h logged p r op).1 := by
  obtain ⟨hmem, hinst⟩ := hi
  refine ⟨?_, ?_⟩
  · simp only [processOp]; rw [hm]; exact hmem
  · intro r'
    by_cases hl : logged op = true
    · simp only [processOp, hl, ↓reduceIte, upd]
      by_cases hr : r' = r
      · subst hr
        simp only [↓reduceIte]
        rw [replay_append h hm, ← hinst r', hmem]
      · simp only [hr, ↓reduceIte]; exact hinst r'
    · have hl' : logged op = false := by simpa using hl
      simp only [processOp, hl', Bool.false_eq_true, ↓reduceIte, upd]
      by_cases hr : r' = r
      · subst hr
        simp only [↓reduceIte]
        rw [hp _ _ _ _ hl']; exact hinst r'
      · simp only [hr, ↓reduceIte]; exact hinst r'

theorem run_inv (h : HG G Rd V Op R) (logged : Op → Bool) (hm : MemPure h) (hp : UnloggedPure h logged)
    (hist : List (Rd × Op)) (p : Proc G Rd V Op) (hi : Inv h p) : Inv h (run h logged p hist).1 := by
  induction hist generalizing p with
  | nil => exact hi
  | cons x rest ih =>
    obtain ⟨r, op⟩ := x
    simp only [run]
    exact ih _ (process_inv h logged hm hp p r op hi)

/-- two processes that look alike from round `r` -/
def AgreeOn (r : Rd) (p q : Proc G Rd V Op) : Prop := p.mem = q.mem ∧ p.inst r = q.inst r

theorem process_agree (h : HG G Rd V Op R) (logged : Op → Bool) (r : Rd) (p q : Proc G Rd V Op) (op : Op) (ha : AgreeOn r p q) :
    (processOp h logged p r op).2 = (processOp h logged q r op).2 ∧ AgreeOn r (processOp h logged p r op).1 (processOp h logged q r op).1 := by
  obtain ⟨h1, h2⟩ := ha
  simp only [processOp, AgreeOn, upd, ↓reduceIte, h1, h2, and_self]

theorem runRound_agree (h : HG G Rd V Op R) (logged : Op → Bool) (r : Rd) (ops : List Op) (p q : Proc G Rd V Op) (ha : AgreeOn r p q) :
    (runRound h logged p r ops).2 = (runRound h logged q r ops).2 := by
  induction ops generalizing p q with
  | nil => rfl
  | cons op rest ih =>
    simp only [runRound]
    obtain ⟨hr, ha'⟩ := process_agree h logged r p q op ha
    rw [hr, ih _ _ ha']

/-- after any history the restarted and replayed process looks, from round `r`, like the one that never stopped -/
theorem restart_agrees (h : HG G Rd V Op R) (hm : MemPure h) (p : Proc G Rd V Op) (r : Rd) (hi : Inv h p) :
    AgreeOn r (restart h p r) p := by
  obtain ⟨hmem, hinst⟩ := hi
  refine ⟨?_, ?_⟩
  · simp only [restart]; rw [replay_mem h hm, hmem]
  · simp only [restart, upd, ↓reduceIte]; exact (hinst r).symm

/-- **carries_on_in_round.** Whatever ceremonies the process has been through (`hist`: any rounds, any interleaving), a stop,
a fresh start on the same database and a replay of round `r` give a machine that answers every later operation of round `r`
like the machine that never stopped. -/
theorem carries_on_in_round (h : HG G Rd V Op R) (logged : Op → Bool) (hm : MemPure h) (hp : UnloggedPure h logged)
    (d : G) (hist : List (Rd × Op)) (r : Rd) (later : List Op) :
    (runRound h logged (restart h (run h logged (fresh d) hist).1 r) r later).2
      = (runRound h logged (run h logged (fresh d) hist).1 r later).2 :=
  runRound_agree h logged r later _ _ (restart_agrees h hm _ r (run_inv h logged hm hp hist _ (fresh_inv h d)))

/-- an operation of another round changes nothing that round `r` can see -/
theorem other_round_agree (h : HG G Rd V Op R) (logged : Op → Bool) (hm : MemPure h) (r r' : Rd) (hne : r' ≠ r)
    (p q : Proc G Rd V Op) (op : Op) (ha : AgreeOn r p q) : AgreeOn r (processOp h logged p r' op).1 q := by
  obtain ⟨h1, h2⟩ := ha
  refine ⟨?_, ?_⟩
  · simp only [processOp]; rw [hm]; exact h1
  · simp only [processOp, upd]
    have : ¬ r = r' := fun e => hne e.symm
    simp only [this, ↓reduceIte]; exact h2

/-- the answers of round `r` inside a history -/
def answersOf (r : Rd) (rs : List (Rd × R)) : List R := rs.filterMap (fun x => if x.1 = r then some x.2 else none)

/-- the operations of round `r` inside a history -/
def opsOf (r : Rd) (hist : List (Rd × Op)) : List Op := hist.filterMap (fun x => if x.1 = r then some x.2 else none)

/-- **other_rounds_do_not_matter.** What a machine answers in round `r` is what a machine with the same seed answers that is
fed round `r` alone: the other ceremonies of the process, before or in between, do not show. -/
theorem other_rounds_do_not_matter (h : HG G Rd V Op R) (logged : Op → Bool) (hm : MemPure h) (r : Rd)
    (hist : List (Rd × Op)) (p q : Proc G Rd V Op) (ha : AgreeOn r p q) :
    answersOf r (run h logged p hist).2 = (runRound h logged q r (opsOf r hist)).2 := by
  induction hist generalizing p q with
  | nil => rfl
  | cons x rest ih =>
    obtain ⟨r', op⟩ := x
    by_cases hr : r' = r
    · subst hr
      obtain ⟨hres, ha'⟩ := process_agree h logged r' p q op ha
      simp only [run, answersOf, opsOf, List.filterMap_cons, ↓reduceIte, runRound]
      rw [hres]
      congr 1
      exact ih _ _ ha'
    · simp only [run, answersOf, opsOf, List.filterMap_cons, hr, ↓reduceIte]
      exact ih _ _ (other_round_agree h logged hm r r' hr p q op ha)

theorem same_seed_same_answers (h : HG G Rd V Op R) (logged : Op → Bool) (hm : MemPure h) (d : G) (r : Rd) (hist : List (Rd × Op)) :
    answersOf r (run h logged (fresh d) hist).2 = (runRound h logged (fresh d) r (opsOf r hist)).2 :=
  other_rounds_do_not_matter h logged hm r hist _ _ ⟨rfl, rfl⟩

/-! ### `MemPure` is necessary: the seed wiped through an aliased slice -/

/-- `true`: the commits step (logged) — the instance is derived from the seed in memory, which is then wiped;
`false`: a request that only reads the instance (not logged) -/
def wiping : HG Nat Nat Nat Bool Nat := fun g _ v op => if op then (some g, g, 0) else (v, v.getD 0, g)

/-- round by round this handler is everything `Props/C12.lean` asks for: deterministic, unlogged operations pure -/
theorem wiping_unlogged_pure : UnloggedPure wiping (fun op => op) := by
  intro g r v op hl; simp only at hl; simp [wiping, hl]

/-- … and its first ceremony survives any restart -/
example : (runRound wiping (fun op => op) (restart wiping (run wiping (fun op => op) (fresh 7) [(0, true)]).1 0) 0 [false]).2
    = (runRound wiping (fun op => op) (run wiping (fun op => op) (fresh 7) [(0, true)]).1 0 [false]).2 := by decide

/-- **mem_write_breaks_second_ceremony.** The second ceremony of the process does not: the machine that never stopped
answers from the wiped seed, the restarted one from the seed in the database. -/
theorem mem_write_breaks_second_ceremony :
    (runRound wiping (fun op => op) (restart wiping (run wiping (fun op => op) (fresh 7) [(0, true), (1, true)]).1 1) 1 [false]).2
      ≠ (runRound wiping (fun op => op) (run wiping (fun op => op) (fresh 7) [(0, true), (1, true)]).1 1 [false]).2 := by decide

/-- … and a machine fed the second ceremony alone answers otherwise than the one that handled the first before it -/
theorem mem_write_breaks_same_seed :
    answersOf 1 (run wiping (fun op => op) (fresh 7) [(0, true), (1, true), (1, false)]).2
      ≠ (runRound wiping (fun op => op) (fresh 7) 1 (opsOf 1 [(0, true), (1, true), (1, false)])).2 := by decide

/-- non-vacuity of the hypotheses: a handler that reads the seed and leaves it alone -/
def reading : HG Nat Nat Nat Bool Nat := fun g r v op => if op then (some (g + r), g + r, g) else (v, v.getD 0, g)

example : MemPure reading ∧ UnloggedPure reading (fun op => op) := by
  refine ⟨?_, ?_⟩
  · intro g r v op; cases op <;> simp [reading]
  · intro g r v op hl; simp only at hl; simp [reading, hl]

end Dc4bcVerif.Props.C12Process
