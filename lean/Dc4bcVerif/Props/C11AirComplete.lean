/-
  The converse of `C11Air.processDeals_ok`: **acceptable deals are accepted.** A machine that has examined no deal yet
  (every verifier fresh) and whose stored deals for the others are all `Acceptable`, from pairwise different dealers, answers
  the deals step with its responses - it does not refuse an honest round. Together with `processDeals_ok`: on a fresh
  instance the deals step is answered with responses IF AND ONLY IF every deal stored for another participant is acceptable
  (`fresh_step_ok_iff`), in every order of Go's range.
-/
import Dc4bcVerif.Props.C12AirOrder
import Dc4bcVerif.Lemmas.AirDkgInv

set_option linter.unusedSectionVars false
set_option linter.unusedSimpArgs false

namespace Dc4bcVerif.Props.C11AirComplete
open Dc4bcVerif.Model.Shamir Dc4bcVerif.Model.AirDkg Dc4bcVerif.Props.C11Air Dc4bcVerif.Props.C12AirOrder

variable {F : Type} [Add F] [Mul F] [Sub F] [Div F] [Zero F] [One F] [DecidableEq F] [NatCast F]
variable {K : Type} [DecidableEq K]

/-- a verifier that has seen nothing yet -/
def Fresh (v : Verifier F) : Prop := v.deal = none ∧ v.resp = []

/-- a fresh verifier approves a deal that is meant for the machine, has an admissible threshold and a share on its commitments -/
theorem verStep_fresh (n pid : Nat) (v : Verifier F) (od : OuterDeal F) (d : PlainDeal F) (hf : Fresh v)
    (hd : od.inner = some d) (hI : d.secI = pid) (hp : pid < n) (ht : validT d.thr n = true)
    (hs : evalPoly d.commits (node d.secI) = d.secV) : (verStep n pid v od).2 = some true := by
  obtain ⟨hdeal, hresp⟩ := hf
  unfold verStep processEncryptedDeal
  rw [hd]
  simp only [hI, ne_eq, not_true_eq_false, ↓reduceIte]
  have hv : verifyDeal n v d true = ({ v with deal := some d }, Verdict.ok) := by
    unfold verifyDeal
    simp only [hdeal, Option.isSome_none, Bool.false_and, Bool.false_eq_true, ↓reduceIte, Option.isNone_none]
    have h1 : (!validT d.thr n) = false := by simp [ht]
    have h4 : (!decide (d.secI < n)) = false := by simp [hI, hp]
    simp [h1, h4, hs]
  rw [hv]
  simp only [reduceCtorEq, ↓reduceIte, decide_true]
  have ha : addResp pid true v.resp = some [(pid, true)] := by
    rw [hresp]; simp [addResp, lookupN]
  rw [ha]

/-- what has to hold of the deals a range visits for the step to go through on a machine that has examined nothing -/
structure Ready (i : Inst F K) (ord : List String) : Prop where
  pid_lt : i.pid < i.keys.length
  vers_len : i.vers.length = i.keys.length
  acceptable : ∀ name ∈ ord, ∀ od, effective i name = some od → Acceptable i od
  fresh : ∀ name ∈ ord, ∀ od, effective i name = some od → ∀ v, i.vers[od.idx]? = some v → Fresh v
  distinct : (ord.filterMap (effective i)).map (·.idx) |>.Nodup

theorem step1_acceptable (i : Inst F K) (od : OuterDeal F) (hp : i.pid < i.keys.length) (hl : i.vers.length = i.keys.length)
    (ha : Acceptable i od) (hfresh : ∀ v, i.vers[od.idx]? = some v → Fresh v) :
    ∃ v, i.vers[od.idx]? = some v ∧ step1 i od = some { i with vers := i.vers.set od.idx (verStep i.keys.length i.pid v od).1 } := by
  obtain ⟨hidx, hsig, d, hd, hI, ht, hs, e, he, hc⟩ := ha
  have hlt : od.idx < i.vers.length := by rw [hl]; exact hidx
  refine ⟨i.vers[od.idx], by simp [hlt], ?_⟩
  have hv : i.vers[od.idx]? = some i.vers[od.idx] := by simp [hlt]
  apply step1_of hidx hsig hv
  · exact verStep_fresh _ _ _ od d (hfresh _ hv) hd hI hp ht hs
  · unfold dealCommitsOk
    rw [hd, he]
    simp [hc]

/-- **acceptable_deals_accepted** -/
theorem acceptable_deals_accepted (ord : List String) : ∀ (i : Inst F K), Ready i ord → ∃ i', loop i ord = some i' := by
  induction ord with
  | nil => intro i _; exact ⟨i, rfl⟩
  | cons name rest ih =>
    intro i hr
    unfold loop
    cases he : effective i name with
    | none =>
      simp only
      apply ih i
      refine ⟨hr.pid_lt, hr.vers_len, ?_, ?_, ?_⟩
      · intro nm hn od hod; exact hr.acceptable nm (List.mem_cons_of_mem _ hn) od hod
      · intro nm hn od hod; exact hr.fresh nm (List.mem_cons_of_mem _ hn) od hod
      · have := hr.distinct
        simp only [List.filterMap_cons, he] at this
        exact this
    | some od =>
      simp only
      have hacc := hr.acceptable name (List.mem_cons_self) od he
      have hfr := hr.fresh name (List.mem_cons_self) od he
      obtain ⟨v, hv, hs⟩ := step1_acceptable i od hr.pid_lt hr.vers_len hacc hfr
      rw [hs]
      simp only
      have hframe : SameFrame i { i with vers := i.vers.set od.idx (verStep i.keys.length i.pid v od).1 } := ⟨rfl, rfl, rfl, rfl⟩
      apply ih
      have hd := hr.distinct
      simp only [List.filterMap_cons, he, List.map_cons, List.nodup_cons] at hd
      refine ⟨hr.pid_lt, by simpa using hr.vers_len, ?_, ?_, ?_⟩
      · intro nm hn od' hod
        rw [effective_frame hframe nm] at hod
        exact acceptable_of_frame (SameFrame.refl i) (hr.acceptable nm (List.mem_cons_of_mem _ hn) od' hod)
      · intro nm hn od' hod w hw
        rw [effective_frame hframe nm] at hod
        have hne : od.idx ≠ od'.idx := by
          intro heq
          apply hd.1
          rw [heq]
          exact List.mem_map.mpr ⟨od', List.mem_filterMap.mpr ⟨nm, hn, hod⟩, rfl⟩
        simp only at hw
        rw [getElem_opt_set_ne _ _ _ _ hne] at hw
        exact hr.fresh nm (List.mem_cons_of_mem _ hn) od' hod w hw
      · have : (rest.filterMap (effective { i with vers := i.vers.set od.idx (verStep i.keys.length i.pid v od).1 })) = rest.filterMap (effective i) := by
          have hfun : effective { i with vers := i.vers.set od.idx (verStep i.keys.length i.pid v od).1 } = effective i := by
            funext nm
            exact effective_frame hframe nm
          rw [hfun]
        rw [this]
        exact hd.2

/-- **fresh_step_ok_iff.** On a machine that has examined no deal of the dealers a range visits, with deals of pairwise
different dealers: the loop goes through iff every deal it visits is acceptable. -/
theorem fresh_step_ok_iff (i : Inst F K) (ord : List String) (hp : i.pid < i.keys.length) (hl : i.vers.length = i.keys.length)
    (hfresh : ∀ name ∈ ord, ∀ od, effective i name = some od → ∀ v, i.vers[od.idx]? = some v → Fresh v)
    (hdist : ((ord.filterMap (effective i)).map (·.idx)).Nodup) :
    (∃ i', loop i ord = some i') ↔ (∀ name ∈ ord, ∀ od, effective i name = some od → Acceptable i od) := by
  constructor
  · rintro ⟨i', h⟩ name hn od hod
    have e := processDeals_eq_loop ord i []
    simp only [h] at e
    have := (processDeals_ok ord i [] i' _ e).2 name hn od
    unfold effective at hod
    cases hlk : lookup name i.deals with
    | none => simp [hlk] at hod
    | some od0 =>
      simp only [hlk] at hod
      split at hod
      · simp at hod
      · rename_i hne
        simp only [Option.some.injEq] at hod
        subst hod
        exact this hlk hne
  · intro hacc
    exact acceptable_deals_accepted ord i ⟨hp, hl, hacc, hfresh, hdist⟩

/-! ### the announcement needs everybody's approval of every deal -/

theorem certified_all_approve {n k : Nat} {v : Verifier F} (hk : k < n) (h : dealCertified n v = true) :
    lookupN k v.resp = some true := by
  unfold dealCertified at h
  split at h
  · simp at h
  · simp only [Bool.and_eq_true, Bool.not_eq_eq_eq_not, Bool.not_true, List.any_eq_false, List.mem_map, List.mem_range,
      forall_exists_index, and_imp, forall_apply_eq_imp_iff₂] at h
    obtain ⟨⟨_, hfalse⟩, hnone⟩ := h
    have h1 := hfalse k hk
    have h2 := hnone k hk
    cases hl : lookupN k v.resp with
    | none => simp [hl] at h2
    | some b =>
      cases b with
      | true => rfl
      | false => simp [hl] at h1

theorem processResponses_certified (ord : List Nat) : ∀ (i i' : Inst F K), processResponses i ord = (i', true) →
    i'.vers.all (dealCertified i'.keys.length) = true ∧ i'.keys.length ≤ i'.vers.length := by
  induction ord with
  | nil =>
    intro i i' h
    unfold processResponses at h
    simp only [Prod.mk.injEq, Bool.and_eq_true, decide_eq_true_eq] at h
    obtain ⟨rfl, h2, h3⟩ := h
    exact ⟨h2, h3⟩
  | cons k rest ih =>
    intro i i' h
    unfold processResponses at h
    generalize processRespList i (storedOf i k) = q at h
    obtain ⟨i1, ok⟩ := q
    cases ok with
    | false => simp at h
    | true => exact ih i1 i' h

/-- **announcement_needs_every_approval.** The master-key step is answered with an announcement only if, on this machine,
EVERY dealer's deal holds the approval of EVERY participant (no complaint, nobody missing) - C11: "a round can become
signing-ready only if every private deal was consistent with its dealer's public commitments", as far as one machine can
see: its own approvals are the checks of `C11Air.processDeals_ok`, the others' are what they reported. -/
theorem announcement_needs_every_approval (m : Machine F K) (round : String) (entries : List (String × Option (List (RespMsg F))))
    (ord : List Nat) (m' : Machine F K) (pid : Nat) (key : Option F) (poly : List F)
    (h : masterKeyOp m round entries ord = (m', Res.masterKey pid key poly)) :
    ∃ i', lookup round m'.insts = some i' ∧ i'.keys.length ≤ i'.vers.length ∧
      ∀ v ∈ i'.vers, ∀ k, k < i'.keys.length → lookupN k v.resp = some true := by
  unfold masterKeyOp at h
  cases hl : lookup round m.insts with
  | none => simp [hl] at h
  | some i =>
    simp only [hl] at h
    generalize storeResponses i entries = q at h
    obtain ⟨i1, ok⟩ := q
    cases ok with
    | false => simp at h
    | true =>
      simp only [Bool.not_true, Bool.false_eq_true, ↓reduceIte] at h
      generalize hq : processResponses i1 ord = q2 at h
      obtain ⟨i2, res⟩ := q2
      cases res with
      | false => simp at h
      | true =>
        simp only at h
        obtain ⟨hcert, hlen⟩ := processResponses_certified ord i1 i2 hq
        cases hd : distKey i2 with
        | none => simp [hd] at h
        | some kr =>
          simp only [hd] at h
          split at h
          · simp at h
          · simp only [Prod.mk.injEq] at h
            obtain ⟨hm, _⟩ := h
            subst hm
            refine ⟨i2, by simp [Dc4bcVerif.Lemmas.AirDkgInv.lookup_put_self], hlen, ?_⟩
            intro v hv k hk
            have hc : dealCertified i2.keys.length v = true := by
              rw [List.all_eq_true] at hcert; exact hcert v hv
            exact certified_all_approve hk hc

/-! ### a complaint ends the step on every machine (fix c76d172) -/

theorem dkgProcessResponse_pid (i : Inst F K) (r : RespMsg F) : (dkgProcessResponse i r).1.pid = i.pid := by
  unfold dkgProcessResponse
  simp only
  repeat (first | rfl | split)

/-- **complaint_refused.** A complaint of another participant among the responses a range visits - about whatever deal,
the machine's own included - and the step is refused. (Until fix c76d172 the machine of the dealer complained about
justified its own deal to itself, counted the complaint as an approval, answered with the announcement and stored a share
for a round every other machine aborted: algdiff deviation `response-complaint-signed`.) -/
theorem complaint_refused (rs : List (RespMsg F)) : ∀ (i : Inst F K), (∃ r ∈ rs, r.ver ≠ i.pid ∧ r.status = false) →
    (processRespList i rs).2 = false := by
  induction rs with
  | nil => intro i h; obtain ⟨r, hr, _⟩ := h; simp at hr
  | cons x rest ih =>
    intro i h
    obtain ⟨r, hr, hne, hst⟩ := h
    unfold processRespList
    by_cases hx : x.ver = i.pid
    · simp only [hx, ↓reduceIte]
      rcases List.mem_cons.mp hr with rfl | hin
      · exact absurd hx hne
      · exact ih i ⟨r, hin, hne, hst⟩
    · simp only [hx, ↓reduceIte]
      by_cases hs : x.status = true
      · simp only [hs, Bool.not_true, Bool.false_eq_true, ↓reduceIte]
        rcases List.mem_cons.mp hr with rfl | hin
        · rw [hst] at hs; simp at hs
        · have hp := dkgProcessResponse_pid i x
          generalize dkgProcessResponse i x = q at hp
          obtain ⟨i1, ok⟩ := q
          cases ok with
          | false => rfl
          | true =>
            simp only at hp ⊢
            exact ih i1 ⟨r, hin, by rw [hp]; exact hne, hst⟩
      · have hs' : x.status = false := by simpa using hs
        simp [hs']

end Dc4bcVerif.Props.C11AirComplete
