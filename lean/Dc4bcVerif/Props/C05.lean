/-
  C05 — a round advances only on unanimous delivery; any failure aborts it for good.

  Part 1 (this section): statements that hold for the generated transition tables whatever the
  callbacks do — proved by deciding a closure property of the table and lifting it through the
  engine model (`doEvent_hops`: one `Do` moves the state along at most three table rows).
-/
import Dc4bcVerif.Model.Run
import Dc4bcVerif.Lemmas.FsmEngine
import Dc4bcVerif.Props.C19
import Dc4bcVerif.Lemmas.RoundStep

namespace Dc4bcVerif.Props.C05
open Dc4bcVerif.Gen Dc4bcVerif.Model

/-- cancelled states of the invitation and key-generation phases -/
def cancelled (s : St) : Bool :=
  s == .s_state_sig_proposal_canceled_by_participant || s == .s_state_sig_proposal_canceled_by_timeout
  || s == .s_state_dkg_commits_await_canceled_by_error || s == .s_state_dkg_commits_await_canceled_by_timeout
  || s == .s_state_dkg_deals_await_canceled_by_error || s == .s_state_dkg_deals_await_canceled_by_timeout
  || s == .s_state_dkg_responses_await_canceled_by_error || s == .s_state_dkg_responses_sending_canceled_by_timeout
  || s == .s_state_dkg_master_key_await_canceled_by_error || s == .s_state_dkg_master_key_await_canceled_by_timeout

/-- signing-ready: key generation finished (`master_key_collected`) or any state of the signing machine -/
def signingReady (s : St) : Bool :=
  s == .s_state_dkg_master_key_collected || s == sIDLE' || s == .s_state_signing_await_partial_signs
  || s == .s_state_signing_partial_signs_collected
  || s == .s_state_signing_partial_signs_await_cancelled_by_error
  || s == .s_state_signing_partial_signs_await_cancelled_by_timeout
where sIDLE' : St := .s_stage_signing_idle

/-- every table row leaving a cancelled state stays in the cancelled set, in all three machines -/
theorem cancelled_closed (mid : MachineId) : closedUnder (machineOf mid) cancelled = true := by
  cases mid <;> decide

theorem cancelled_not_ready (s : St) (h : cancelled s = true) : signingReady s = false := by
  revert h; cases s <;> decide

/-- one step of the persisted round never leaves the cancelled set -/
theorem cancelled_step (i : Instance) (ea : Ev × Arg) (h : cancelled i.state = true) :
    cancelled (persistStep i ea).state = true := by
  by_cases hok : (i.doEv ea.1 ea.2).2.res = .ok
  · obtain ⟨m, _, hshape⟩ := C19.persistStep_ok_shape i ea hok
    rw [hshape]
    exact closedUnder_hops (cancelled_closed i.machine)
      (doEvent_hops (machineOf i.machine) runAction i.state i.payload ea.1 ea.2) h
  · rw [C19.persistStep_not_ok i ea hok]; exact h

/-- **cancel_absorbing.** Once a round is in a cancelled state (decline, reported error, expired
deadline, mismatching keys), no sequence of events — whatever events, participants, payloads
or timestamps — ever makes it signing-ready. -/
theorem cancel_absorbing (i : Instance) (h : cancelled i.state = true) (evs : List (Ev × Arg)) :
    signingReady (run i evs).state = false := by
  apply cancelled_not_ready
  exact run_induction (Q := fun j => cancelled j.state = true) cancelled_step i h evs

/-- position of a state in the ceremony: 0 idle, 1 invitation, 2 invitations collected, 3 commits,
4 deals, 5 responses, 6 key confirmation, 7 keys collected, 8 signing. A cancelled state keeps
the rank of the phase it cancelled. -/
def rank : St → Nat
  | .s___idle => 0
  | .s_state_sig_proposal_await_participants_confirmations => 1
  | .s_state_sig_proposal_canceled_by_participant => 1
  | .s_state_sig_proposal_canceled_by_timeout => 1
  | .s_state_sig_proposal_collected => 2
  | .s_state_dkg_commits_await_confirmations => 3
  | .s_state_dkg_commits_await_canceled_by_error => 3
  | .s_state_dkg_commits_await_canceled_by_timeout => 3
  | .s_state_dkg_deals_await_confirmations => 4
  | .s_state_dkg_deals_await_canceled_by_error => 4
  | .s_state_dkg_deals_await_canceled_by_timeout => 4
  | .s_state_dkg_responses_await_confirmations => 5
  | .s_state_dkg_responses_await_canceled_by_error => 5
  | .s_state_dkg_responses_sending_canceled_by_timeout => 5
  | .s_state_dkg_master_key_await_confirmations => 6
  | .s_state_dkg_master_key_await_canceled_by_error => 6
  | .s_state_dkg_master_key_await_canceled_by_timeout => 6
  | .s_state_dkg_master_key_collected => 7
  | _ => 8

/-- every row of every table keeps the phase or advances it by exactly one: no phase is skipped
and none is ever repeated (there is no row back to an earlier phase) -/
def rowsInOrder (m : MachineDesc) : Bool :=
  St.all.all (fun s => (succs m s).all (fun s' => decide (rank s ≤ rank s' ∧ rank s' ≤ rank s + 1)))

theorem rows_in_order (mid : MachineId) : rowsInOrder (machineOf mid) = true := by
  cases mid <;> decide

theorem edge_rank {mid : MachineId} {s s' : St} (h : Edge (machineOf mid) s s') :
    rank s ≤ rank s' ∧ rank s' ≤ rank s + 1 := by
  have := rows_in_order mid
  unfold rowsInOrder at this
  rw [List.all_eq_true] at this
  have h1 := this s (St.mem_all s)
  rw [List.all_eq_true] at h1
  have h2 := h1 s' (edge_mem_succs h)
  simpa using h2

theorem hops_rank {mid : MachineId} {k : Nat} {s s' : St} (h : Hops (machineOf mid) k s s') : rank s ≤ rank s' := by
  induction h with
  | refl => exact Nat.le_refl _
  | step e _ ih => exact Nat.le_trans (edge_rank e).1 ih

/-- **phase_order.** Along every run the phase never goes backwards … -/
theorem rank_step (i : Instance) (ea : Ev × Arg) : rank i.state ≤ rank (persistStep i ea).state := by
  by_cases hok : (i.doEv ea.1 ea.2).2.res = .ok
  · obtain ⟨m, _, hshape⟩ := C19.persistStep_ok_shape i ea hok
    rw [hshape]
    exact hops_rank (doEvent_hops (machineOf i.machine) runAction i.state i.payload ea.1 ea.2)
  · rw [C19.persistStep_not_ok i ea hok]; exact Nat.le_refl _

theorem phase_monotone (i : Instance) (evs : List (Ev × Arg)) : rank i.state ≤ rank (run i evs).state := by
  induction evs generalizing i with
  | nil => exact Nat.le_refl _
  | cons ea evs ih => exact Nat.le_trans (rank_step i ea) (ih _)

/-- … and (`edge_rank`) every single state change is by at most one phase, so reaching phase `k`
means having passed through every phase below it, in order. -/
theorem no_phase_skipped {mid : MachineId} {s s' : St} (h : Edge (machineOf mid) s s') : rank s' ≤ rank s + 1 :=
  (edge_rank h).2

/-- **reject_noop**, routing part: an event that has no transition from the current state, or is
internal, changes neither the state nor the payload, and nothing is persisted. -/
theorem route_reject_noop (i : Instance) (ea : Ev × Arg) (h : (i.doEv ea.1 ea.2).2.resp = none) :
    persistStep i ea = i := by
  have hres : (i.doEv ea.1 ea.2).2.res ≠ .ok := by
    intro hok
    obtain ⟨d, hd⟩ := doEvent_ok_state (machineOf i.machine) runAction i.state i.payload ea.1 ea.2 hok
    have : (i.doEv ea.1 ea.2).2.resp = (doEvent (machineOf i.machine) runAction i.state i.payload ea.1 ea.2).resp := rfl
    rw [this, hd] at h; cases h
  exact C19.persistStep_not_ok i ea hres

/-
  Part 2: statements that depend on what the callbacks do. `RoundInv` is carried along every run
  (induction over the event list); the per-phase outcome theorems (`Lemmas/SigPhase`,
  `Lemmas/DkgPhases`, `Lemmas/MasterKeyPhase`) say what an accepted event does under it.
-/

/-- the invariant of a persisted round -/
def RoundInv (i : Instance) : Prop := poolState i.state = some i.machine ∧ phaseInv i.state i.payload

theorem machine_of_state {i : Instance} (h : poolState i.state = some i.machine) {s : St} (hs : i.state = s)
    {m : MachineId} (hp : poolState s = some m) : i.machine = m := by
  rw [hs, hp] at h; exact (Option.some.inj h).symm

theorem roundInv_step (i : Instance) (ea : Ev × Arg) (h : RoundInv i) : RoundInv (persistStep i ea) := by
  obtain ⟨e, a⟩ := ea
  by_cases hok : (i.doEv e a).2.res = .ok
  · obtain ⟨m, hm, hshape⟩ := C19.persistStep_ok_shape i (e, a) hok
    rw [hshape]
    refine ⟨hm, ?_⟩
    show phaseInv (doEvent (machineOf i.machine) runAction i.state i.payload e a).state
      (doEvent (machineOf i.machine) runAction i.state i.payload e a).payload
    have hok' : (doEvent (machineOf i.machine) runAction i.state i.payload e a).res = .ok := hok
    obtain ⟨hcons, hph⟩ := h
    rcases state_classes i.state with hs | hs | hs | hs | hs | hs | hs | hs | hs
    · have hmach := machine_of_state hcons hs (m := .sig) (by decide)
      rw [hs] at hph; rw [hmach, hs] at hok' ⊢
      exact idle_step_inv i.payload e a hph hok'
    · have hmach := machine_of_state hcons hs (m := .sig) (by decide)
      rw [hs] at hph; rw [hmach, hs] at hok' ⊢
      obtain ⟨sc, hinv⟩ := hph
      exact sigAwait_step_inv i.payload e a sc hinv hok'
    · have hmach := machine_of_state hcons hs (m := .dkg) (by decide)
      rw [hs] at hph; rw [hmach, hs] at hok' ⊢
      obtain ⟨hd, sc, hsc, _, _⟩ := hph
      exact sigCollected_step_inv i.payload e a hd sc hsc hok'
    · have hmach := machine_of_state hcons hs (m := .dkg) (by decide)
      rw [hs] at hph; rw [hmach, hs] at hok' ⊢
      obtain ⟨dc, hinv⟩ := hph
      exact commits_step_inv i.payload e a dc hinv hok'
    · have hmach := machine_of_state hcons hs (m := .dkg) (by decide)
      rw [hs] at hph; rw [hmach, hs] at hok' ⊢
      obtain ⟨dc, hinv⟩ := hph
      exact deals_step_inv i.payload e a dc hinv hok'
    · have hmach := machine_of_state hcons hs (m := .dkg) (by decide)
      rw [hs] at hph; rw [hmach, hs] at hok' ⊢
      obtain ⟨dc, hinv⟩ := hph
      exact responses_step_inv i.payload e a dc hinv hok'
    · have hmach := machine_of_state hcons hs (m := .dkg) (by decide)
      rw [hs] at hph; rw [hmach, hs] at hok' ⊢
      obtain ⟨dc, hinv⟩ := hph
      exact mk_step_inv i.payload e a dc hinv hok'
    · have hmach : i.machine = .sign := by
        have hp : poolState i.state = some .sign := by
          revert hs; cases i.state <;> decide
        rw [hp] at hcons; exact (Option.some.inj hcons).symm
      rw [signFamily_phaseInv _ hs] at hph
      rw [hmach]
      exact signFamily_step_inv i.state hs i.payload e a hph
    · exact cancelled_step_inv i.machine i.state hs i.payload e a
  · rw [C19.persistStep_not_ok i (e, a) hok]; exact h

/-- **Run theorem.** Every round, after any finite sequence of events (any events, participants,
payloads, timestamps, accepted or rejected), satisfies the phase invariant of the state it is in. -/
theorem round_invariant (id : String) (evs : List (Ev × Arg)) : RoundInv (run (Instance.create id) evs) := by
  apply run_induction roundInv_step
  exact ⟨C19.create_consistent id, rfl⟩

/-- **unanimous** (commits phase; deals and responses are `deals_received_outcome`,
`responses_received_outcome`, the invitation phase `sig_confirm_outcome`, key confirmation
`mk_received_outcome`). For every reachable round in the commits phase and every accepted
commit: the sender was still awaited (no participant contributes twice, unknown ids never),
and the round moves on to the deals phase exactly when this was the last of the `n` participants;
a late timestamp cancels; otherwise the phase continues. -/
theorem unanimous_commits (id : String) (evs : List (Ev × Arg)) (a : Arg)
    (hst : (run (Instance.create id) evs).state = sCommitsAwait)
    (hok : (doEvent dkgMachine runAction sCommitsAwait (run (Instance.create id) evs).payload eCommitsOk a).res = .ok) :
    ∃ dc, (run (Instance.create id) evs).payload.dkg = some dc ∧
    ∃ pid data ts part, a = .commit pid data ts ∧ getAt dc.quorum pid = some part ∧ part.status = 0 ∧
      (let out := doEvent dkgMachine runAction sCommitsAwait (run (Instance.create id) evs).payload eCommitsOk a
       (dc.expiresAt < ts ∧ out.state = sCommitsCancTo) ∨
       (¬ dc.expiresAt < ts ∧ cntDkg dc 1 + 1 = dc.quorum.length ∧ out.state = sCommitsNext) ∨
       (¬ dc.expiresAt < ts ∧ cntDkg dc 1 + 1 < dc.quorum.length ∧ out.state = sCommitsAwait)) := by
  have hinv := (round_invariant id evs).2
  rw [hst] at hinv
  obtain ⟨dc, hc⟩ := hinv
  refine ⟨dc, hc.hdkg, ?_⟩
  obtain ⟨pid, data, ts, part, ha, hg, hs, hcase⟩ := commits_received_outcome _ a dc hc hok
  refine ⟨pid, data, ts, part, ha, hg, hs, ?_⟩
  rcases hcase with ⟨h1, h2⟩ | ⟨h1, h2, h3, _⟩ | ⟨h1, h2, h3, _⟩
  · exact Or.inl ⟨h1, h2⟩
  · exact Or.inr (Or.inl ⟨h1, h2, h3⟩)
  · exact Or.inr (Or.inr ⟨h1, h2, h3⟩)

/-- **failure aborts**: in every phase of key generation an accepted error report puts the round
into that phase's cancelled state (and `cancel_absorbing` keeps it there) -/
theorem error_report_cancels (p : Payload) (a : Arg) :
    ((doEvent dkgMachine runAction sCommitsAwait p eCommitsErr a).res = .ok →
      cancelled (doEvent dkgMachine runAction sCommitsAwait p eCommitsErr a).state = true) ∧
    ((doEvent dkgMachine runAction sDealsAwait p eDealsErr a).res = .ok →
      cancelled (doEvent dkgMachine runAction sDealsAwait p eDealsErr a).state = true) ∧
    ((doEvent dkgMachine runAction sResponsesAwait p eResponsesErr a).res = .ok →
      cancelled (doEvent dkgMachine runAction sResponsesAwait p eResponsesErr a).state = true) ∧
    ((doEvent dkgMachine runAction sMKAwait p eMKErr a).res = .ok →
      cancelled (doEvent dkgMachine runAction sMKAwait p eMKErr a).state = true) := by
  refine ⟨fun h => ?_, fun h => ?_, fun h => ?_, fun h => ?_⟩
  · rw [commits_error_outcome p a h]; decide
  · rw [deals_error_outcome p a h]; decide
  · rw [responses_error_outcome p a h]; decide
  · rw [mk_error_outcome p a h]; decide

/-- non-vacuity: n = 2, t = 2 — both invited participants confirm, and the round reaches the point
where the node hands over to key generation -/
example : (run (Instance.create "r")
    [(eSigInit, .sigInit [⟨"alice", [1,2,3,4,5,6,7,8,9,10], [1,2,3,4,5,6,7,8,9,10]⟩, ⟨"bobby", [1,2,3,4,5,6,7,8,9,10], [1,2,3,4,5,6,7,8,9,10]⟩] 2 1000),
     (eSigConfirm, .sigPart 0 1001), (eSigConfirm, .sigPart 1 1002)]).state = sSigCollected := by
  decide +kernel

end Dc4bcVerif.Props.C05
