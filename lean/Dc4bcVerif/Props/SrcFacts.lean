/-
  Facts read off the source on every run (Gen/MoreFacts.lean) that the models silently rely on.

  * `reader_is_stateless` (C16): `FileStorage.GetMessages` assigns to no field of its receiver. The board model
    (`Model/Board.lean`) makes a read a function of the file content, the offset and the ignore lists; a node's poller
    keeps ONE handle open for its whole life, so state left behind by a read would make later reads depend on earlier ones.
  * `verify_accepts_only` (C09, C10): `verifyMessage` returns nil in exactly two places — when verification is switched
    off (the operator's flag; during a re-initialisation replay, for the unsigned 0.1.4 patches) and at its end, after
    `ed25519.Verify` succeeded. The node model's `verifyMessage` has exactly these two ways of saying ok.
-/
import Dc4bcVerif.Gen.MoreFacts

namespace Dc4bcVerif.Props.SrcFacts
open Dc4bcVerif.Gen

theorem reader_is_stateless : MoreFacts.readerAssigns = [] := by decide

theorem verify_accepts_only : MoreFacts.verifyAccepts = ["s.GetSkipCommKeysVerification()", "end"] := by decide

end Dc4bcVerif.Props.SrcFacts
