/-
  Facts read off the source on every run (Gen/MoreFacts.lean) that the models silently rely on.

  * `reader_is_stateless` (C16): `FileStorage.GetMessages` assigns to no field of its receiver. The board model
    (`Model/Board.lean`) makes a read a function of the file content, the offset and the ignore lists; a node's poller
    keeps ONE handle open for its whole life, so state left behind by a read would make later reads depend on earlier ones.
  * `verify_accepts_only` (C09, C10): `verifyMessage` returns nil in exactly two places — when verification is switched
    off (the operator's flag; during a re-initialisation replay, for the unsigned 0.1.4 patches) and at its end, after
    `ed25519.Verify` succeeded. The node model's `verifyMessage` has exactly these two ways of saying ok.
  * the operation repository (C13, C15; `Gen/Locks.lean`): `delete_tombstone_first` — `DeleteOperation` writes the tombstone
    list, THEN the pool; `pool_read_filters_tombstones` — the raw read of the pool drops what is in the tombstone list (so
    a kill between the two writes leaves the operation retired, not pending again); `put_touches_only_pool` —
    `PutOperation` writes the pool and nothing else (it cannot remove a tombstone).
  * the clock (C08, C05; `MoreFacts.clockReads`): `clock_readers_known` — of all functions in the round machines, the FSM
    engine, the request types, the node services, the repositories and the board storage, exactly three mention a clock-reading
    function of package `time`: the poller's ticker, `ProposeSignMessages` (the stamp of a new proposal, which then travels in
    the log) and `handleMessage` (the stamp `CreatedAt` of the request built from a board message: the node-clock parameter
    of `Props/C13Clock.lean`). `round_machines_read_no_clock`: none of them is in a directory under `fsm` — a round's
    callbacks compare stamps that came with the log, never the wall clock of the machine that happens to replay it.
-/
import Dc4bcVerif.Gen.MoreFacts
import Dc4bcVerif.Gen.Locks

namespace Dc4bcVerif.Props.SrcFacts
open Dc4bcVerif.Gen

theorem reader_is_stateless : MoreFacts.readerAssigns = [] := by decide

theorem verify_accepts_only : MoreFacts.verifyAccepts = ["s.GetSkipCommKeysVerification()", "end"] := by decide

def callsOf (name : String) : List String :=
  match Locks.repoMethods.find? (fun e => e.1 == name) with
  | some e => e.2.2
  | none => []

theorem delete_tombstone_first : callsOf "DeleteOperation" =
    ["r.getDeletedOperations", "r.state.Set(r.deleteOperationsCompositeKey)", "r.getOperations", "r.state.Set(r.operationsCompositeKey)"] := by
  decide

theorem pool_read_filters_tombstones : (callsOf "getOperations").contains "r.getDeletedOperations" = true := by decide

theorem put_touches_only_pool : callsOf "PutOperation" = ["r.getOperations", "r.state.Set(r.operationsCompositeKey)"] := by decide

theorem clock_readers_known : MoreFacts.clockReads =
    [("client/services/node", "Poll:NewTicker"), ("client/services/node", "ProposeSignMessages:Now"),
     ("client/services/node", "handleMessage:Now")] := by decide

theorem round_machines_read_no_clock : ∀ p ∈ MoreFacts.clockReads, p.1 = "client/services/node" := by
  rw [clock_readers_known]; decide

/-- the directories of the round machines, the engine and the request types were among those searched -/
theorem round_machines_were_searched :
    ["fsm/fsm", "fsm/fsm_pool", "fsm/state_machines", "fsm/state_machines/dkg_proposal_fsm", "fsm/state_machines/internal",
     "fsm/state_machines/signature_proposal_fsm", "fsm/state_machines/signing_proposal_fsm", "fsm/types/requests",
     "client/services/fsmservice"].all (fun d => MoreFacts.clockDirs.contains d) = true := by decide

/-- the poll tick and `SaveOffset` both hold `tickMu` from their first statement to their return (fix 62396d7): an offset saved
through the API lands between two ticks, never inside one (C14) -/
theorem tick_and_saveoffset_exclude : MoreFacts.tickLocked =
    [("tick", "s.tickMu.Lock() ; defer s.tickMu.Unlock()"), ("SaveOffset", "s.tickMu.Lock() ; defer s.tickMu.Unlock()")] := by decide

end Dc4bcVerif.Props.SrcFacts
