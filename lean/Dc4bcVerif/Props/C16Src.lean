/-
  C16 — the source facts behind "a send is one atomic step" (Model/Board.lean `send`: count the lines, append one line
  whose offset is that count — as ONE step of whatever interleaving of writers), read off /repo on every run (Gen/Board.lean).

  * `send_is_one_locked_step`: `send` takes the lock first, releases it by a deferred call, and between the two rewinds the
    file, counts the lines, marshals and appends — in that order, with nothing else that touches the file or the lock.
  * `one_lock_whatever_the_spelling`: a handle takes the lock file its caller names, or else ONE constant file
    (`/tmp/dc4bc_storage_lock`): which lock a handle takes does not depend on the data file's name, so two handles that reach
    the same file under different spellings of its path (relative, through a symlink, with `./`) and name no lock still
    exclude each other. (dc4bc_d names none.) A lock derived from the path as it is spelled would not: the fact changes, and
    boarddiff's default-lock histories — every writer spelling the path of one board its own way — look for the two entries
    that then share an offset.
-/
import Dc4bcVerif.Gen.Board

namespace Dc4bcVerif.Props.C16Src
open Dc4bcVerif.Gen

theorem send_is_one_locked_step :
    Board.sendCalls = ["fs.lockFile.Lock", "defer fs.lockFile.Unlock", "fs.dataFile.Seek", "countLines", "json.Marshal", "fmt.Fprintln"] := by decide

theorem one_lock_whatever_the_spelling :
    Board.lockArgs = ["lockFilename[0]", "defaultLockFile"] ∧ Board.defaultLockFile = "/tmp/dc4bc_storage_lock" := by decide

end Dc4bcVerif.Props.C16Src
