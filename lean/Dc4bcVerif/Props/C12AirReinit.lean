/-
  C12 for a machine whose operations log holds re-initialisations next to ordinary operations (a machine that was re-initialised for
  one round and then took part in another ceremony; `Model/AirReinit.lean`).

  * `run2_eq_run`      - a log whose re-initialisation payloads are answered throughout (`okAll`) is handled like the flattened list of
                         key-generation operations;
  * `replay2_is_identity` - stop + replay of such a log on a machine that had just been started gives the same machine (instances
                         and key rings), whatever key rings its database held before.
  Core-only.
-/
import Dc4bcVerif.Props.C20Air

namespace Dc4bcVerif.Props.C12AirReinit
set_option linter.unusedSectionVars false
open Dc4bcVerif.Model.Shamir Dc4bcVerif.Model.AirDkg Dc4bcVerif.Lemmas.AirDkgInv Dc4bcVerif.Props.C12Air Dc4bcVerif.Props.C20Air

variable {F : Type} [Add F] [Mul F] [Sub F] [Div F] [Zero F] [One F] [DecidableEq F] [NatCast F]
variable {K : Type} [DecidableEq K]

/-- an entry of the operations log: an ordinary operation, or a re-initialisation with its payload of key-generation operations -/
inductive LogOp (F K : Type) where
  | kg (op : Op F K)
  | reinit (round : String) (ops : List (Op F K))

def exec2 (m : Machine F K) : LogOp F K → Machine F K
  | .kg op => (exec m op).1
  | .reinit r ops => (reinitOp m r (ops.map Inner.kg)).1

def run2 (m : Machine F K) (log : List (LogOp F K)) : Machine F K := log.foldl exec2 m

def flat : List (LogOp F K) → List (Op F K)
  | [] => []
  | .kg op :: rest => op :: flat rest
  | .reinit _ ops :: rest => ops ++ flat rest

/-- every re-initialisation payload of the log is answered throughout at the point where it is handled -/
def okAll (m : Machine F K) : List (LogOp F K) → Prop
  | [] => True
  | .kg op :: rest => okAll (exec m op).1 rest
  | .reinit _ ops :: rest => okRun m ops = true ∧ okAll (run m ops) rest

theorem reinit_machine (m : Machine F K) (r : String) (ops : List (Op F K)) (h : okRun m ops = true) :
    (reinitOp m r (ops.map Inner.kg)).1 = run m ops := by
  unfold reinitOp
  rw [loop_eq_run ops m h]
  simp only
  split <;> rfl

theorem run_append' (a b : List (Op F K)) (m : Machine F K) : run m (a ++ b) = run (run m a) b := by
  unfold run; rw [List.foldl_append]

/-- **run2_eq_run.** -/
theorem run2_eq_run (log : List (LogOp F K)) : ∀ m : Machine F K, okAll m log → run2 m log = run m (flat log) := by
  induction log with
  | nil => intro m _; rfl
  | cons e rest ih =>
    intro m h
    cases e with
    | kg op => exact ih _ h
    | reinit r ops =>
      obtain ⟨h1, h2⟩ := h
      show run2 (exec2 m (.reinit r ops)) rest = run m (ops ++ flat rest)
      rw [run_append']
      show run2 (reinitOp m r (ops.map Inner.kg)).1 rest = _
      rw [reinit_machine m r ops h1]
      exact ih _ h2

theorem vol_run (ops : List (Op F K)) (m : Machine F K) : vol (run m ops) = vol (run (vol m) ops) := by
  obtain ⟨a1, a2, _⟩ := run_split ops m
  obtain ⟨b1, b2, _⟩ := run_split ops (vol m)
  have hr0 : run0 (vol m) ops = run0 m ops := by unfold run0; rfl
  rw [a1, b1, hr0]
  rfl

/-- whether the payloads are answered does not depend on the key rings -/
theorem okAll_vol (log : List (LogOp F K)) : ∀ m : Machine F K, okAll m log ↔ okAll (vol m) log := by
  induction log with
  | nil => intro m; exact Iff.rfl
  | cons e rest ih =>
    intro m
    cases e with
    | kg op =>
      show okAll (exec m op).1 rest ↔ okAll (exec (vol m) op).1 rest
      rw [ih (exec m op).1, ih (exec (vol m) op).1, vol_exec]
      exact Iff.rfl
    | reinit r ops =>
      show (okRun m ops = true ∧ okAll (run m ops) rest) ↔ (okRun (vol m) ops = true ∧ okAll (run (vol m) ops) rest)
      rw [okRun_vol ops m, ih (run m ops), ih (run (vol m) ops), vol_run]

/-- **replay2_is_identity.** -/
theorem replay2_is_identity (m : Machine F K) (hstarted : m.insts = []) (log : List (LogOp F K)) (hok : okAll m log) :
    run2 (stop (run2 m log)) log = run2 m log := by
  have h1 := run2_eq_run log m hok
  have hv : vol (stop (run m (flat log))) = vol m := by
    unfold vol stop
    simp only [Machine.mk.injEq, and_true]
    exact ⟨run_me _ _, hstarted.symm⟩
  have hok2 : okAll (stop (run m (flat log))) log := by
    rw [okAll_vol, hv, ← okAll_vol]; exact hok
  rw [h1, run2_eq_run log _ hok2]
  exact replay_general m hstarted (flat log)

end Dc4bcVerif.Props.C12AirReinit
