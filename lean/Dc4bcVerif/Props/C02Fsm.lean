/-
  C02, state-machine part: what "signing-ready" implies about the announced keys and the retained
  polynomial. (The algebraic part is Props/C02.lean.)
-/
import Dc4bcVerif.Props.C05

namespace Dc4bcVerif.Props.C02
open Dc4bcVerif.Gen Dc4bcVerif.Model

/-- **one group key.** Whenever a round — after ANY sequence of events — is signing-ready (keys
collected, or any state of the signing machine), every participant's status is `MasterKeyConfirmed`
and all `n` announced master keys are equal. -/
theorem signing_ready_keys_agree (id : String) (evs : List (Ev × Arg))
    (h : signFamily (run (Instance.create id) evs).state = true) :
    ∃ dc, (run (Instance.create id) evs).payload.dkg = some dc ∧ (∀ q ∈ dc.quorum, q.status = 10) ∧
      (∀ q ∈ dc.quorum, ∀ q' ∈ dc.quorum, q.masterKey = q'.masterKey) := by
  have hinv := (C05.round_invariant id evs).2
  rw [signFamily_phaseInv _ h] at hinv
  exact hinv

/-- **retained_poly.** In the key-confirmation phase of any reachable round, an accepted announcement
either carries the polynomial already retained (or none was retained yet), or it cancels the round;
and when the announcement completes the phase, the polynomial retained for reconstruction is the
one it carried. Hence at signing-ready the retained polynomial was announced by every participant
from the first non-empty announcement on. -/
theorem retained_poly (id : String) (evs : List (Ev × Arg)) (a : Arg)
    (hst : (run (Instance.create id) evs).state = sMKAwait)
    (hok : (doEvent dkgMachine runAction sMKAwait (run (Instance.create id) evs).payload eMKOk a).res = .ok) :
    ∃ dc, (run (Instance.create id) evs).payload.dkg = some dc ∧
    ∃ pid key ts poly, a = .masterKey pid key ts poly ∧
      (let out := doEvent dkgMachine runAction sMKAwait (run (Instance.create id) evs).payload eMKOk a
       (dc.pubPolyBz ≠ [] ∧ dc.pubPolyBz ≠ poly ∧ out.state = sMKCancErr) ∨
       ((dc.pubPolyBz = [] ∨ dc.pubPolyBz = poly) ∧
         (out.state = sMKCancTo ∨ out.state = sMKCancErr ∨
          (∃ dc', out.payload.dkg = some dc' ∧ dc'.pubPolyBz = poly ∧ (out.state = sMKCollected ∨ out.state = sMKAwait))))) := by
  have hinv := (C05.round_invariant id evs).2
  rw [hst] at hinv
  obtain ⟨dc, hc⟩ := hinv
  refine ⟨dc, hc.hdkg, ?_⟩
  obtain ⟨pid, key, ts, poly, part, ha, _, _, hcase⟩ := mk_received_outcome _ a dc hc hok
  refine ⟨pid, key, ts, poly, ha, ?_⟩
  rcases hcase with h1 | ⟨hp, hcase⟩
  · exact Or.inl h1
  · refine Or.inr ⟨hp, ?_⟩
    rcases hcase with ⟨_, h⟩ | ⟨_, _, h⟩ | ⟨_, _, hcase⟩
    · exact Or.inl h
    · exact Or.inr (Or.inl h)
    · rcases hcase with ⟨_, hs, dc', hd', hpoly, _⟩ | ⟨_, hs, dc', hinv', hpoly, _⟩
      · exact Or.inr (Or.inr ⟨dc', hd', hpoly, Or.inl hs⟩)
      · exact Or.inr (Or.inr ⟨dc', hinv'.hdkg, hpoly, Or.inr hs⟩)

end Dc4bcVerif.Props.C02
