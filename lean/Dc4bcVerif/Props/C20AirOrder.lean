/-
  C20, the airgapped side, continued: Go's map order in the deals step (`dkg.ProcessDeals` ranges over the stored deals) need not be
  the same in the original ceremony and in the re-initialisation.

  * `exec_sim`  - two operations that differ only in the range order of a responses step (a permutation), the first answered with a
                  result: the second is answered with a result too and leaves the same machine (`C12AirOrder.responses_order_irrelevant`);
  * `run_sim`   - the same along a whole run all of whose steps are answered with results;
  * `reinit_reproduces_share_any_deal_order` - `C20Air.reinit_reproduces_share` for a payload whose responses steps range in ANY order.
  The master-key step's range (`ProcessResponses` over `indexToData`) is not treated: its order is the same in both runs here. Core-only.
-/
import Dc4bcVerif.Props.C20Air
import Dc4bcVerif.Props.C12AirOrder
import Dc4bcVerif.Props.C20AirMasterKey

namespace Dc4bcVerif.Props.C20AirOrder
set_option linter.unusedSectionVars false
open Dc4bcVerif.Model.Shamir Dc4bcVerif.Model.AirDkg Dc4bcVerif.Lemmas.AirDkgInv Dc4bcVerif.Props.C12Air Dc4bcVerif.Props.C20Air Dc4bcVerif.Props.C20AirMasterKey

variable {F : Type} [Add F] [Mul F] [Sub F] [Div F] [Zero F] [One F] [DecidableEq F] [NatCast F]
variable {K : Type} [DecidableEq K]

/-- the same operation, up to the order in which a responses step ranges over the stored deals -/
inductive OpSim : Op F K → Op F K → Prop where
  | refl (o : Op F K) : OpSim o o
  | resp (r : String) (e : List (Int × String × Option (OuterDeal F))) {o1 o2 : List String} (h : o1.Perm o2) :
      OpSim (.responses r e o1) (.responses r e o2)

theorem OpSim.round {a b : Op F K} (h : OpSim a b) : b.round? = a.round? := by
  cases h <;> rfl

inductive SimList : List (Op F K) → List (Op F K) → Prop where
  | nil : SimList [] []
  | cons {a b : Op F K} {l l' : List (Op F K)} : OpSim a b → SimList l l' → SimList (a :: l) (b :: l')

theorem sim_rounds {ops ops' : List (Op F K)} (hs : SimList ops ops') (h : ∀ op ∈ ops, op.round?.isSome = true) :
    ∀ op ∈ ops', op.round?.isSome = true := by
  induction hs with
  | nil => intro op hop; cases hop
  | cons hab _ ih =>
    intro op hop
    rcases List.mem_cons.mp hop with rfl | hin
    · rw [hab.round]; exact h _ List.mem_cons_self
    · exact ih (fun o ho => h o (List.mem_cons_of_mem _ ho)) op hin

/-- the responses step is refused or answered with its responses -/
theorem responsesOp_cases (m : Machine F K) (r : String) (e : List (Int × String × Option (OuterDeal F))) (o : List String) :
    (responsesOp m r e o).2 = Res.err ∨ ∃ pid ds, (responsesOp m r e o).2 = Res.responses pid ds := by
  unfold responsesOp
  split
  · exact Or.inl rfl
  · rename_i i hi
    generalize storeDeals i e = q
    obtain ⟨i1, ok⟩ := q
    simp only
    split
    · exact Or.inl rfl
    · generalize processDeals i1 o [] = q2
      obtain ⟨i2, res⟩ := q2
      cases res with
      | none => exact Or.inl rfl
      | some ds => exact Or.inr ⟨_, _, rfl⟩

/-- **exec_sim.** -/
theorem exec_sim (m : Machine F K) {a b : Op F K} (h : OpSim a b) (hok : (exec m a).2 ≠ Res.err) :
    (exec m b).1 = (exec m a).1 ∧ (exec m b).2 ≠ Res.err := by
  cases h with
  | refl o => exact ⟨rfl, hok⟩
  | resp r e hp =>
    rename_i o1 o2
    simp only [exec] at hok ⊢
    rcases responsesOp_cases m r e o1 with he | ⟨pid, ds, hr⟩
    · exact absurd he hok
    · have hfull : responsesOp m r e o1 = ((responsesOp m r e o1).1, Res.responses pid ds) := by
        rw [← hr]
      obtain ⟨ds', h2, _⟩ := Dc4bcVerif.Props.C12AirOrder.responses_order_irrelevant m r e hp _ pid ds hfull
      rw [h2]
      exact ⟨rfl, by simp⟩

/-- every step of the run is answered with a result (none refused) -/
def allOk (m : Machine F K) : List (Op F K) → Prop
  | [] => True
  | op :: rest => (exec m op).2 ≠ Res.err ∧ allOk (exec m op).1 rest

/-- **run_sim.** -/
theorem run_sim (ops ops' : List (Op F K)) (hs : SimList ops ops') : ∀ m : Machine F K, allOk m ops →
    run m ops' = run m ops ∧ allOk m ops' := by
  induction hs with
  | nil => intro m _; exact ⟨rfl, trivial⟩
  | cons hab _ ih =>
    intro m hall
    obtain ⟨h1, h2⟩ := hall
    obtain ⟨e1, e2⟩ := exec_sim m hab h1
    obtain ⟨r1, r2⟩ := ih _ h2
    refine ⟨?_, ?_⟩
    · show run (exec m _).1 _ = run (exec m _).1 _
      rw [e1]; exact r1
    · exact ⟨e2, by rw [e1]; exact r2⟩

/-- a run answered with results throughout, by operations that name rounds, is answered throughout in the sense of `okRun` -/
theorem okRun_of_allOk (ops : List (Op F K)) : ∀ m : Machine F K, allOk m ops → (∀ op ∈ ops, op.round?.isSome = true) →
    okRun m ops = true := by
  induction ops with
  | nil => intro m _ _; rfl
  | cons op rest ih =>
    intro m hall hr
    obtain ⟨h1, h2⟩ := hall
    have hrest := ih (exec m op).1 h2 (fun o ho => hr o (List.mem_cons_of_mem _ ho))
    have hop := hr op List.mem_cons_self
    unfold okRun
    cases hro : op.round? with
    | none => rw [hro] at hop; simp at hop
    | some round =>
      simp only
      rw [hrest, Bool.and_true]
      have : outcome (exec m op).1 round (exec m op).2 = Outcome.result (exec m op).2 := by
        unfold outcome
        cases hres : (exec m op).2 <;> first | rfl | exact absurd hres h1
      rw [this]

/-- **reinit_reproduces_share_any_deal_order.** -/
theorem reinit_reproduces_share_any_deal_order (me : K) (ops ops' : List (Op F K)) (R : String) (kr : Keyring F)
    (hall : allOk (fresh me : Machine F K) ops) (hrounds : ∀ op ∈ ops, op.round?.isSome = true)
    (hs : SimList ops ops')
    (hring : lookup R (run (fresh me : Machine F K) ops).rings = some kr)
    (m' : Machine F K) (hme : m'.me = me) (hstarted : m'.insts = []) :
    (reinitOp m' R (ops'.map Inner.kg)).2 = ReinitRes.processed kr.pubPoly ∧
    lookup R (reinitOp m' R (ops'.map Inner.kg)).1.rings = some kr ∧
    (reinitOp m' R (ops'.map Inner.kg)).1.insts = (run (fresh me : Machine F K) ops).insts := by
  obtain ⟨hrun, hall'⟩ := run_sim ops ops' hs (fresh me) hall
  have hrounds' : ∀ op ∈ ops', op.round?.isSome = true := sim_rounds hs hrounds
  have hok' := okRun_of_allOk ops' (fresh me) hall' hrounds'
  have hring' : lookup R (run (fresh me : Machine F K) ops').rings = some kr := by rw [hrun]; exact hring
  have := reinit_reproduces_share me ops' R kr hok' hring' m' hme hstarted
  rw [hrun] at this
  exact this


/-! ### the master-key step's range order as well -/

theorem allOk_vol (ops : List (Op F K)) : ∀ m : Machine F K, allOk m ops ↔ allOk (vol m) ops := by
  induction ops with
  | nil => intro m; exact Iff.rfl
  | cons op rest ih =>
    intro m
    obtain ⟨_, h2, _⟩ := exec_split m op
    have e1 : allOk (exec m op).1 rest ↔ allOk (step0 m op) rest := by rw [ih, vol_exec]
    have e2 : allOk (exec (vol m) op).1 rest ↔ allOk (step0 m op) rest := by rw [ih]; exact Iff.rfl
    unfold allOk
    rw [h2, e1, e2]

theorem allOk_append (a b : List (Op F K)) : ∀ m : Machine F K, allOk m (a ++ b) ↔ allOk m a ∧ allOk (run m a) b := by
  induction a with
  | nil => intro m; simp [allOk, run]
  | cons op rest ih =>
    intro m
    simp only [List.cons_append, allOk]
    rw [ih]
    exact ⟨fun ⟨x, y, z⟩ => ⟨⟨x, y⟩, z⟩, fun ⟨⟨x, y⟩, z⟩ => ⟨x, y, z⟩⟩

theorem run_append (a b : List (Op F K)) (m : Machine F K) : run m (a ++ b) = run (run m a) b := by
  unfold run; rw [List.foldl_append]

/-- **reinit_reproduces_share_any_order.** The ceremony: the operations `pre`, then the master-key step, all answered with results
by the original machine, which ends with the key ring `kr`. The re-initialisation: the same operations with the deals steps ranging
in ANY order (`SimList`), then the master-key step ranging in ANY order `o2`; if the re-initialised machine answers that step with an
announcement at all, it answers the re-initialisation with the original public polynomial and holds the original key ring. -/
theorem reinit_reproduces_share_any_order (me : K) (pre pre' : List (Op F K)) (R : String)
    (e : List (String × Option (List (RespMsg F)))) (o1 o2 : List Nat) (kr : Keyring F)
    (hall : allOk (fresh me : Machine F K) pre) (hrounds : ∀ op ∈ pre, op.round?.isSome = true)
    (hs : SimList pre pre')
    (horig : ∃ pid k p, (exec (run (fresh me : Machine F K) pre) (.masterKey R e o1)).2 = Res.masterKey pid k p)
    (hring : lookup R (exec (run (fresh me : Machine F K) pre) (.masterKey R e o1)).1.rings = some kr)
    (m' : Machine F K) (hme : m'.me = me) (hstarted : m'.insts = [])
    (hansw : ∃ pid k p, (exec (run m' pre') (.masterKey R e o2)).2 = Res.masterKey pid k p) :
    (reinitOp m' R ((pre' ++ [Op.masterKey R e o2]).map Inner.kg)).2 = ReinitRes.processed kr.pubPoly ∧
    lookup R (reinitOp m' R ((pre' ++ [Op.masterKey R e o2]).map Inner.kg)).1.rings = some kr := by
  have hv := vol_of_started m' me hme hstarted
  have hall' : allOk m' pre := by rw [allOk_vol, hv, ← allOk_vol]; exact hall
  obtain ⟨hrun, hallp⟩ := run_sim pre pre' hs m' hall'
  -- the instances before the master-key step are the original ones
  obtain ⟨a1, _, _⟩ := run_split pre (fresh me : Machine F K)
  obtain ⟨b1, _, _⟩ := run_split pre m'
  have hr0 : run0 m' pre = run0 (fresh me : Machine F K) pre := by unfold run0; rw [hv]
  have hinsts : (run m' pre').insts = (run (fresh me : Machine F K) pre).insts := by rw [hrun, b1, a1, hr0]
  -- the payload is answered throughout
  obtain ⟨pid2, k2, p2, hres2⟩ := hansw
  have hlast : allOk (run m' pre') [Op.masterKey R e o2] := ⟨by rw [hres2]; simp, trivial⟩
  have hallw : allOk m' (pre' ++ [Op.masterKey R e o2]) := (allOk_append _ _ m').mpr ⟨hallp, hlast⟩
  have hroundsw : ∀ op ∈ pre' ++ [Op.masterKey R e o2], op.round?.isSome = true := by
    intro op hop
    rcases List.mem_append.mp hop with h | h
    · exact sim_rounds hs hrounds op h
    · simp only [List.mem_singleton] at h; subst h; rfl
  have hok := okRun_of_allOk _ m' hallw hroundsw
  have hloop := loop_eq_run _ m' hok
  -- what the two master-key steps store
  obtain ⟨pid1, k1, p1, hres1⟩ := horig
  have h1 : masterKeyOp (run (fresh me : Machine F K) pre) R e o1 =
      ((exec (run (fresh me : Machine F K) pre) (.masterKey R e o1)).1, Res.masterKey pid1 k1 p1) := by
    rw [← hres1]; rfl
  have h2 : masterKeyOp (run m' pre') R e o2 = ((exec (run m' pre') (.masterKey R e o2)).1, Res.masterKey pid2 k2 p2) := by
    rw [← hres2]; rfl
  obtain ⟨i1, kr1, c1, c2, _, _, _, c6⟩ := masterKeyOp_answer _ R e o1 _ pid1 k1 p1 h1
  obtain ⟨i2, kr2, d1, d2, _, _, _, d6⟩ := masterKeyOp_answer _ R e o2 _ pid2 k2 p2 h2
  rw [hinsts, c1] at d1; cases d1
  rw [c2] at d2; cases d2
  rw [hring] at c6; cases c6
  have hfinal : lookup R (run m' (pre' ++ [Op.masterKey R e o2])).rings = some kr := by
    rw [run_append]; exact d6
  unfold reinitOp
  rw [hloop]
  simp only [hfinal, and_self]

/-- non-vacuity: the two-party round of `Model/AirDkg.lean` is answered with results throughout -/
example : allOk ({ me := 1 } : Machine Int Nat) exAll := by
  refine ⟨by decide, by decide, by decide, by decide, trivial⟩

end Dc4bcVerif.Props.C20AirOrder
