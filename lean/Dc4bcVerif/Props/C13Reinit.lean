/-
  C13 on the re-initialisation path — the finding `C13-kill-inside-reinit`, stated on the model.

  `reinitDKG` stores the round after every replayed message and registers the `reinit_dkg` operation (and the new
  communication keys) only at the end; its first step is "nothing to do if the round exists". So when the process is
  killed anywhere after the first replayed message was stored, the restarted node — which reads the reinit message
  again, its offset not having been saved — finds the round, returns at once, and the poll loop moves on:
  the operation is never registered, the new keys are never written (`interrupted_reinit_is_abandoned`).
  The crash theorems of `Props/C13*.lean` are about ordinary messages; this is why they do not extend to `reinit_dkg`.
  reinitdiff kills a real node before every durable effect of the handler and reproduces exactly this.
-/
import Dc4bcVerif.Props.C20Node

namespace Dc4bcVerif.Props.C13Reinit
open Dc4bcVerif.Gen Dc4bcVerif.Model Dc4bcVerif.Model.Node Dc4bcVerif.Props

/-- what is on disk when the process is killed after `pre`, a prefix of the messages the handler replays -/
def afterPrefix (st : NodeSt) (_req : ReinitReq) (now : Time) (payloadOf : Tasks.Msg → Bytes) (pre : List InnerMsg) : NodeSt :=
  (pre.foldl (reinitStep st.skipVerify now payloadOf) (st, [])).1

/-- **interrupted_reinit_is_abandoned.** If the round is stored when the process dies (any kill after the first replayed
message that was accepted), the restarted node's handling of the same reinit message does nothing at all — at any later
clock reading: no operation is registered, no key is written, and it reports success, so the offset moves past the message. -/
theorem interrupted_reinit_is_abandoned (st : NodeSt) (req : ReinitReq) (now now' : Time) (payloadOf : Tasks.Msg → Bytes)
    (pre : List InnerMsg) (hb : blankId req.dkgId = false)
    (hstored : (lookupS (afterPrefix st req now payloadOf pre).rounds req.dkgId).isSome = true) :
    (reinitDKG (afterPrefix st req now payloadOf pre) req now' payloadOf).st = afterPrefix st req now payloadOf pre ∧
    (reinitDKG (afterPrefix st req now payloadOf pre) req now' payloadOf).out = .ok :=
  C20Node.reinit_existing_round_noop _ req now' payloadOf hb hstored

end Dc4bcVerif.Props.C13Reinit
