/-
  C04 — secrets stay inside the airgapped machine and are never reused across rounds.

  What a theorem can say here, and what it cannot:
  * `secrecy` (symbolic): if a secret atom occurs in the exported terms only under one-way exponentiation, as a
    signing key, or inside ciphertexts for participants that are not corrupted, then NO sequence of attacker
    operations (projections, decryption with corrupted keys, reading signed messages, building new terms) derives
    it. `exported_guarded`: the terms an honest machine exports (model `Sym.exported`, read off the handlers) are of
    that form for its long-term key, seed, polynomial coefficients and final share, for every n, t, number of signed
    messages and every set of corrupted participants not containing it; `machine_secrets_safe` puts the two together.
    A deal for participant j opens for j only: `deal_share_needs_addressee`.
  * `rounds_share_dealer_secret`: KNOWN FINDING, not fixed. The dealer polynomial is drawn from a reader seeded with the
    base seed alone, so on the same machine it is the same in every round (the per-round suite seed does not enter it).
  What no theorem here says: that ECIES, scrypt+AES-GCM, Schnorr and BLS are as strong as the symbolic model assumes;
  that the Go code exports exactly the modelled terms (checked by secretdiff: every result file, every board message
  and every database file of real ceremonies is searched for every secret in ten encodings, nested JSON/base64
  included; every (deal, non-addressee key) pair is tried; wrong passwords are tried after a correct unlock in the
  same process); anything about memory or side channels.
-/
import Dc4bcVerif.Model.Sym

namespace Dc4bcVerif.Props.C04
open Dc4bcVerif.Model.Sym

variable {S P : Type} [DecidableEq S]

/-- **secrecy.** Guardedness of the exported terms is preserved by everything the attacker can do. -/
theorem secrecy (C : Nat → Prop) (K : Term S P → Prop) (s : S) (hK : ∀ t, K t → guarded C s t) :
    ∀ t, Derivable C K t → guarded C s t := by
  intro t hd
  induction hd with
  | known h => exact hK _ h
  | fst _ ih => exact ih.1
  | snd _ ih => exact ih.2
  | dec _ hc ih =>
    rcases ih with h | h
    · exact absurd hc h
    · exact h
  | sigMsg _ ih => exact ih
  | mkPair _ _ iha ihb => exact ⟨iha, ihb⟩
  | mkExp _ _ => trivial
  | mkEnc _ ih => exact Or.inr ih
  | mkSig _ _ _ ihm => exact ihm
  | pubData => trivial

/-- a guarded secret is never derived -/
theorem secret_not_derivable (C : Nat → Prop) (K : Term S P → Prop) (s : S) (hK : ∀ t, K t → guarded C s t) :
    ¬ Derivable C K (.sec s) := by
  intro h
  exact (secrecy C K s hK _ h) rfl

-- ───────────── the exported terms of a machine ─────────────

/-- the secrets of machine `i` the property names -/
def ownSecret (i : Nat) : Atom → Prop
  | .longTermKey j => j = i
  | .seed j => j = i
  | .coefficient j _ => j = i
  | .finalShare j => j = i
  | .dealShare _ _ => False

theorem foldr_pair_guarded (C : Nat → Prop) (s : Atom) (l : List T) (h : ∀ c ∈ l, guarded C s c) :
    guarded C s (l.foldr (fun c acc => Term.pair c acc) (.pub (.text 0))) := by
  induction l with
  | nil => trivial
  | cons x t ih =>
    exact ⟨h x (List.mem_cons_self ..), ih (fun c hc => h c (List.mem_cons_of_mem _ hc))⟩

/-- **exported_guarded.** Every term an honest machine exports is guarded for each of its own secrets, whoever is
corrupted. (Its deal for a corrupted addressee exposes that addressee's evaluation of the polynomial — as the
protocol intends — and nothing else.) -/
theorem exported_guarded (C : Nat → Prop) (i n t nmsgs : Nat) (s : Atom) (hs : ownSecret i s) :
    ∀ x ∈ exported i n t nmsgs, guarded C s x := by
  intro x hx
  unfold exported at hx
  simp only [List.mem_append, List.mem_map, List.mem_filter, List.mem_range, List.mem_cons,
    List.not_mem_nil, or_false] at hx
  have hcommit : ∀ c ∈ (List.range t).map (fun k => (Term.exp (.sec (Atom.coefficient i k)) : T)), guarded C s c := by
    intro c hc
    simp only [List.mem_map] at hc
    obtain ⟨k, _, rfl⟩ := hc
    trivial
  rcases hx with ((((hx | hx) | hx) | hx) | hx) | hx
  · subst hx; trivial
  · obtain ⟨k, _, rfl⟩ := hx; trivial
  · obtain ⟨j, _, rfl⟩ := hx
    right
    refine ⟨?_, foldr_pair_guarded C s _ hcommit⟩
    intro he
    rw [← he] at hs
    exact hs
  · obtain ⟨j, _, rfl⟩ := hx; trivial
  · rcases hx with rfl | rfl <;> trivial
  · obtain ⟨m, _, rfl⟩ := hx; trivial

/-- **machine_secrets_safe.** From everything machine `i` ever exports, with the decryption keys of any set of
corrupted participants, none of `i`'s long-term key, seed, polynomial coefficients or final share can be derived. -/
theorem machine_secrets_safe (C : Nat → Prop) (i n t nmsgs : Nat) (s : Atom) (hs : ownSecret i s) :
    ¬ Derivable C (fun x => x ∈ exported i n t nmsgs) (.sec s) :=
  secret_not_derivable C _ s (exported_guarded C i n t nmsgs s hs)

/-- **deal_share_needs_addressee.** The evaluation dealer `i` sends to `j` is derivable only if `j` is corrupted:
a deal opens with its addressee's key only. -/
theorem deal_share_needs_addressee (C : Nat → Prop) (i j n t nmsgs : Nat) (hj : ¬ C j) :
    ¬ Derivable C (fun x => x ∈ exported i n t nmsgs) (.sec (.dealShare i j)) := by
  apply secret_not_derivable
  intro x hx
  unfold exported at hx
  simp only [List.mem_append, List.mem_map, List.mem_filter, List.mem_range, List.mem_cons,
    List.not_mem_nil, or_false] at hx
  have hcommit : ∀ c ∈ (List.range t).map (fun k => (Term.exp (.sec (Atom.coefficient i k)) : T)), guarded C (.dealShare i j) c := by
    intro c hc
    simp only [List.mem_map] at hc
    obtain ⟨k, _, rfl⟩ := hc
    trivial
  rcases hx with ((((hx | hx) | hx) | hx) | hx) | hx
  · subst hx; trivial
  · obtain ⟨k, _, rfl⟩ := hx; trivial
  · obtain ⟨j', _, rfl⟩ := hx
    by_cases hjj : j' = j
    · subst hjj; exact Or.inl hj
    · right
      refine ⟨?_, foldr_pair_guarded C _ _ hcommit⟩
      intro he
      simp only [Atom.dealShare.injEq] at he
      exact hjj he.2
  · obtain ⟨j', _, rfl⟩ := hx; trivial
  · rcases hx with rfl | rfl <;> trivial
  · obtain ⟨m, _, rfl⟩ := hx; trivial

/-- non-vacuity: the model is not trivially safe — a corrupted addressee does obtain its evaluation -/
example : Derivable (fun j => j = 1) (fun x => x ∈ exported 0 3 2 1) (.sec (.dealShare 0 1) : T) := by
  have hmem : (Term.enc 1 (.pair (.sec (.dealShare 0 1)) ((((List.range 2).map (fun k => (Term.exp (.sec (Atom.coefficient 0 k)) : T)))).foldr (fun c acc => Term.pair c acc) (.pub (.text 0)))) : T) ∈ exported 0 3 2 1 := by
    decide
  exact Derivable.fst (Derivable.dec (Derivable.known hmem) rfl)

-- ───────────── rounds on the same machine ─────────────

/-- how a machine picks its dealer polynomial: a deterministic stream `prg` of a seed. In the code the per-round
suite is seeded with `sha256(round ‖ baseSeed)` but the dealer polynomial is read from `frand.NewCustom(baseSeed)`. -/
def dealerSecretImpl {Seed Round Poly : Type} (prg : Seed → Poly) (baseSeed : Seed) (_round : Round) : Poly := prg baseSeed

def dealerSecretIntended {Seed Round Poly : Type} (prg : Seed → Poly) (mix : Round → Seed → Seed) (baseSeed : Seed) (round : Round) : Poly :=
  prg (mix round baseSeed)

/-- **rounds_share_dealer_secret** (KNOWN FINDING C04-rounds-share-dealer-polynomial). As implemented, the dealer
polynomial does not depend on the round at all. -/
theorem rounds_share_dealer_secret {Seed Round Poly : Type} (prg : Seed → Poly) (baseSeed : Seed) (r1 r2 : Round) :
    dealerSecretImpl prg baseSeed r1 = dealerSecretImpl prg baseSeed r2 := rfl

end Dc4bcVerif.Props.C04
