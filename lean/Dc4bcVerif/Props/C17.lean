/-
  C17 — baked withdrawal-credential messages equal the consensus-spec signing roots.
-/
import Dc4bcVerif.Model.Ssz
import Dc4bcVerif.Lemmas.SszLemmas
import Dc4bcVerif.Lemmas.BakedLemmas
import Dc4bcVerif.Gen.Baked

namespace Dc4bcVerif.Props.C17
open Dc4bcVerif.Gen.Ssz Dc4bcVerif.Model.Ssz

-- ───────────── the specification, written from the Ethereum consensus specs ─────────────

def hexNibble (c : Char) : Nat :=
  if '0' ≤ c ∧ c ≤ '9' then c.toNat - 48 else if 'a' ≤ c ∧ c ≤ 'f' then c.toNat - 87 else 0

def hexBytesAux : List Char → Bytes
  | a :: b :: t => UInt8.ofNat (hexNibble a * 16 + hexNibble b) :: hexBytesAux t
  | _ => []

def hexBytes (s : String) : Bytes := hexBytesAux s.toList

/-- capella/beacon-chain.md: DOMAIN_BLS_TO_EXECUTION_CHANGE = DomainType('0x0A000000') -/
def DOMAIN_BLS_TO_EXECUTION_CHANGE : Bytes := hexBytes "0a000000"
/-- mainnet config: GENESIS_FORK_VERSION = 0x00000000 -/
def GENESIS_FORK_VERSION : Bytes := hexBytes "00000000"
/-- mainnet genesis_validators_root -/
def GENESIS_VALIDATORS_ROOT : Bytes := hexBytes "4b363db94e286120d76eb905340fdd4e54bfe9f06bf33ff6cf5ad27f511bfe95"
/-- Lido withdrawal BLS public key (blog.lido.fi/lido-withdrawal-key-ceremony) -/
def LIDO_WITHDRAWAL_BLS_PUBKEY : Bytes :=
  hexBytes "b67aca71f04b673037b54009b760f1961f3836e5714141c892afdb75ec0834dce6784d9c72ed8ad7db328cff8fe9f13e"
/-- Lido execution-layer withdrawal vault address -/
def LIDO_EXECUTION_ADDRESS : Bytes := hexBytes "b9d7934878b5fb9610b3fe8a5e441e8fad7e293f"

/-- `compute_fork_data_root(current_version, genesis_validators_root) = hash_tree_root(ForkData(…))` -/
def computeForkDataRoot (hash : HashFn) (version root : Bytes) : Bytes :=
  htrContainer hash [.bytesN version, .bytesN root]

/-- `compute_domain(domain_type, fork_version, genesis_validators_root) = domain_type + fork_data_root[:28]` -/
def computeDomain (hash : HashFn) (domainType version root : Bytes) : Bytes :=
  domainType ++ (computeForkDataRoot hash version root).take 28

/-- `compute_signing_root(obj, domain) = hash_tree_root(SigningData(hash_tree_root(obj), domain))` -/
def computeSigningRoot (hash : HashFn) (objRoot domain : Bytes) : Bytes :=
  htrContainer hash [.bytesN objRoot, .bytesN domain]

/-- `BLSToExecutionChange(validator_index: ValidatorIndex, from_bls_pubkey: BLSPubkey, to_execution_address: ExecutionAddress)` -/
def blsToExecutionChangeRoot (hash : HashFn) (idx : UInt64) (pubkey addr : Bytes) : Bytes :=
  htrContainer hash [.uint64 idx, .bytesN pubkey, .bytesN addr]

def specSigningRoot (hash : HashFn) (idx : UInt64) : Bytes :=
  computeSigningRoot hash (blsToExecutionChangeRoot hash idx LIDO_WITHDRAWAL_BLS_PUBKEY LIDO_EXECUTION_ADDRESS)
    (computeDomain hash DOMAIN_BLS_TO_EXECUTION_CHANGE GENESIS_FORK_VERSION GENESIS_VALIDATORS_ROOT)

-- ───────────── constants ─────────────

/-- **constants_ok**: the five constants of rotation.go (regenerated from the source on every run)
are the specification's -/
theorem constants_ok :
    bytesOfNats domainBlsToExecutionChange = DOMAIN_BLS_TO_EXECUTION_CHANGE ∧
    bytesOfNats genesisForkVersion = GENESIS_FORK_VERSION ∧
    bytesOfNats genesisValidatorRoot = GENESIS_VALIDATORS_ROOT ∧
    bytesOfNats lidoBlsPubKeyBB = LIDO_WITHDRAWAL_BLS_PUBKEY ∧
    bytesOfNats toExecutionAddress = LIDO_EXECUTION_ADDRESS := by decide

-- ───────────── the code computes the specification ─────────────

/-- `ForkData.HashTreeRootWith` (generated op list) on 4 + 32 bytes is the spec's `hash_tree_root(ForkData)` -/
theorem forkData_ok (hash : HashFn) (v r : Bytes) (hv : v.length = 4) (hr : r.length = 32) :
    codeForkDataRoot hash [some v, some r] = some (computeForkDataRoot hash v r) := by
  have hv0 : v ≠ [] := by intro h; simp [h] at hv
  have hr0 : r ≠ [] := by intro h; simp [h] at hr
  simp [codeForkDataRoot, runOps, forkDataOps, runOpsAux, assoc, forkDataFields, bindParams, computeForkDataRootParams, hv, hr,
    chunksOf_short v hv0 (by omega), chunksOf_short r hr0 (by omega), computeForkDataRoot, htrContainer, htr, merkleize_one]

/-- `SigningData.HashTreeRootWith` on two 32-byte roots is the spec's `hash_tree_root(SigningData)` -/
theorem signingData_ok (hash : HashFn) (o d : Bytes) (ho : o.length = 32) (hd : d.length = 32) :
    runOps hash signingDataOps (fun field => (assoc signingDataFields field).bind
      (fun e => if e == "objRoot" then some (SszVal.bytesN o) else if e == "domain" then some (SszVal.bytesN d) else none))
    = some (computeSigningRoot hash o d) := by
  have ho0 : o ≠ [] := by intro h; simp [h] at ho
  have hd0 : d ≠ [] := by intro h; simp [h] at hd
  simp [runOps, signingDataOps, runOpsAux, assoc, signingDataFields, ho, hd,
    chunksOf_short o ho0 (by omega), chunksOf_short d hd0 (by omega), computeSigningRoot, htrContainer, htr, merkleize_one]

/-- `BLSToExecutionChange.HashTreeRootWith` on (uint64, 48 bytes, 20 bytes) is the spec's `hash_tree_root` -/
theorem blsChange_ok (hash : HashFn) (idx : UInt64) (pk addr : Bytes) (hpk : pk.length = 48) (haddr : addr.length = 20) :
    runOps hash bLSToExecutionChangeOps (fun field => (assoc messageFields field).bind
      (fun e => if e == "validatorIndex" then some (SszVal.uint64 idx)
                else if e == "LidoBlsPubKeyBB" then some (SszVal.bytesN pk)
                else if e == "ToExecutionAddress" then some (SszVal.bytesN addr) else none))
    = some (blsToExecutionChangeRoot hash idx pk addr) := by
  have ha0 : addr ≠ [] := by intro h; simp [h] at haddr
  simp [runOps, bLSToExecutionChangeOps, runOpsAux, assoc, messageFields, hpk, haddr,
    chunksOf_short (le64 idx) (le64_ne_nil idx) (by rw [le64_length]; omega),
    chunksOf_short addr ha0 (by omega), blsToExecutionChangeRoot, htrContainer, htr, merkleize_one]

theorem merkleize_two_length (hash : HashFn) (hlen : ∀ x, (hash x).length = 32) (a b : Bytes) :
    (merkleize hash [a, b]).length = 32 := by rw [merkleize_two]; exact hlen _

theorem merkleize_three_length (hash : HashFn) (hlen : ∀ x, (hash x).length = 32) (a b c : Bytes) :
    (merkleize hash [a, b, c]).length = 32 := by rw [merkleize_three]; exact hlen _

/-- **code_eq_spec.** For every 64-bit validator index and every hash function with 32-byte
output, `GetSigningRoot` as wired in rotation.go over the fastssz-generated hashers computes
`compute_signing_root(BLSToExecutionChange(index, Lido key, Lido address),
compute_domain(DOMAIN_BLS_TO_EXECUTION_CHANGE, GENESIS_FORK_VERSION, genesis_validators_root))`. -/
theorem code_eq_spec (hash : HashFn) (hlen : ∀ x, (hash x).length = 32) (idx : UInt64) :
    codeSigningRoot hash idx = some (specSigningRoot hash idx) := by
  obtain ⟨hc1, hc2, hc3, hc4, hc5⟩ := constants_ok
  have hfd := forkData_ok hash GENESIS_FORK_VERSION GENESIS_VALIDATORS_ROOT (by decide) (by decide)
  have hfdlen : (computeForkDataRoot hash GENESIS_FORK_VERSION GENESIS_VALIDATORS_ROOT).length = 32 := by
    unfold computeForkDataRoot htrContainer
    exact merkleize_two_length hash hlen _ _
  have hdomlen : (computeDomain hash DOMAIN_BLS_TO_EXECUTION_CHANGE GENESIS_FORK_VERSION GENESIS_VALIDATORS_ROOT).length = 32 := by
    unfold computeDomain
    have : DOMAIN_BLS_TO_EXECUTION_CHANGE.length = 4 := by decide
    simp [this, hfdlen]
  have hdom : codeDomain hash (computeDomainArgs.map globalVal) =
      some (computeDomain hash DOMAIN_BLS_TO_EXECUTION_CHANGE GENESIS_FORK_VERSION GENESIS_VALIDATORS_ROOT) := by
    unfold codeDomain
    have hargs : computeForkDataRootArgs.map (bindParams computeDomainParams (computeDomainArgs.map globalVal))
        = [some GENESIS_FORK_VERSION, some GENESIS_VALIDATORS_ROOT] := by
      simp [computeForkDataRootArgs, bindParams, computeDomainParams, computeDomainArgs, globalVal, hc2, hc3]
    simp only [hargs, hfd]
    have h1 : bindParams computeDomainParams (computeDomainArgs.map globalVal) "domainType" = some DOMAIN_BLS_TO_EXECUTION_CHANGE := by
      simp [bindParams, computeDomainParams, computeDomainArgs, globalVal, hc1]
    simp [domainAppend, h1]
    have htl : (DOMAIN_BLS_TO_EXECUTION_CHANGE ++ List.take 28 (computeForkDataRoot hash GENESIS_FORK_VERSION GENESIS_VALIDATORS_ROOT)).length = 32 := hdomlen
    rw [List.take_of_length_le (by omega), padTo32_full _ htl]
    rfl
  have hobjlen : (blsToExecutionChangeRoot hash idx LIDO_WITHDRAWAL_BLS_PUBKEY LIDO_EXECUTION_ADDRESS).length = 32 := by
    unfold blsToExecutionChangeRoot htrContainer
    exact merkleize_three_length hash hlen _ _ _
  unfold codeSigningRoot
  simp only [hdom]
  have hmsg : (fun field => (assoc messageFields field).bind
        (fun e => if e == "validatorIndex" then some (SszVal.uint64 idx) else (globalVal e).map SszVal.bytesN))
      = (fun field => (assoc messageFields field).bind
        (fun e => if e == "validatorIndex" then some (SszVal.uint64 idx)
                  else if e == "LidoBlsPubKeyBB" then some (SszVal.bytesN LIDO_WITHDRAWAL_BLS_PUBKEY)
                  else if e == "ToExecutionAddress" then some (SszVal.bytesN LIDO_EXECUTION_ADDRESS) else none)) := by
    funext field
    simp only [assoc, messageFields]
    by_cases h1 : field = "ValidatorIndex"
    · simp [h1]
    · by_cases h2 : field = "FromBlsPubkey"
      · simp [h2, globalVal, hc4]
      · by_cases h3 : field = "ToExecutionAddress"
        · simp [h3, globalVal, hc5]
        · have e1 : ("ValidatorIndex" == field) = false := beq_false_of_ne (Ne.symm h1)
          have e2 : ("FromBlsPubkey" == field) = false := beq_false_of_ne (Ne.symm h2)
          have e3 : ("ToExecutionAddress" == field) = false := beq_false_of_ne (Ne.symm h3)
          simp [List.find?, e1, e2, e3]
  rw [hmsg, blsChange_ok hash idx _ _ (by decide) (by decide)]
  simp only
  exact signingData_ok hash _ _ hobjlen hdomlen

-- ───────────── the baked list ─────────────

open Dc4bcVerif.Model.Tasks Dc4bcVerif.Gen.Baked

/-- the generated run table is well formed (kernel-evaluated over all runs) -/
theorem runs_ok : runsOk 0 allRuns = true := by decide +kernel

/-- the list holds 18 632 indices … -/
theorem baked_count : bakedIndices.length = 18632 := by
  unfold bakedIndices; rw [expand_length]; decide +kernel

/-- … `strings.Split` yields one more field (the trailing empty one) -/
theorem baked_fields : splitCount = 18633 ∧ oddFields = [(18632, "")] := by decide

/-- **baked_nodup**: strictly increasing in file order, hence no index appears twice -/
theorem baked_strictly_increasing : bakedIndices.Pairwise (· < ·) :=
  (expand_sorted 0 allRuns runs_ok).1

theorem baked_nodup : bakedIndices.Nodup :=
  baked_strictly_increasing.imp (fun h => Nat.ne_of_lt h)

theorem baked_small : ∀ v ∈ bakedIndices, v < 2 ^ 32 :=
  expand_bound (2 ^ 32) allRuns (by decide +kernel)

/-- **baked_wellformed**: every position `0 … 18631` yields exactly one well-formed validator index -/
theorem baked_wellformed (pos : Nat) (h : pos < 18632) :
    ∃ v, reconstructBaked pos = .ok v ∧ bakedIndices[pos]? = some v ∧ v < 2 ^ 32 := by
  have hlen := baked_count
  have hp : pos < bakedIndices.length := by omega
  refine ⟨bakedIndices[pos], ?_, List.getElem?_eq_getElem hp, baked_small _ (List.getElem_mem hp)⟩
  unfold reconstructBaked
  have h1 : ¬ ((pos : Int) < 0) := by omega
  have h2 : ¬ ((pos : Int) ≥ (splitCount : Int)) := by rw [baked_fields.1]; omega
  have hsmall := baked_small _ (List.getElem_mem hp)
  simp only [h1, h2, decide_false, Bool.or_self, Bool.false_eq_true, ↓reduceIte, Int.toNat_natCast,
    List.getElem?_eq_getElem hp]
  have : bakedIndices[pos] < 2 ^ 63 := by omega
  simp [this]

/-- **out_of_range_refused**: a negative position, the trailing empty line (18 632) and everything
beyond are refused with an error — never a crash, never a message -/
theorem out_of_range_refused (id : Int) (h : id < 0 ∨ id ≥ 18632) :
    reconstructBaked id = .errRange ∨ reconstructBaked id = .errParse := by
  unfold reconstructBaked
  by_cases h1 : id < 0
  · left; simp [h1]
  · by_cases h2 : id ≥ (splitCount : Int)
    · left; simp [h2]
    · right
      simp only [h1, h2, decide_false, Bool.or_self, Bool.false_eq_true, ↓reduceIte]
      have hge : id.toNat ≥ bakedIndices.length := by rw [baked_count]; omega
      rw [List.getElem?_eq_none hge]

/-- non-vacuity: the first and the last baked position -/
example : reconstructBaked 0 = .ok 52694 := by decide +kernel
example : ∃ v, reconstructBaked 18631 = .ok v := by
  obtain ⟨v, hv, _⟩ := baked_wellformed 18631 (by omega); exact ⟨v, hv⟩

end Dc4bcVerif.Props.C17
