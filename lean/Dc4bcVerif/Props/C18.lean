/-
  C18 — no input can crash a node; rejected input is a no-op.

  What the theorems cover: the node's message path (`processMessage` / `ProcessMessage`), the answer
  path (`executeOperation`, `ApproveParticipation`), signature verification, and the proposal
  expansion (`TasksToMessages` / `ReconstructBakedMessage`, shared by node and airgapped machine).
  In the models a Go panic is an explicit outcome (`Outcome.panic`, `LookupRes.panic`, `Res.panic`), so
  "never panics" is a statement about a value. The airgapped machine's handlers are cryptographic
  library calls and are covered by fault injection on the real machine only (see DESIGN.md).
-/
import Dc4bcVerif.Model.NodeOps
import Dc4bcVerif.Props.C09

namespace Dc4bcVerif.Props.C18
open Dc4bcVerif.Gen Dc4bcVerif.Model Dc4bcVerif.Model.Node

-- ───────────── rejected input is a no-op: the message path ─────────────

theorem restart_st (st st' : NodeSt) (inst inst' : Instance) (round : String) (now : Time)
    (h : restartSigning st inst round now = some (st', inst')) : st' = st := by
  unfold restartSigning at h
  cases hd : doOrReject inst .e_event_signing_restart (.default now) with
  | none => simp [hd] at h
  | some r => simp [hd] at h; exact h.1.symm

theorem step1_st (st st' : NodeSt) (inst inst' : Instance) (m : NMsg) (now : Time)
    (h : step1 st inst m now = some (st', inst')) : st' = st := by
  unfold step1 at h
  split at h
  · exact restart_st _ _ _ _ _ _ h
  · simp only [Option.some.injEq, Prod.mk.injEq] at h; exact h.1.symm

theorem step2_st (st st' : NodeSt) (inst inst' : Instance) (m : NMsg) (now : Time)
    (h : step2 st inst m now = some (st', inst')) : st' = st := by
  unfold step2 at h
  split at h
  · exact restart_st _ _ _ _ _ _ h
  · simp only [Option.some.injEq, Prod.mk.injEq] at h; exact h.1.symm

def preSt : Pre → NodeSt
  | .swallow s => s
  | .fail s => s
  | .cont s _ => s

/-- the preliminary steps (lazy restart of a cancelled signing round included) write nothing -/
theorem preSteps_st (st : NodeSt) (inst : Instance) (m : NMsg) (now : Time) : preSt (preSteps st inst m now) = st := by
  unfold preSteps
  split
  · rfl
  · cases h1 : step1 st inst m now with
    | none => rfl
    | some pr1 =>
      obtain ⟨st1, inst1⟩ := pr1
      have e1 := step1_st _ _ _ _ _ _ h1
      dsimp only
      split
      · exact e1
      · cases h2 : step2 st1 inst1 m now with
        | none => exact e1
        | some pr2 =>
          obtain ⟨st2, inst2⟩ := pr2
          exact (step2_st _ _ _ _ _ _ h2).trans e1

theorem finish_notok (st2 : NodeSt) (i5 : Instance) (rs5 : Option St) (rd5 : Option RespData) (m : NMsg) (now : Time)
    (payloadOf : Tasks.Msg → Bytes) (h : (finish st2 i5 rs5 rd5 m now payloadOf).out ≠ .ok) :
    (finish st2 i5 rs5 rd5 m now payloadOf).st = st2 := by
  unfold finish at h ⊢
  dsimp only at h ⊢
  cases hr : reconstructStep (rs5 == some .s_state_signing_partial_signs_collected) m with
  | none => rfl
  | some sent =>
    simp only [hr] at h ⊢
    cases hc : restartAfterCollect (rs5 == some .s_state_signing_partial_signs_collected) i5 now with
    | none => rfl
    | some i6 =>
      simp only [hc] at h ⊢
      cases hp : placeholders st2 m payloadOf with
      | none => rfl
      | some st3 => simp [hp] at h

theorem afterDo_notok (st2 : NodeSt) (i3 : Instance) (o3 : Out) (m : NMsg) (now : Time) (payloadOf : Tasks.Msg → Bytes)
    (h : (afterDo st2 i3 o3 m now payloadOf).out ≠ .ok) : (afterDo st2 i3 o3 m now payloadOf).st = st2 := by
  unfold afterDo at h ⊢
  cases h1 : firstHandOver i3 o3 now with
  | none => rfl
  | some x =>
    obtain ⟨i4, rs4, rd4⟩ := x
    simp only [h1] at h ⊢
    cases h2 : secondHandOver i4 rs4 rd4 now with
    | none => rfl
    | some y =>
      obtain ⟨i5, rs5, rd5⟩ := y
      simp only [h2] at h ⊢
      exact finish_notok _ _ _ _ _ _ _ h

theorem applyEvent_notok (st2 : NodeSt) (inst2 : Instance) (ev : Ev) (arg : Arg) (m : NMsg) (now : Time)
    (payloadOf : Tasks.Msg → Bytes) (h : (applyEvent st2 inst2 ev arg m now payloadOf).out ≠ .ok) :
    (applyEvent st2 inst2 ev arg m now payloadOf).st = st2 := by
  unfold applyEvent at h ⊢
  split
  · rfl
  · rename_i hp
    simp only [hp, Bool.false_eq_true, ↓reduceIte] at h
    cases hd : doOrReject inst2 ev arg with
    | none => rfl
    | some r =>
      obtain ⟨i3, o3⟩ := r
      simp only [hd] at h ⊢
      exact afterDo_notok _ _ _ _ _ _ h

theorem dispatch_notok (st2 : NodeSt) (inst2 : Instance) (m : NMsg) (now : Time) (payloadOf : Tasks.Msg → Bytes)
    (h : (dispatch st2 inst2 m now payloadOf).out ≠ .ok) : (dispatch st2 inst2 m now payloadOf).st = st2 := by
  unfold dispatch at h ⊢
  cases hf : Ev.all.find? (fun e => e.name == m.event) with
  | none => rfl
  | some ev =>
    simp only [hf] at h ⊢
    split
    · rfl
    · rename_i h1
      simp only [h1, Bool.false_eq_true, ↓reduceIte] at h
      split
      · rfl
      · rename_i h2
        simp only [h2, Bool.false_eq_true, ↓reduceIte] at h
        exact applyEvent_notok _ _ _ _ _ _ _ h

theorem handleEvent_notok (st : NodeSt) (inst : Instance) (m : NMsg) (now : Time) (payloadOf : Tasks.Msg → Bytes)
    (h : (handleEvent st inst m now payloadOf).out ≠ .ok) : (handleEvent st inst m now payloadOf).st = st := by
  unfold handleEvent at h ⊢
  have hp := preSteps_st st inst m now
  cases hpre : preSteps st inst m now with
  | swallow st' => rw [hpre] at hp; exact hp
  | fail st' => rw [hpre] at hp; exact hp
  | cont st' inst' =>
    rw [hpre] at hp
    simp only [hpre] at h ⊢
    rw [dispatch_notok _ _ _ _ _ h]; exact hp

theorem getInstance_st (st st1 : NodeSt) (round : String) (inst : Instance) (h : getInstance st round = some (st1, inst)) :
    st1 = st := by
  unfold getInstance at h
  cases hl : lookupS st.rounds round with
  | some v =>
    obtain ⟨ds, p⟩ := v
    simp only [hl] at h
    cases hr : Instance.restore ds p with
    | none => simp [hr] at h
    | some i => simp [hr] at h; exact h.1.symm
  | none =>
    simp only [hl] at h
    split at h
    · cases h
    · simp at h; exact h.1.symm

/-- **reject_is_noop (message handling).** Whatever the message and whatever the node holds: if handling
ends with anything but success (an error, or the model's stand-in for a crash), the node state —
every round, the operation pool, the tombstones, the signature store — is the value it was before.
All effects of a message are written together at the end of a successful handling. -/
theorem reject_is_noop (st : NodeSt) (m : NMsg) (now : Time) (payloadOf : Tasks.Msg → Bytes)
    (h : (processMessage st m now payloadOf).out ≠ .ok) : (processMessage st m now payloadOf).st = st := by
  unfold processMessage at h ⊢
  cases hg : getInstance st m.round with
  | none => rfl
  | some pr =>
    obtain ⟨st1, inst⟩ := pr
    have e1 := getInstance_st _ _ _ _ hg
    subst e1
    simp only [hg] at h ⊢
    split
    · rfl
    · rfl
    · rename_i hv
      simp only [hv] at h
      split
      · rename_i hev
        simp only [hev, ↓reduceIte] at h
        cases hs : m.sigs with
        | none => rfl
        | some l =>
          simp only [hs] at h ⊢
          cases hsv : saveSignatures st1 (l.map (fun x => { x with username := m.sender, round := m.round })) with
          | none => rfl
          | some st2 => simp [hsv] at h
      · rename_i hev
        simp only [hev, Bool.false_eq_true, ↓reduceIte] at h
        split
        · split <;> rfl
        · rename_i hev2
          simp only [hev2, Bool.false_eq_true, ↓reduceIte] at h
          exact handleEvent_notok _ _ _ _ _ h

/-- `ProcessMessage` as a whole: the operation is stored together with the round state at the successful end
(an identical pending operation is tolerated), so an unsuccessful end leaves the state as it was — no exception. -/
theorem top_reject_is_noop (st : NodeSt) (m : NMsg) (now : Time) (payloadOf : Tasks.Msg → Bytes)
    (h : (processMessageTop st m now payloadOf).out ≠ .ok) :
    (processMessageTop st m now payloadOf).st = st := by
  unfold processMessageTop at h ⊢
  dsimp only at h ⊢
  split
  · rename_i op hout hop
    simp only [hout, hop] at h
    exact absurd rfl h
  · rename_i hne
    have : (processMessage st m now payloadOf).out ≠ .ok := by
      intro hok
      cases hop : (processMessage st m now payloadOf).op with
      | none => simp [hok, hop] at h
      | some op => exact hne op hok hop
    exact reject_is_noop st m now payloadOf this

-- ───────────── rejected input is a no-op: the answer path ─────────────

/-- a refused operation result (unknown / retired id, altered type or payload, request returned instead
of a result) changes nothing and posts nothing -/
theorem exec_refused_is_noop (st : NodeSt) (sub : SubOp) (h : execGuard st sub = none) :
    (executeOperation st sub).st = st ∧ (executeOperation st sub).posted = [] ∧ (executeOperation st sub).out = .reject := by
  unfold executeOperation; simp [h]

/-- **the answer path never panics** (a request body on the local API): whatever result is submitted in whatever node
state, `executeOperation` ends with success or an error. Before fix 2fefb3d a result with the event
`operation_processed_successfully` for an operation of a round without a key-generation part (a pending invitation; a
round re-initialised from an empty message list) dereferenced a nil payload: the model said `.panic` there and the real
node did panic (nodediff `invitation-as-processed`). -/
theorem exec_never_panics (st : NodeSt) (sub : SubOp) : (executeOperation st sub).out ≠ .panic := by
  unfold executeOperation
  split
  · simp
  · split
    · unfold execPost; split <;> simp
    · unfold execReinit
      repeat' split
      all_goals first
        | (simp; done)
        | (simp only []
           generalize deleteOperation _ _ = d
           cases d <;> simp)

/-- and a result refused for that reason changes nothing -/
theorem exec_processed_without_keygen_is_noop (st : NodeSt) (sub : SubOp) (stored : NOp) (ds : _) (p : _)
    (hr : lookupS st.rounds sub.round = some (ds, p)) (hp : p.dkg = none) :
    (execReinit st sub stored).st = st ∧ (execReinit st sub stored).out ≠ .ok := by
  unfold execReinit
  simp only [hr]
  split
  · exact ⟨rfl, by simp⟩
  · simp [hp]

theorem approve_refused_is_noop (st : NodeSt) (idOf : Option NOp) (h : (approveParticipation st idOf).out ≠ .ok) :
    (approveParticipation st idOf).st = st := by
  unfold approveParticipation at h ⊢
  repeat' split
  all_goals first | rfl | (simp_all)

-- ───────────── never panics ─────────────

/-- signature verification never panics (wrong-sized registered keys are refused: fix 7248992) -/
theorem verify_never_panics (st : NodeSt) (inst : Instance) (m : NMsg) : verifyMessage st inst m ≠ .panic :=
  C09.verify_never_panics st inst m

/-- the baked-message lookup never panics, for every integer position (negative ones: fix 96d04d0) -/
theorem lookup_never_panics (id : Int) : Tasks.reconstructBaked id ≠ .panic := by
  unfold Tasks.reconstructBaked
  repeat' split
  all_goals simp

theorem rangeMsgs_never_panics (k : Nat) (i : Int) : Tasks.rangeMsgs k i ≠ .error .panic := by
  induction k generalizing i with
  | zero => simp [Tasks.rangeMsgs]
  | succ k ih =>
    unfold Tasks.rangeMsgs
    cases hr : Tasks.reconstructBaked i with
    | ok v =>
      dsimp only
      cases hk : Tasks.rangeMsgs k (i + 1) with
      | ok rest => simp
      | error e =>
        simp only [ne_eq, Except.error.injEq]
        intro he; subst he; exact ih (i + 1) hk
    | errRange => simp
    | errParse => simp
    | panic => exact absurd hr (lookup_never_panics i)

/-- **expansion_never_panics**: the expansion of a proposal into messages — run by every node on every
proposal and by every airgapped machine on every signing request — ends with a list or an error for
every task list: reversed, negative, empty and astronomically large ranges included -/
theorem expansion_never_panics (ts : List Task) : Tasks.tasksToMessages ts ≠ .error .panic := by
  induction ts with
  | nil => simp [Tasks.tasksToMessages]
  | cons t rest ih =>
    unfold Tasks.tasksToMessages
    have ht : Tasks.taskMsgs t ≠ .error .panic := by
      unfold Tasks.taskMsgs
      cases t.payload with
      | some p => simp
      | none => exact rangeMsgs_never_panics _ _
    cases h1 : Tasks.taskMsgs t with
    | error e =>
      simp only [ne_eq, Except.error.injEq]
      intro he; subst he; exact ht h1
    | ok a =>
      cases h2 : Tasks.tasksToMessages rest with
      | ok b => simp
      | error e =>
        simp only [ne_eq, Except.error.injEq]
        intro he; subst he; exact ih h2

/-- a reversed range expands to nothing, whatever its bounds -/
theorem reversed_range_empty (t : Task) (hp : t.payload = none) (h : t.rangeEnd ≤ t.rangeStart) : Tasks.taskMsgs t = .ok [] := by
  unfold Tasks.taskMsgs
  have : (t.rangeEnd - t.rangeStart).toNat = 0 := by omega
  simp [hp, this, Tasks.rangeMsgs]

/-- the node model can panic only inside an FSM callback (a missing payload part) or when writing the
polynomial of a re-initialised round: every other step returns ok or reject -/
theorem panic_only_from_callbacks (st : NodeSt) (m : NMsg) (now : Time) (payloadOf : Tasks.Msg → Bytes)
    (h : (processMessage st m now payloadOf).out = .panic) :
    ∃ inst inst2 ev arg, getInstance st m.round = some (st, inst) ∧ preSteps st inst m now = .cont st inst2 ∧
      doPanics inst2 ev arg = true ∧ (ev.name == m.event) = true := by
  unfold processMessage at h
  cases hg : getInstance st m.round with
  | none => simp [hg, rejectWith] at h
  | some pr =>
    obtain ⟨st1, inst⟩ := pr
    have e1 := getInstance_st _ _ _ _ hg
    subst e1
    simp only [hg] at h
    split at h
    · rename_i hv
      split at hv
      · cases hv
      · exact absurd hv (verify_never_panics _ _ _)
    · simp [rejectWith] at h
    · split at h
      · cases hs : m.sigs with
        | none => simp [hs, rejectWith] at h
        | some l =>
          simp only [hs] at h
          cases hsv : saveSignatures st1 (l.map (fun x => { x with username := m.sender, round := m.round })) with
          | none => simp [hsv, rejectWith] at h
          | some st2 => simp [hsv] at h
      · split at h
        · split at h <;> simp [rejectWith] at h
        · unfold handleEvent at h
          have hp := preSteps_st st1 inst m now
          cases hpre : preSteps st1 inst m now with
          | swallow st' => simp [hpre] at h
          | fail st' => simp [hpre, rejectWith] at h
          | cont st' inst' =>
            rw [hpre] at hp
            simp only [hpre] at h
            unfold dispatch at h
            cases hf : Ev.all.find? (fun e => e.name == m.event) with
            | none => simp [hf, rejectWith] at h
            | some ev =>
              simp only [hf] at h
              split at h
              · simp [rejectWith] at h
              · split at h
                · simp [rejectWith] at h
                · unfold applyEvent at h
                  by_cases hdp : doPanics inst' ev (m.arg.getD .other) = true
                  · have hst' : st' = st1 := hp
                    subst hst'
                    exact ⟨inst, inst', ev, _, rfl, hpre, hdp, by simpa using List.find?_some hf⟩
                  · simp only [hdp, Bool.false_eq_true, ↓reduceIte] at h
                    exfalso
                    cases hd : doOrReject inst' ev (m.arg.getD .other) with
                    | none => simp [hd, rejectWith] at h
                    | some r =>
                      obtain ⟨i3, o3⟩ := r
                      simp only [hd] at h
                      unfold afterDo at h
                      cases h1 : firstHandOver i3 o3 now with
                      | none => simp [h1, rejectWith] at h
                      | some x =>
                        obtain ⟨i4, rs4, rd4⟩ := x
                        simp only [h1] at h
                        cases h2 : secondHandOver i4 rs4 rd4 now with
                        | none => simp [h2, rejectWith] at h
                        | some y =>
                          obtain ⟨i5, rs5, rd5⟩ := y
                          simp only [h2] at h
                          unfold finish at h
                          dsimp only at h
                          cases hr : reconstructStep (rs5 == some .s_state_signing_partial_signs_collected) m with
                          | none => simp [hr, rejectWith] at h
                          | some sent =>
                            simp only [hr] at h
                            cases hc : restartAfterCollect (rs5 == some .s_state_signing_partial_signs_collected) i5 now with
                            | none => simp [hc] at h
                            | some i6 =>
                              simp only [hc] at h
                              cases hpl : placeholders st' m payloadOf with
                              | none => simp [hpl] at h
                              | some st3 => simp [hpl] at h

/-- non-vacuity: a rejected message on a state that holds a round -/
example : (processMessage { self := "n", rounds := [("r", (none, { dkgId := "r" }))] }
    { round := "r", event := "event_bogus", sender := "x", recipient := "", arg := none, validKeys := [] } 0 (fun _ => [])).out ≠ .ok := by
  decide

end Dc4bcVerif.Props.C18
