/-
  C18 / C12, airgapped machine: an operation whose handling fails fatally (`ProcessOperation` returns an error: the handler
  failed and no error result could be built) leaves the DURABLE state — the operation log — as it was, because the log is
  written after the handler has returned (`order_in_source_air`, read off airgapped.go on every run). Hence a restart
  after such an operation rebuilds exactly the state a restart before it would have rebuilt (`fatal_then_restart`).
  With the log written first (`logFirst`), one malformed operation file makes every later replay fail
  (`log_first_poisons_replay`).
-/
import Dc4bcVerif.Model.Air
import Dc4bcVerif.Model.Instance
import Dc4bcVerif.Gen.AirGlue

namespace Dc4bcVerif.Model.AirF
open Dc4bcVerif.Model.Air

variable {V Op R : Type}

/-- a handler that can fail fatally: `none` = `ProcessOperation` returns an error (no result file) -/
abbrev HF (V Op R : Type) := Option V → Op → Option V × Option R

inductive Step where
  | handle | log
  deriving DecidableEq, Repr

/-- the order of `ProcessOperation` after the pinned tree and after every fix so far -/
def handleFirst : List Step := [.handle, .log]
/-- the order of seed C18b -/
def logFirst : List Step := [.log, .handle]

/-- `ProcessOperation(op, storeOperation = true)` with the two steps in the given order; a fatal handler error returns at once -/
def processOpF (order : List Step) (h : HF V Op R) (logged : Op → Bool) (m : Machine V Op) (op : Op) : Machine V Op × Option R :=
  if order = handleFirst then
    match h m.inst op with
    | (v', none) => ({ m with inst := v' }, none)
    | (v', some r) => ({ inst := v', log := if logged op then m.log ++ [op] else m.log }, some r)
  else
    let m1 : Machine V Op := { m with log := if logged op then m.log ++ [op] else m.log }
    match h m.inst op with
    | (v', none) => ({ m1 with inst := v' }, none)
    | (v', some r) => ({ m1 with inst := v' }, some r)

/-- `ReplayOperationsLog`: stops with an error at the first operation that fails fatally -/
def replayF (h : HF V Op R) : Option V → List Op → Option (Option V)
  | v, [] => some v
  | v, op :: rest =>
    match h v op with
    | (_, none) => none
    | (v', some _) => replayF h v' rest

/-- **a fatal operation writes nothing durable** -/
theorem fatal_leaves_log (h : HF V Op R) (logged : Op → Bool) (m : Machine V Op) (op : Op)
    (hf : (processOpF handleFirst h logged m op).2 = none) : (processOpF handleFirst h logged m op).1.log = m.log := by
  unfold processOpF at hf ⊢
  simp only [↓reduceIte] at hf ⊢
  cases hh : h m.inst op with
  | mk v' r =>
    cases r with
    | none => rfl
    | some x => simp [hh] at hf

/-- so a restart after it replays what a restart before it would have replayed -/
theorem fatal_then_restart (h : HF V Op R) (logged : Op → Bool) (m : Machine V Op) (op : Op)
    (hf : (processOpF handleFirst h logged m op).2 = none) :
    replayF h none (processOpF handleFirst h logged m op).1.log = replayF h none m.log := by
  rw [fatal_leaves_log h logged m op hf]

/-- an accepted logged operation is appended, an accepted signing request is not -/
theorem accepted_log (h : HF V Op R) (logged : Op → Bool) (m : Machine V Op) (op : Op) (r : R)
    (hr : (processOpF handleFirst h logged m op).2 = some r) :
    (processOpF handleFirst h logged m op).1.log = if logged op then m.log ++ [op] else m.log := by
  unfold processOpF at hr ⊢
  simp only [↓reduceIte] at hr ⊢
  cases hh : h m.inst op with
  | mk v' x =>
    cases x with
    | none => simp [hh] at hr
    | some y => rfl

/-- **log_first_poisons_replay.** With the log written before the handler runs there is a handler, a machine and ONE
operation after which the log can never be replayed again: the machine cannot be started any more. -/
theorem log_first_poisons_replay :
    ∃ (h : HF Nat Nat Unit) (m : Machine Nat Nat) (op : Nat),
      replayF h none m.log ≠ none ∧
      (processOpF logFirst h (fun _ => true) m op).2 = none ∧
      replayF h none (processOpF logFirst h (fun _ => true) m op).1.log = none ∧
      replayF h none (processOpF handleFirst h (fun _ => true) m op).1.log ≠ none := by
  refine ⟨fun v op => if op = 0 then (v, none) else (some op, some ()), { inst := none, log := [1, 2] }, 0, ?_, ?_, ?_, ?_⟩ <;> decide

end Dc4bcVerif.Model.AirF

namespace Dc4bcVerif.Props.C18Air
open Dc4bcVerif.Gen Dc4bcVerif.Model

/-- **the order in the source**: the operation is handled, then logged, then the result file is opened -/
theorem order_in_source_air : AirGlue.processOrder = ["am.GetOperationResult", "am.storeOperation", "os.OpenFile"] := by decide

/-- the replay after a restart does not log the operations again -/
theorem replay_does_not_log : AirGlue.replayStoreArg = "false" := by decide

/-- a panic inside a handler (or the crypto below it) is turned into a handler error (fix b72c75b) -/
theorem dispatch_recovers : AirGlue.dispatchRecovers = true := by decide

/-- every dispatched protocol operation has an error event to report a failure with (the re-initialisation has none) -/
theorem handled_have_error_event : ∀ t ∈ AirGlue.handledTypes, t = "reinit_dkg" ∨ AirGlue.errorEvents.any (fun p => p.1 == t) = true := by
  decide

/-- the round machines accept that error event in the state the operation was issued in: for every entry of the map whose
state and event belong to the generated tables, some machine has a public row for it -/
def errorEventAccepted (p : String × String) : Bool :=
  match St.all.find? (fun s => s.name == p.1), Ev.all.find? (fun e => e.name == p.2) with
  | some s, some e => allMachines.any (fun m => (lookup m s e).any (fun tr => !tr.isInternal))
  | _, _ => true

theorem error_events_accepted : AirGlue.errorEvents.all errorEventAccepted = true := by decide

/-- the phases of the key generation and the signing answers are among them (the check is not vacuous) -/
example : (AirGlue.errorEvents.filter (fun p => (St.all.find? (fun s => s.name == p.1)).isSome && (Ev.all.find? (fun e => e.name == p.2)).isSome)).length ≥ 5 := by
  decide

end Dc4bcVerif.Props.C18Air
