/-
  C07 — every batch signed by t honest participants is reconstructed on every node; answers of slow
  participants to a finished batch do not disturb later batches.

  The theorems are about the signing machine (generated table + modelled callbacks) and the node model:
  * safety of the collecting batch: nothing but its own answers / failure reports touches it
    (`proposal_while_collecting_rejected`, `stale_answer_rejected`, `answer_in_idle_rejected`,
    `answered_twice_rejected`) — this is what makes late answers harmless;
  * progress: a well-formed answer of a still awaited participant is always accepted
    (`valid_contribution_accepted`), and `t` of them from distinct participants — in any order, whatever
    the other participants do later — end in `partial_signs_collected` (`t_answers_collect`);
  * the node turns `collected` into a broadcast reconstructed signature and an idle round in the same
    step (`collected_step`), and stores every broadcast it sees (`broadcast_stored`).
  Delivery order of *different* nodes' polls is irrelevant because every node is a function of the board
  log (C08). What is not proved: that reconstruction itself succeeds (C01 proves it for the algebra; in
  the node model it is the oracle `recon`), and wall-clock deadlines (7 days, never evaluated by the
  validator because contributions do not update the signing payload's `UpdatedAt`).
-/
import Dc4bcVerif.Props.C06
import Dc4bcVerif.Model.NodeOps
import Dc4bcVerif.Lemmas.NodeLocal

namespace Dc4bcVerif.Props.C07
open Dc4bcVerif.Gen Dc4bcVerif.Model Dc4bcVerif.Props.C06

-- ───────────── nothing but the batch's own messages touches a collecting batch ─────────────

/-- a proposal that arrives while a batch is collecting is refused and changes nothing: a batch cannot be
replaced or restarted from outside -/
theorem proposal_while_collecting_rejected (p : Payload) (a : Arg) :
    doEvent signMachine runAction sAWAIT p eSTART a = ⟨none, .err, sAWAIT, p⟩ :=
  doEvent_route (sign_await_other eSTART (by decide) (by decide))

/-- while collecting, every event other than an answer or a failure report is refused without effect -/
theorem other_events_rejected_while_collecting (p : Payload) (e : Ev) (a : Arg) (h1 : e ≠ eRECEIVED) (h2 : e ≠ eSIGNERR) :
    doEvent signMachine runAction sAWAIT p e a = ⟨none, .err, sAWAIT, p⟩ :=
  doEvent_route (sign_await_other e h1 h2)

/-- an answer to another (e.g. already finished) batch is refused without effect -/
theorem stale_answer_rejected (p : Payload) (sc : SignConf) (hs : p.sign = some sc) (b : String) (pid : Int)
    (signs : List (String × Bytes)) (ts : Time) (hb : b ≠ sc.batchId) :
    (doEvent signMachine runAction sAWAIT p eRECEIVED (.partialSigns b pid signs ts)).res = .err ∧
    (doEvent signMachine runAction sAWAIT p eRECEIVED (.partialSigns b pid signs ts)).state = sAWAIT ∧
    (doEvent signMachine runAction sAWAIT p eRECEIVED (.partialSigns b pid signs ts)).payload = p := by
  have hact : sign_actionPartialSignConfirmationReceived eRECEIVED p (.partialSigns b pid signs ts) = aErr p := by
    unfold sign_actionPartialSignConfirmationReceived
    simp only [hs]
    split
    · rfl
    · have : (b != sc.batchId) = true := by simp [hb]
      simp only [this, ↓reduceIte]
  rw [sign_do_received]
  simp only [hact, aErr]
  have hne : (Res.err != Res.ok) = true := by decide
  simp only [hne, ↓reduceIte]
  exact ⟨trivial, trivial, trivial⟩

/-- after the batch is finished (round idle again) a late answer is a route error without effect -/
theorem answer_in_idle_rejected (p : Payload) (e : Ev) (a : Arg) (h : e ≠ eSTART) :
    doEvent signMachine runAction sIDLE p e a = ⟨none, .err, sIDLE, p⟩ :=
  doEvent_route (sign_idle_other e h)

/-- a participant that has already answered (or failed) cannot answer again: no double counting -/
theorem answered_twice_rejected (p : Payload) (sc : SignConf) (hs : p.sign = some sc) (pid : Int) (part : SignPart)
    (hg : getAt sc.quorum pid = some part) (hst : part.status ≠ 0) (signs : List (String × Bytes)) (ts : Time) :
    (doEvent signMachine runAction sAWAIT p eRECEIVED (.partialSigns sc.batchId pid signs ts)).res ≠ .ok := by
  intro hok
  obtain ⟨pid', signs', ts', part', ha, hg', hst'⟩ := received_accepted_only_if p _ sc hs hok
  cases ha
  rw [hg] at hg'
  cases hg'
  exact hst hst'

-- ───────────── progress ─────────────

/-- a well-formed answer: what `SigningProposalBatchPartialSignRequests.Validate` demands -/
def malformed (b : String) (pid : Int) (signs : List (String × Bytes)) (ts : Time) : Bool :=
  b == "" || isZeroTime ts || pid < 0 || signs.isEmpty || !signs.all (fun s => s.1 != "" && !s.2.isEmpty)

/-- **valid_contribution_accepted.** While a batch is collecting, a well-formed answer for it from a
participant that is still awaited is accepted — whatever else has happened to the round before. -/
theorem valid_contribution_accepted (p : Payload) (sc : SignConf) (sg : SigConf) (hs : p.sign = some sc) (hsg : p.sig = some sg)
    (pid : Int) (part : SignPart) (hg : getAt sc.quorum pid = some part) (hst : part.status = 0)
    (signs : List (String × Bytes)) (ts : Time) (hwf : malformed sc.batchId pid signs ts = false) :
    (doEvent signMachine runAction sAWAIT p eRECEIVED (.partialSigns sc.batchId pid signs ts)).res = .ok := by
  have hact : (sign_actionPartialSignConfirmationReceived eRECEIVED p (.partialSigns sc.batchId pid signs ts)).res = .ok := by
    unfold sign_actionPartialSignConfirmationReceived
    unfold malformed at hwf
    simp only [hwf, Bool.false_eq_true, ↓reduceIte, hs, bne_self_eq_false, hg, hst, hsg, aOk]
  rw [sign_do_received]
  simp only
  have hne : ((sign_actionPartialSignConfirmationReceived eRECEIVED p (.partialSigns sc.batchId pid signs ts)).res != .ok) = false := by
    simp [hact]
  simp only [hne, Bool.false_eq_true, ↓reduceIte]
  obtain ⟨b, pid', signs', ts', sc0, part0, sg0, ps, ha, hs', _, _, _, _, hp⟩ := (sign_received_spec p eRECEIVED _).2.2.2 hact
  exact (signAfter_cases _ _ _ (by rw [hp])).1

/-- the state of a round after a list of answers has been offered one after the other (a rejected
answer changes nothing; once the batch has left `await` the remaining answers are late) -/
def offer : St × Payload → List Arg → St × Payload
  | sp, [] => sp
  | (s, p), a :: rest =>
    if s == sAWAIT then
      let out := doEvent signMachine runAction sAWAIT p eRECEIVED a
      if out.res == .ok then offer (out.state, out.payload) rest else offer (s, p) rest
    else (s, p)

/-- answers of pairwise distinct, still awaited participants to the current batch -/
def GoodAnswers (sc : SignConf) : List Arg → Prop
  | [] => True
  | a :: rest =>
    (∃ pid signs ts part, a = .partialSigns sc.batchId pid signs ts ∧ malformed sc.batchId pid signs ts = false ∧
        getAt sc.quorum pid = some part ∧ part.status = 0 ∧
        -- the later answers come from other participants
        ∀ a' ∈ rest, ∀ pid' signs' ts', a' = .partialSigns sc.batchId pid' signs' ts' → pid' ≠ pid) ∧
    GoodAnswers sc rest

theorem getAt_setAt_ne {α : Type} (l : List α) (i j : Int) (v : α) (h : j ≠ i) : getAt (setAt l i v) j = getAt l j := by
  unfold getAt setAt
  by_cases hi : i < 0
  · simp [hi]
  · by_cases hj : j < 0
    · simp [hj]
    · simp only [hi, hj, ↓reduceIte]
      have : i.toNat ≠ j.toNat := by omega
      rw [List.getElem?_set_ne this]

theorem goodAnswers_after (sc : SignConf) (pid : Int) (part' : SignPart) (rest : List Arg)
    (hrest : GoodAnswers sc rest)
    (hdist : ∀ a' ∈ rest, ∀ pid' signs' ts', a' = .partialSigns sc.batchId pid' signs' ts' → pid' ≠ pid) :
    GoodAnswers { sc with quorum := setAt sc.quorum pid part' } rest := by
  induction rest with
  | nil => trivial
  | cons a r ih =>
    obtain ⟨⟨pid1, signs1, ts1, part1, ha, hwf, hg, hst, hd⟩, hr⟩ := hrest
    refine ⟨⟨pid1, signs1, ts1, part1, ha, hwf, ?_, hst, hd⟩, ih hr (fun a' ha' => hdist a' (List.mem_cons_of_mem _ ha'))⟩
    have hne : pid1 ≠ pid := hdist a (List.mem_cons_self ..) pid1 signs1 ts1 ha
    simp only
    rw [getAt_setAt_ne _ _ _ _ hne]
    exact hg

/-- **t_answers_collect.** A batch that is collecting, with `c` answers counted so far (invariant of
`await`: `c < t`, at most `n - t` failures), its deadline not passed: offer it, one after the other and in
any order, well-formed answers of pairwise distinct participants that are still awaited. If there are
at least `t - c` of them, the round ends in `partial_signs_collected` — exactly on the `t`-th counted
answer; later answers are late and change nothing. No bound on `n`, `t` or the number of answers. -/
theorem t_answers_collect (answers : List Arg) :
    ∀ (p : Payload) (sc : SignConf) (sg : SigConf), AwaitInv p sc → p.sig = some sg → ¬ expired sc →
      GoodAnswers sc answers → p.threshold ≤ cntSt sc 1 + (answers.length : Int) →
      (offer (sAWAIT, p) answers).1 = sCOLLECTED := by
  induction answers with
  | nil =>
    intro p sc sg hinv _ _ _ hlen
    have := hinv.confirmed_lt
    simp at hlen
    omega
  | cons a rest ih =>
    intro p sc sg hinv hsg hne hgood hlen
    obtain ⟨⟨pid, signs, ts, part, ha, hwf, hg, hst, hdist⟩, hrest⟩ := hgood
    subst ha
    have hok := valid_contribution_accepted p sc sg hinv.hsign hsg pid part hg hst signs ts hwf
    have hout := received_outcome p _ sc hinv hok
    simp only at hout
    unfold offer
    simp only [beq_self_eq_true, ↓reduceIte, hok]
    -- the explicit payload after the accepted answer
    have hact : (sign_actionPartialSignConfirmationReceived eRECEIVED p (.partialSigns sc.batchId pid signs ts)).res = .ok := by
      unfold sign_actionPartialSignConfirmationReceived
      unfold malformed at hwf
      simp only [hwf, Bool.false_eq_true, ↓reduceIte, hinv.hsign, bne_self_eq_false, hg, hst, hsg, aOk]
    obtain ⟨b0, pid0, signs0, ts0, sc0, part0, sg0, ps, ha0, hs0, hsg0, _, hg0, _, hp⟩ := (sign_received_spec p eRECEIVED _).2.2.2 hact
    cases ha0
    rw [hinv.hsign] at hs0; cases hs0
    rw [hsg] at hsg0; cases hsg0
    rw [hg] at hg0; cases hg0
    rcases hout with ⟨hexp, _⟩ | ⟨_, _, hcol⟩ | ⟨_, hlt, hst', sc', hinv', hc1, _, _⟩
    · exact absurd hexp hne
    · -- collected on this answer; the rest is late
      rw [hcol]
      cases rest <;> simp [offer]
    · -- still collecting with one more counted
      rw [hst']
      -- out.payload is the action's payload (validator keeps it in `await`)
      have hpay : (doEvent signMachine runAction sAWAIT p eRECEIVED (.partialSigns sc.batchId pid signs ts)).payload =
          (sign_actionPartialSignConfirmationReceived eRECEIVED p (.partialSigns sc.batchId pid signs ts)).payload := by
        rw [sign_do_received]
        simp only
        have hne' : ((sign_actionPartialSignConfirmationReceived eRECEIVED p (.partialSigns sc.batchId pid signs ts)).res != .ok) = false := by
          simp [hact]
        simp only [hne', Bool.false_eq_true, ↓reduceIte]
        have hc := (signAfter_cases _ (.partialSigns sc.batchId pid signs ts) _ (by rw [hp])).2
        have hst'' := hst'
        rw [sign_do_received] at hst''
        simp only [hne', Bool.false_eq_true, ↓reduceIte] at hst''
        -- by cases of the validator: only the `await` branch has state sAWAIT
        split at hc
        · rw [hc.1] at hst''; cases hst''
        · split at hc
          · rw [hc.1] at hst''; cases hst''
          · split at hc
            · exact hc.2
            · rw [hc.1] at hst''; cases hst''
      have hsc' : (doEvent signMachine runAction sAWAIT p eRECEIVED (.partialSigns sc.batchId pid signs ts)).payload.sign =
          some { sc with quorum := setAt sc.quorum pid { part with partialSigns := ps, status := 1, updatedAt := ts } } := by
        rw [hpay, hp]
      have hsig' : (doEvent signMachine runAction sAWAIT p eRECEIVED (.partialSigns sc.batchId pid signs ts)).payload.sig =
          some { sg with updatedAt := ts } := by
        rw [hpay, hp]
      have hthr' : (doEvent signMachine runAction sAWAIT p eRECEIVED (.partialSigns sc.batchId pid signs ts)).payload.threshold = p.threshold := by
        rw [hpay, hp]
      have heq : sc' = { sc with quorum := setAt sc.quorum pid { part with partialSigns := ps, status := 1, updatedAt := ts } } := by
        have := hinv'.hsign
        rw [hsc'] at this
        exact (Option.some.inj this).symm
      subst heq
      apply ih _ _ { sg with updatedAt := ts } hinv' hsig' (by exact hne) (goodAnswers_after sc pid _ rest hrest hdist)
      rw [hthr', hc1]
      simp only [List.length_cons, Int.natCast_add, Int.natCast_one] at hlen
      omega

-- ───────────── the node: collected ⇒ broadcast + idle, in the same step; broadcasts are stored ─────────────

open Dc4bcVerif.Model.Node in
/-- **collected_step.** When the event just applied collected the batch and reconstruction succeeded, the same
handling of the same message posts the reconstructed signatures and saves the round restarted: there is no
reachable saved state in which a node holds a collected batch it has not broadcast. If reconstruction or the
restart fails, nothing is saved at all (the message is rejected as a whole). -/
theorem collected_step (st2 : NodeSt) (i5 : Instance) (rd5 : Option RespData) (m : NMsg) (now : Time)
    (payloadOf : Tasks.Msg → Bytes) (hev : m.event ≠ "event_signing_start") :
    let r := finish st2 i5 (some .s_state_signing_partial_signs_collected) rd5 m now payloadOf
    (r.out = .ok → ∃ sigs i6, m.recon = some sigs ∧ r.sent = [⟨"signature_reconstructed", m.round, sigs⟩] ∧
        restartAfterCollect true i5 now = some i6 ∧ r.st = saveFSM st2 m.round (i6.dumpState, i6.payload)) ∧
    (r.out ≠ .ok → r.st = st2) := by
  unfold finish
  simp only [beq_self_eq_true]
  unfold reconstructStep
  simp only [↓reduceIte]
  cases hr : m.recon with
  | none => simp [rejectWith]
  | some sigs =>
    simp only
    cases hc : restartAfterCollect true i5 now with
    | none => simp
    | some i6 =>
      simp only
      have hpl : placeholders st2 m payloadOf = some st2 := by
        unfold placeholders
        have : (m.event == "event_signing_start") = false := by simp [hev]
        simp [this]
      simp [hpl]

theorem addEntry_mem (entries : List Node.RSig) (rs : Node.RSig) : rs ∈ Node.addEntry entries rs := by
  unfold Node.addEntry
  split
  · rename_i h
    induction entries with
    | nil => simp at h
    | cons x t ih =>
      unfold Node.addEntry.go
      by_cases hx : (x.username == rs.username) = true
      · simp [hx]
      · simp only [hx, Bool.false_eq_true, ↓reduceIte, List.mem_cons]
        right
        apply ih
        simpa [hx] using h
  · simp

open Dc4bcVerif.Lemmas in
/-- a stored entry is found again under its batch and message id -/
theorem addSig_stored (store : List (String × List (String × List Node.RSig))) (rs : Node.RSig) :
    ∃ bm entries, Node.lookupS (Node.addSig store rs) rs.batch = some bm ∧ Node.lookupS bm rs.msgId = some entries ∧ rs ∈ entries := by
  unfold Node.addSig
  exact ⟨_, _, NodeLocal.lookupS_assocSet_eq _ _ _, NodeLocal.lookupS_assocSet_eq _ _ _, addEntry_mem _ _⟩

/-- non-vacuity of `GoodAnswers` / `malformed`: one well-formed answer of participant 1 in a 2-quorum -/
example : GoodAnswers { batchId := "b", quorum := [⟨"a", 0, [], none, 0⟩, ⟨"b", 0, [], none, 0⟩], createdAt := 0, expiresAt := 9 }
    [.partialSigns "b" 1 [("m", [1])] 5] := by
  refine ⟨⟨1, [("m", [1])], 5, ⟨"b", 0, [], none, 0⟩, rfl, by decide, by decide, rfl, by simp⟩, trivial⟩

end Dc4bcVerif.Props.C07
