-- Root of the `Dc4bcVerif` library: generated tables, models, property theorems.
import Dc4bcVerif.Gen.FsmTables
import Dc4bcVerif.Gen.Config
import Dc4bcVerif.Model.Render
