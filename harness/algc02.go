package main

// C02 under a storage fault: the database of ONE airgapped machine is unavailable at the moment the machine persists its key
// ring (last key-generation step); the machine is restarted right afterwards. Whatever the machine reports and the nodes
// make of it: a node on which the round is signing-ready implies that EVERY machine holds a share on the polynomial that
// node retains.

import (
	"fmt"
	"os"
	"strings"

	"github.com/lidofinance/dc4bc/client/api/dto"
	"github.com/lidofinance/dc4bc/client/types"
	"github.com/lidofinance/dc4bc/dkg"
)

func signingReady(st string) bool {
	return st == "stage_signing_idle" || strings.HasPrefix(st, "state_signing")
}

func (a *algRun) c02StorageFault(outDir string, n, t, faulty int) {
	tag := fmt.Sprintf("(n=%d,t=%d) the database of machine %d fails while the machine handles the master-key operation (where it persists its key ring); restarted afterwards", n, t, faulty)
	dir, _ := os.MkdirTemp(outDir, "c02f")
	defer os.RemoveAll(dir)
	c, err := newCluster(dir, n, "pw")
	if err != nil {
		a.st.Notes = append(a.st.Notes, "c02 storage fault: "+err.Error())
		return
	}
	defer c.close()
	injected := 0
	c.dbFault = func(nd *vnode, cold types.Operation) bool {
		if nd.idx == faulty && string(cold.Type) == "state_dkg_master_key_await_confirmations" {
			injected++
			return true
		}
		return false
	}
	round, err := c.startDKG(t)
	if err != nil {
		a.st.Notes = append(a.st.Notes, "c02 storage fault: "+err.Error())
		return
	}
	errs := c.pumpShuffled(a.rng, 60)
	for _, e := range errs {
		a.st.Notes = append(a.st.Notes, tag+": "+truncate(e, 200))
	}
	if injected == 0 {
		a.st.Notes = append(a.st.Notes, tag+": the fault could not be injected (the master-key operation never reached the machine)")
		return
	}
	a.st.C02StorageFaults++
	for i, nd := range c.nodes {
		st := c.roundState(nd, round)
		a.st.OutcomeHist["c02fault:"+st]++
		if !signingReady(st) {
			continue
		}
		d, err := nd.fsmSvc.GetFSMDump(&dto.DkgIdDTO{DkgID: round})
		if err != nil || d == nil || d.Payload == nil || d.Payload.DKGProposalPayload == nil {
			a.mon(fmt.Sprintf("C02 node_dump %s: node %d is signing-ready (%s) but its round cannot be read: %v", tag, i, st, err))
			continue
		}
		retained, err := dkg.LoadPubPolyBLSKeyringFromBytes(eciesSuite, d.Payload.DKGProposalPayload.PubPolyBz)
		if err != nil {
			a.mon(fmt.Sprintf("C02 retained_poly %s: node %d is signing-ready (%s) but retains no readable polynomial: %v", tag, i, st, err))
			continue
		}
		for k, holder := range c.nodes {
			a.st.SharesChecked++
			krs, err := holder.air.GetBLSKeyrings()
			if err != nil || krs[round] == nil || krs[round].Share == nil {
				why := "nothing is stored under the round's key ring"
				if err != nil {
					why = err.Error()
				}
				a.mon(fmt.Sprintf("C02 share_persisted %s: the round is signing-ready on node %d (%s) while machine %d holds no share of it (%s)", tag, i, st, k, why))
				continue
			}
			if !retained.PubPoly.Check(krs[round].Share) {
				a.mon(fmt.Sprintf("C02 share_on_pubpoly %s: the round is signing-ready on node %d (%s) but the share machine %d holds is not on the polynomial that node retains", tag, i, st, k))
			}
		}
	}
}

func (a *algRun) c02FaultRun(outDir, tier string) {
	if tier != "thorough" {
		a.c02StorageFault(outDir, 3, 2, a.rng.Intn(3))
		return
	}
	for _, cf := range [][2]int{{3, 2}, {2, 2}, {3, 3}, {4, 3}} {
		for f := 0; f < cf[0]; f++ {
			a.c02StorageFault(outDir, cf[0], cf[1], f)
		}
	}
}
