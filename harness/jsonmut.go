package main

// Structure-aware mutations of the JSON payload of a board message (C18, C10): a value replaced by null or by a value of
// another type, a field removed, a second spelling of a field name (Go's decoder matches names without regard to case,
// the later one wins), nulls inside arrays, numbers no Go int can hold. Every variant is signed again with the sender's
// key, so it passes the signature check and reaches the request decoding, the validation and the round machine.

import (
	"bytes"
	"crypto/ed25519"
	"encoding/json"
	"fmt"
	"sort"
	"strings"

	"github.com/lidofinance/dc4bc/storage"
)

type jsonField struct {
	key string
	val json.RawMessage
}

// orderedFields: the top-level fields of an object in the order they are written
func orderedFields(data []byte) ([]jsonField, bool) {
	dec := json.NewDecoder(bytes.NewReader(data))
	tok, err := dec.Token()
	if err != nil || tok != json.Delim('{') {
		return nil, false
	}
	var out []jsonField
	for dec.More() {
		kt, err := dec.Token()
		if err != nil {
			return nil, false
		}
		k, ok := kt.(string)
		if !ok {
			return nil, false
		}
		var v json.RawMessage
		if err := dec.Decode(&v); err != nil {
			return nil, false
		}
		out = append(out, jsonField{k, v})
	}
	return out, true
}

func writeFields(fs []jsonField) []byte {
	var b bytes.Buffer
	b.WriteByte('{')
	for i, f := range fs {
		if i > 0 {
			b.WriteByte(',')
		}
		kb, _ := json.Marshal(f.key)
		b.Write(kb)
		b.WriteByte(':')
		b.Write(f.val)
	}
	b.WriteByte('}')
	return b.Bytes()
}

func swapCase(s string) string {
	if s == "" {
		return s
	}
	if strings.ToLower(s) != s {
		return strings.ToLower(s)
	}
	return strings.ToUpper(s)
}

type jsonVariant struct {
	name string
	data []byte
	// namesOther: the payload, as the round machine decodes it, names this other participant
	namesOther bool
}

// jsonVariants of a payload; otherPid is a participant id different from the sender's (or -1)
func jsonVariants(data []byte, otherPid int) []jsonVariant {
	var out []jsonVariant
	if bytes.HasPrefix(bytes.TrimSpace(data), []byte("[")) {
		// a top-level array (the signature broadcasts): nulls and wrong types as elements
		var els []json.RawMessage
		if json.Unmarshal(data, &els) == nil {
			for _, repl := range []string{"null", "7", `"s"`, "[]"} {
				bz, _ := json.Marshal(append([]json.RawMessage{json.RawMessage(repl)}, els...))
				out = append(out, jsonVariant{name: "json-array-element:" + repl, data: bz})
			}
		}
		out = append(out, jsonVariant{name: "json-top:null", data: []byte("null")}, jsonVariant{name: "json-top:object", data: []byte("{}")},
			// a list with nothing in it, and one whose only element says nothing
			jsonVariant{name: "json-top:empty-array", data: []byte("[]")}, jsonVariant{name: "json-top:array-of-empty-object", data: []byte("[{}]")})
		return out
	}
	fs, ok := orderedFields(data)
	if !ok {
		return nil
	}
	with := func(i int, v string) []byte {
		c := append([]jsonField(nil), fs...)
		c[i].val = json.RawMessage(v)
		return writeFields(c)
	}
	for i, f := range fs {
		for _, repl := range []string{"null", `"text"`, "12345", "[]", "{}", "true", "1e400", "-1", "9223372036854775808", "1.5", "[null]", `[null,{"x":null}]`} {
			if string(f.val) == repl {
				continue
			}
			out = append(out, jsonVariant{name: "json-value:" + f.key + "=" + repl, data: with(i, repl)})
		}
		c := append(append([]jsonField(nil), fs[:i]...), fs[i+1:]...)
		out = append(out, jsonVariant{name: "json-missing:" + f.key, data: writeFields(c)})
		// arrays: a null element in front, in the middle, a wrong-typed element
		var els []json.RawMessage
		if json.Unmarshal(f.val, &els) == nil && len(f.val) > 0 && f.val[0] == '[' {
			for _, repl := range []string{"null", "7", `"s"`} {
				mid := append(append(append([]json.RawMessage(nil), els[:len(els)/2]...), json.RawMessage(repl)), els[len(els)/2:]...)
				bz, _ := json.Marshal(mid)
				out = append(out, jsonVariant{name: "json-element:" + f.key + "+" + repl, data: with(i, string(bz))})
			}
			if len(els) > 0 {
				all := make([]json.RawMessage, len(els))
				for k := range all {
					all[k] = json.RawMessage("null")
				}
				bz, _ := json.Marshal(all)
				out = append(out, jsonVariant{name: "json-all-null:" + f.key, data: with(i, string(bz))})
			}
		}
		// a second spelling of the name: the decoder takes the later one
		if alt := swapCase(f.key); alt != f.key {
			v := string(f.val)
			names := false
			if f.key == "ParticipantId" && otherPid >= 0 {
				v = fmt.Sprint(otherPid)
				names = true
			} else if len(f.val) > 0 && (f.val[0] == '"' || f.val[0] == '[') {
				v = `"AAAA"`
			} else {
				v = "7"
			}
			after := append(append([]jsonField(nil), fs...), jsonField{alt, json.RawMessage(v)})
			out = append(out, jsonVariant{name: "json-respelled-after:" + f.key, data: writeFields(after), namesOther: names})
			before := append([]jsonField{{alt, json.RawMessage(v)}}, fs...)
			out = append(out, jsonVariant{name: "json-respelled-before:" + f.key, data: writeFields(before)})
			only := append([]jsonField(nil), fs...)
			only[i] = jsonField{alt, json.RawMessage(v)}
			out = append(out, jsonVariant{name: "json-respelled-only:" + f.key, data: writeFields(only), namesOther: names})
		}
	}
	out = append(out, jsonVariant{name: "json-top:null", data: []byte("null")}, jsonVariant{name: "json-top:array", data: []byte("[]")},
		jsonVariant{name: "json-top:empty-object", data: []byte("{}")}, jsonVariant{name: "json-top:nested", data: []byte(`{"a":{"b":[{"c":null}]}}`)})
	sort.SliceStable(out, func(i, j int) bool { return out[i].name < out[j].name })
	return out
}

// signedVariant: the message with this payload, signed by key (nil: left unsigned)
func signedVariant(m storage.Message, data []byte, key ed25519.PrivateKey) storage.Message {
	x := m
	x.Data = append([]byte(nil), data...)
	x.Signature = nil
	if key != nil {
		x.Signature = ed25519.Sign(key, x.Data)
	}
	return x
}
