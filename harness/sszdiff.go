package main

// sszdiff: wc_rotation.GetSigningRoot, requests.ReconstructBakedMessage, requests.TasksToMessages
// on all baked positions, boundary and random inputs; observations in the grammar of
// lean/Driver/SszDriver.lean. Also an independent Go re-computation of the consensus-spec
// signing root (plain crypto/sha256, no fastssz) used as implementation-side monitor.

import (
	"bufio"
	"bytes"
	"context"
	"crypto/sha256"
	"encoding/binary"
	"encoding/hex"
	"encoding/json"
	"fmt"
	"math"
	"math/rand"
	"os"
	"os/exec"
	"path/filepath"
	"sort"
	"strings"
	"sync"
	"syscall"
	"time"

	"github.com/lidofinance/dc4bc/fsm/types/requests"
	"github.com/lidofinance/dc4bc/pkg/wc_rotation"
)

type sszStats struct {
	Ops, Roots, Baked, Tasks, Shas, ConcurrentFirst int
	OutcomeHist                    map[string]int
	Monitors                       []string
	Samples                        []string
	DistinctRoots                  int
	BakedExhaustive                bool
}

func h2(a, b []byte) []byte {
	s := sha256.Sum256(append(append([]byte{}, a...), b...))
	return s[:]
}

func pad32(b []byte) []byte {
	out := make([]byte, 32)
	copy(out, b)
	return out
}

// specSigningRoot: compute_signing_root(BLSToExecutionChange(idx, key, addr), compute_domain(0x0A000000, 0x00000000, gvr))
// written directly from the consensus spec with the constants spelled out here (NOT taken from the package).
func specSigningRoot(idx uint64) []byte {
	gvr, _ := hex.DecodeString("4b363db94e286120d76eb905340fdd4e54bfe9f06bf33ff6cf5ad27f511bfe95")
	key, _ := hex.DecodeString("b67aca71f04b673037b54009b760f1961f3836e5714141c892afdb75ec0834dce6784d9c72ed8ad7db328cff8fe9f13e")
	addr, _ := hex.DecodeString("b9d7934878b5fb9610b3fe8a5e441e8fad7e293f")
	forkDataRoot := h2(pad32([]byte{0, 0, 0, 0}), gvr)
	domain := append([]byte{0x0a, 0, 0, 0}, forkDataRoot[:28]...)
	le := make([]byte, 8)
	binary.LittleEndian.PutUint64(le, idx)
	keyRoot := h2(key[:32], pad32(key[32:]))
	zero := make([]byte, 32)
	objRoot := h2(h2(pad32(le), keyRoot), h2(pad32(addr), zero))
	return h2(objRoot, domain)
}

func rMsgGo(m requests.MessageToSign) string {
	flag := "plain"
	if m.BakedDataPayload {
		flag = "baked"
	}
	return strings.Join([]string{hs(m.File), hs(m.MessageID), hx(m.Payload), flag}, ":")
}

func safeBaked(pos int) (ob string) {
	defer func() {
		if r := recover(); r != nil {
			ob = "panic"
		}
	}()
	m, err := requests.ReconstructBakedMessage(pos)
	if err != nil {
		return "err"
	}
	return "ok " + rMsgGo(m)
}

func safeTasks(ts []requests.SigningTask) (ob string) {
	defer func() {
		if r := recover(); r != nil {
			ob = "panic"
		}
	}()
	if bz, err := json.Marshal(ts); err == nil {
		probe("requests.TasksToMessages(" + string(bz) + ")")
	}
	ms, err := requests.TasksToMessages(ts)
	if err != nil {
		return "err"
	}
	parts := make([]string, len(ms))
	for i, m := range ms {
		parts[i] = rMsgGo(m)
	}
	return "ok (" + strings.Join(parts, ";") + ")"
}

// expandInChild runs one expansion in a child process; died is non-empty when the child did not live to answer
func expandInChild(ts []requests.SigningTask) (ob string, died string) {
	bz, err := json.Marshal(ts)
	if err != nil {
		return "err", ""
	}
	self, err := os.Executable()
	if err != nil {
		return safeTasks(ts), ""
	}
	ctx, cancel := context.WithTimeout(context.Background(), 10*time.Minute)
	defer cancel()
	cmd := exec.CommandContext(ctx, self, "expandtasks", string(bz))
	var stderr bytes.Buffer
	cmd.Stderr = &stderr
	out, err := cmd.Output()
	line := strings.TrimSpace(string(out))
	if err == nil && (line == "err" || line == "panic" || strings.HasPrefix(line, "ok ")) {
		return line, ""
	}
	why := "no answer"
	if ctx.Err() != nil {
		why = "no answer within ten minutes"
	}
	for _, l := range strings.Split(stderr.String(), "\n") {
		if strings.HasPrefix(l, "fatal error") || strings.HasPrefix(l, "panic:") || strings.Contains(l, "out of memory") || strings.Contains(l, "cannot allocate") {
			why = strings.TrimSpace(l)
			break
		}
	}
	return "panic", fmt.Sprintf("%s (%v)", why, err)
}

// runExpandTasks: the child side of expandInChild
func runExpandTasks(arg string) {
	// 12 GB of address space: the built-in list has 18632 entries; an expansion that needs more is not going to stop
	var lim syscall.Rlimit
	if syscall.Getrlimit(syscall.RLIMIT_AS, &lim) == nil {
		lim.Cur = 12 << 30
		syscall.Setrlimit(syscall.RLIMIT_AS, &lim)
	}
	var ts []requests.SigningTask
	if err := json.Unmarshal([]byte(arg), &ts); err != nil {
		fmt.Println("err")
		return
	}
	fmt.Println(safeTasks(ts))
}

func runSszDiff(outDir string, seed int64, tier string) {
	os.MkdirAll(outDir, 0o755)
	fo, _ := os.Create(filepath.Join(outDir, "ops.txt"))
	fb, _ := os.Create(filepath.Join(outDir, "go_obs.txt"))
	ops := bufio.NewWriterSize(fo, 1<<20)
	obs := bufio.NewWriterSize(fb, 1<<20)
	st := &sszStats{OutcomeHist: map[string]int{}}
	rng := rand.New(rand.NewSource(seed))
	emit := func(op, ob string) {
		fmt.Fprintln(ops, op)
		fmt.Fprintln(obs, ob)
		st.Ops++
		st.OutcomeHist[strings.SplitN(op, " ", 2)[0]+"/"+strings.SplitN(ob, " ", 2)[0][:minInt(5, len(strings.SplitN(ob, " ", 2)[0]))]]++
		if len(st.Samples) < 8 && st.Ops%4001 == 1 {
			st.Samples = append(st.Samples, op+" => "+truncate(ob, 200))
		}
	}
	// the embedded file vs the generated run table
	fsum := sha256.Sum256([]byte(wc_rotation.ValidatorsIndexes))
	fields := strings.Split(wc_rotation.ValidatorsIndexes, "\n")
	emit("bakedfile", fmt.Sprintf("%d %s %s", len(fields), hex.EncodeToString(fsum[:]), hex.EncodeToString(fsum[:])))
	// the FIRST baked lookups of this process are made by 16 goroutines at once (several nodes in one process, an API request
	// beside the poller): whatever the implementation keeps between calls is filled under contention. What each goroutine got is
	// written down as ordinary `baked` operations (the model must agree), and every position is compared with the model below,
	// in this same process
	{
		type got struct {
			pos int
			ob  string
		}
		var wg sync.WaitGroup
		var mu sync.Mutex
		var all []got
		start := make(chan struct{})
		for g := 0; g < 16; g++ {
			wg.Add(1)
			go func(g int) {
				defer wg.Done()
				<-start
				var mine []got
				for k := 0; k < 24; k++ {
					pos := (g*1163 + k*4673) % 18640
					mine = append(mine, got{pos, safeBaked(pos)})
				}
				mu.Lock()
				all = append(all, mine...)
				mu.Unlock()
			}(g)
		}
		close(start)
		wg.Wait()
		sort.Slice(all, func(i, j int) bool { return all[i].pos < all[j].pos })
		for _, x := range all {
			emit(fmt.Sprintf("baked %d", x.pos), x.ob)
			st.ConcurrentFirst++
		}
	}
	// sha-256 model vs crypto/sha256
	for i := 0; i < 300; i++ {
		n := rng.Intn(200)
		if i < 130 {
			n = i
		}
		b := make([]byte, n)
		rng.Read(b)
		s := sha256.Sum256(b)
		emit("sha "+hx(b), hex.EncodeToString(s[:]))
		st.Shas++
	}
	// roots: special, per-byte patterns, random
	idxs := []uint64{0, 1, 2, 255, 256, 65535, 65536, 1<<32 - 1, 1 << 32, 1<<63 - 1, 1 << 63, math.MaxUint64, 52694, 193855}
	for b := 0; b < 8; b++ {
		idxs = append(idxs, uint64(0xff)<<(8*uint(b)), uint64(1)<<(8*uint(b)), uint64(0x80)<<(8*uint(b)))
	}
	nr := 3000
	if tier == "thorough" {
		nr = 100000
	}
	for i := 0; i < nr; i++ {
		switch rng.Intn(3) {
		case 0:
			idxs = append(idxs, rng.Uint64())
		case 1:
			idxs = append(idxs, uint64(rng.Intn(2000000)))
		default:
			idxs = append(idxs, rng.Uint64()>>uint(rng.Intn(64)))
		}
	}
	// the function is pure: the same index gives the same root whatever was asked before. Sequences that would collide in any
	// table keyed by the low bits of the index (i, i+2^k, i again, …), and every special index asked a second time at the end
	for _, k := range []uint{4, 8, 10, 12, 16, 20, 24, 32, 48} {
		for j := 0; j < 3; j++ {
			i := uint64(rng.Intn(1 << 20))
			if j == 0 {
				i = 0
			}
			idxs = append(idxs, i, i+1<<k, i, i+3<<k, i+1<<k, i)
		}
	}
	idxs = append(idxs, 0, 1, 65536, 1<<32, 52694)
	seenRoots := map[string]bool{}
	for _, idx := range idxs {
		r, err := wc_rotation.GetSigningRoot(idx)
		ob := hex.EncodeToString(r[:])
		if err != nil {
			ob = "err"
		}
		emit(fmt.Sprintf("root %d", idx), ob)
		st.Roots++
		seenRoots[ob] = true
		if want := hex.EncodeToString(specSigningRoot(idx)); want != ob {
			st.Monitors = append(st.Monitors, fmt.Sprintf("C17 code_eq_spec: GetSigningRoot(%d) = %s, consensus-spec signing root = %s", idx, ob, want))
		}
	}
	st.DistinctRoots = len(seenRoots)
	// all baked positions, exhaustively, and the boundaries
	seenIdx := map[string]int{}
	bakedRef := map[int]string{} // position ↦ rendering of the message, recorded before any proposal is expanded
	for pos := 0; pos < len(fields)+2; pos++ {
		ob := safeBaked(pos)
		if strings.HasPrefix(ob, "ok ") {
			if m, err := requests.ReconstructBakedMessage(pos); err == nil {
				bakedRef[pos] = rMsgGo(m)
			}
		}
		emit(fmt.Sprintf("baked %d", pos), ob)
		st.Baked++
		inList := pos < 18632
		if inList {
			if !strings.HasPrefix(ob, "ok ") {
				st.Monitors = append(st.Monitors, fmt.Sprintf("C17 baked_wellformed: position %d gives %s", pos, ob))
			} else {
				m, _ := requests.ReconstructBakedMessage(pos)
				var v uint64
				if _, err := fmt.Sscanf(m.MessageID, "%d", &v); err != nil || fmt.Sprint(v) != m.MessageID {
					st.Monitors = append(st.Monitors, fmt.Sprintf("C17 baked_wellformed: position %d has malformed index %q", pos, m.MessageID))
				} else {
					if prev, dup := seenIdx[m.MessageID]; dup {
						st.Monitors = append(st.Monitors, fmt.Sprintf("C17 baked_nodup: validator index %s at positions %d and %d", m.MessageID, prev, pos))
					}
					seenIdx[m.MessageID] = pos
					if want := specSigningRoot(v); hex.EncodeToString(want) != hex.EncodeToString(m.Payload) {
						st.Monitors = append(st.Monitors, fmt.Sprintf("C17 code_eq_spec: baked position %d (validator %d) payload %x, spec root %x", pos, v, m.Payload, want))
					}
				}
			}
		} else if ob != "err" {
			st.Monitors = append(st.Monitors, fmt.Sprintf("C17 out_of_range_refused: position %d gives %s", pos, truncate(ob, 120)))
		}
		if pos%97 == 0 || pos > 18600 {
			emit(fmt.Sprintf("bakedmodel %d", pos), ob)
		}
	}
	st.BakedExhaustive = true
	for _, pos := range []int{-1, -2, -18632, -18633, math.MinInt64, math.MinInt32, 18633, 18634, 100000, math.MaxInt32, math.MaxInt64} {
		ob := safeBaked(pos)
		emit(fmt.Sprintf("baked %d", pos), ob)
		emit(fmt.Sprintf("bakedmodel %d", pos), ob)
		st.Baked++
		if ob != "err" {
			st.Monitors = append(st.Monitors, fmt.Sprintf("C17 out_of_range_refused: position %d gives %s", pos, truncate(ob, 120)))
		}
	}
	// task lists: mixed explicit payloads and ranges (C03)
	nt := 400
	if tier == "thorough" {
		nt = 6000
	}
	names := []string{"m1", "m2", "file name.txt", "ünï—cødé", "a/b\\c", "", "dup", "dup", "<html>&\"", "x y  z"}
	for i := 0; i < nt; i++ {
		k := 1 + rng.Intn(4)
		var ts []requests.SigningTask
		toks := []string{"tasks", fmt.Sprint(k)}
		for j := 0; j < k; j++ {
			t := requests.SigningTask{MessageID: names[rng.Intn(len(names))], File: names[rng.Intn(len(names))]}
			switch rng.Intn(6) {
			case 0, 1, 2:
				t.Payload = make([]byte, rng.Intn(40))
				rng.Read(t.Payload)
			case 3:
				t.Payload = []byte{}
			default:
				start := rng.Intn(18640) - 3
				ln := rng.Intn(6) - 1
				if rng.Intn(8) == 0 {
					start = 18630 + rng.Intn(5)
				}
				if rng.Intn(25) == 0 {
					start = -1 - rng.Intn(3)
				}
				t.RangeStart, t.RangeEnd = start, start+ln
			}
			ts = append(ts, t)
			pl := "-"
			if t.Payload != nil {
				pl = hx(t.Payload)
			}
			toks = append(toks, hs(t.MessageID), hs(t.File), pl, fmt.Sprint(t.RangeStart), fmt.Sprint(t.RangeEnd))
		}
		ob := safeTasks(ts)
		if strings.HasPrefix(ob, "panic") {
			st.Monitors = append(st.Monitors, fmt.Sprintf("C18 never_panics: TasksToMessages panicked on %s", truncate(strings.Join(toks, " "), 200)))
		}
		// C03: the expansion is the concatenation, task by task, of the explicit message or of the baked entries of the range —
		// whatever was expanded before in this process
		if strings.HasPrefix(ob, "ok ") {
			var want []string
			known := true
			for _, t := range ts {
				if t.Payload != nil {
					want = append(want, rMsgGo(requests.MessageToSign{File: t.File, MessageID: t.MessageID, Payload: t.Payload}))
					continue
				}
				for i := t.RangeStart; i < t.RangeEnd; i++ {
					r, ok := bakedRef[i]
					if !ok {
						known = false
					}
					want = append(want, r)
				}
			}
			if wantOb := "ok (" + strings.Join(want, ";") + ")"; known && wantOb != ob {
				st.Monitors = append(st.Monitors, fmt.Sprintf("C03 expansion_exact: TasksToMessages on %s gives %s, task by task it is %s", truncate(strings.Join(toks, " "), 200), truncate(ob, 300), truncate(wantOb, 300)))
			}
		}
		emit(strings.Join(toks, " "), ob)
		st.Tasks++
	}
	// C18: ranges nobody would propose: reversed, negative, astronomically large (the expansion is run by every
	// node on every proposal and by the airgapped machine on every signing request, without Validate())
	big := []int{math.MaxInt64, math.MaxInt64 - 1, math.MinInt64, math.MinInt64 + 1, math.MaxInt32, math.MinInt32, 1 << 40, -(1 << 40), 18632, 18631, 0, -1, 5}
	curated := map[[2]int]bool{{math.MaxInt64, 0}: true, {5, 0}: true, {0, -1}: true, {math.MinInt64, math.MaxInt64}: true, {0, math.MaxInt64}: true,
		{18631, math.MaxInt64}: true, {18632, math.MaxInt64}: true, {-1, 5}: true, {math.MaxInt64 - 1, math.MaxInt64}: true,
		{math.MinInt64, math.MinInt64 + 1}: true, {1 << 40, math.MaxInt64}: true, {18631, 1 << 40}: true, {math.MaxInt32, math.MinInt32}: true}
	for _, a := range big {
		for _, b := range big {
			if tier != "thorough" && !curated[[2]int{a, b}] {
				continue
			}
			ts := []requests.SigningTask{{MessageID: "r", File: "f", RangeStart: a, RangeEnd: b}}
			if rng.Intn(3) == 0 {
				ts = append([]requests.SigningTask{{MessageID: "p", File: "f", Payload: []byte{1}}}, ts...)
			}
			toks := []string{"tasks", fmt.Sprint(len(ts))}
			for _, t := range ts {
				pl := "-"
				if t.Payload != nil {
					pl = hx(t.Payload)
				}
				toks = append(toks, hs(t.MessageID), hs(t.File), pl, fmt.Sprint(t.RangeStart), fmt.Sprint(t.RangeEnd))
			}
			// a range that is not refused where it leaves the list would be expanded until memory runs out, which ends a
			// process as surely as a panic and cannot be caught inside it: the call runs in a child process with a capped
			// address space and a time limit
			ob, died := expandInChild(ts)
			if died != "" {
				st.Monitors = append(st.Monitors, fmt.Sprintf("C18 never_panics: TasksToMessages on the range [%d,%d) ends the process: %s", a, b, died))
				st.Monitors = append(st.Monitors, fmt.Sprintf("C17 out_of_range_refused: the range [%d,%d) leaves the built-in list and is not refused with an error: the expansion ends the process (%s)", a, b, died))
				ob = "panic"
			}
			if strings.HasPrefix(ob, "panic") {
				st.Monitors = append(st.Monitors, fmt.Sprintf("C18 never_panics: TasksToMessages panicked on the range [%d,%d)", a, b))
				st.Monitors = append(st.Monitors, fmt.Sprintf("C17 out_of_range_refused: the range [%d,%d) leaves the built-in list and is not refused with an error: the expansion panics", a, b))
			}
			emit(strings.Join(toks, " "), ob)
			st.Tasks++
		}
	}
	ops.Flush()
	obs.Flush()
	fo.Close()
	fb.Close()
	writeJSON(filepath.Join(outDir, "stats.json"), st)
	fmt.Printf("sszdiff: ops=%d roots=%d baked=%d tasks=%d monitors=%d\n", st.Ops, st.Roots, st.Baked, st.Tasks, len(st.Monitors))
}

func minInt(a, b int) int {
	if a < b {
		return a
	}
	return b
}
