package main

// Canonical rendering of real dc4bc objects, same grammar as lean/Dc4bcVerif/Model/Render.lean.

import (
	"encoding/hex"
	"encoding/json"
	"fmt"
	"sort"
	"strings"
	"time"

	"github.com/lidofinance/dc4bc/fsm/types/requests"
	"github.com/lidofinance/dc4bc/fsm/types/responses"
)

func hx(b []byte) string   { return "x" + hex.EncodeToString(b) }
func hs(s string) string   { return "x" + hex.EncodeToString([]byte(s)) }
func rTime(t time.Time) string {
	if t.IsZero() {
		return "z"
	}
	return fmt.Sprintf("%d", t.UnixNano())
}

func rOptErr(e *requests.FSMError) string {
	if e == nil {
		return "-"
	}
	return hs(e.ErrorMsg)
}

func rTask(t requests.SigningTask) string {
	pl := "-"
	if t.Payload != nil {
		pl = hx(t.Payload)
	}
	return strings.Join([]string{hs(t.MessageID), hs(t.File), pl, fmt.Sprint(t.RangeStart), fmt.Sprint(t.RangeEnd)}, ":")
}

func rTasks(ts []requests.SigningTask) string {
	parts := make([]string, len(ts))
	for i, t := range ts {
		parts[i] = rTask(t)
	}
	return "(" + strings.Join(parts, ";") + ")"
}

func rTasksJSON(src []byte) string {
	if len(src) == 0 {
		return "()"
	}
	var ts []requests.SigningTask
	if err := json.Unmarshal(src, &ts); err != nil {
		return "(!bad-json)"
	}
	return rTasks(ts)
}

func rMapBytes(m map[string][]byte) string {
	keys := make([]string, 0, len(m))
	for k := range m {
		keys = append(keys, hex.EncodeToString([]byte(k)))
	}
	sort.Strings(keys)
	parts := make([]string, len(keys))
	for i, k := range keys {
		raw, _ := hex.DecodeString(k)
		parts[i] = "x" + k + "=x" + hex.EncodeToString(m[string(raw)])
	}
	return "{" + strings.Join(parts, ",") + "}"
}

func rMapInt(m map[string]int) string {
	keys := make([]string, 0, len(m))
	for k := range m {
		keys = append(keys, hex.EncodeToString([]byte(k)))
	}
	sort.Strings(keys)
	parts := make([]string, len(keys))
	for i, k := range keys {
		raw, _ := hex.DecodeString(k)
		parts[i] = fmt.Sprintf("x%s=%d", k, m[string(raw)])
	}
	return "{" + strings.Join(parts, ",") + "}"
}

// mirror of state_machines.FSMDump as persisted (JSON)
type mDump struct {
	TransactionId string
	State         string
	Payload       *mPayload
}

type mPayload struct {
	DkgId                    string
	Threshold                int
	SignatureProposalPayload *mSig
	DKGProposalPayload       *mDkg
	SigningProposalPayload   *mSign
	PubKeys                  map[string][]byte
	IDs                      map[string]int
}

type mSig struct {
	Quorum    map[int]*mSigPart
	CreatedAt time.Time
	UpdatedAt time.Time
	ExpiresAt time.Time
}
type mSigPart struct {
	ParticipantID    int
	Username         string
	PubKey           []byte
	DkgPubKey        []byte
	InvitationSecret string
	Status           uint8
	Threshold        int
	UpdatedAt        time.Time
}
type mDkg struct {
	Quorum    map[int]*mDkgPart
	CreatedAt time.Time
	UpdatedAt time.Time
	ExpiresAt time.Time
	PubPolyBz []byte
}
type mDkgPart struct {
	ParticipantID int
	Username      string
	DkgPubKey     []byte
	DkgCommit     []byte
	DkgDeal       []byte
	DkgResponse   []byte
	DkgMasterKey  []byte
	Status        uint8
	Error         *requests.FSMError
	UpdatedAt     time.Time
}
type mSign struct {
	BatchID          string
	InitiatorId      int
	Quorum           map[int]*mSignPart
	RecoveredKey     []byte
	SrcPayload       []byte
	EncryptedPayload []byte
	CreatedAt        time.Time
	UpdatedAt        time.Time
	ExpiresAt        time.Time
}
type mSignPart struct {
	ParticipantID int
	Username      string
	Status        uint8
	PartialSigns  map[string][]byte
	Error         *requests.FSMError
	UpdatedAt     time.Time
}

func sortedKeys[T any](m map[int]T) ([]int, bool) {
	ks := make([]int, 0, len(m))
	for k := range m {
		ks = append(ks, k)
	}
	sort.Ints(ks)
	dense := true
	for i, k := range ks {
		if k != i {
			dense = false
		}
	}
	return ks, dense
}

func rDumpBytes(bz []byte) string {
	var d mDump
	if err := json.Unmarshal(bz, &d); err != nil {
		return "D{!bad-json " + err.Error() + "}"
	}
	return rDump(&d)
}

func rDump(d *mDump) string {
	st := d.State
	if st == "" {
		st = `""`
	}
	p := d.Payload
	var b strings.Builder
	fmt.Fprintf(&b, "D{st=%s id=%s thr=%d sig=", st, hs(p.DkgId), p.Threshold)
	if p.SignatureProposalPayload == nil {
		b.WriteString("nil")
	} else {
		c := p.SignatureProposalPayload
		ks, dense := sortedKeys(c.Quorum)
		parts := make([]string, len(ks))
		for i, k := range ks {
			q := c.Quorum[k]
			parts[i] = strings.Join([]string{hs(q.Username), fmt.Sprint(q.Status), fmt.Sprint(q.Threshold), rTime(q.UpdatedAt), hx(q.PubKey), hx(q.DkgPubKey)}, ":")
		}
		if !dense {
			parts = append(parts, "!non-dense-ids")
		}
		fmt.Fprintf(&b, "[c=%s u=%s e=%s q=(%s)]", rTime(c.CreatedAt), rTime(c.UpdatedAt), rTime(c.ExpiresAt), strings.Join(parts, ";"))
	}
	b.WriteString(" dkg=")
	if p.DKGProposalPayload == nil {
		b.WriteString("nil")
	} else {
		c := p.DKGProposalPayload
		ks, dense := sortedKeys(c.Quorum)
		parts := make([]string, len(ks))
		for i, k := range ks {
			q := c.Quorum[k]
			parts[i] = strings.Join([]string{hs(q.Username), fmt.Sprint(q.Status), rTime(q.UpdatedAt), hx(q.DkgPubKey), hx(q.DkgCommit), hx(q.DkgDeal), hx(q.DkgResponse), hx(q.DkgMasterKey), rOptErr(q.Error)}, ":")
		}
		if !dense {
			parts = append(parts, "!non-dense-ids")
		}
		fmt.Fprintf(&b, "[c=%s u=%s e=%s poly=%s q=(%s)]", rTime(c.CreatedAt), rTime(c.UpdatedAt), rTime(c.ExpiresAt), hx(c.PubPolyBz), strings.Join(parts, ";"))
	}
	b.WriteString(" sign=")
	if p.SigningProposalPayload == nil {
		b.WriteString("nil")
	} else {
		c := p.SigningProposalPayload
		ks, dense := sortedKeys(c.Quorum)
		parts := make([]string, len(ks))
		for i, k := range ks {
			q := c.Quorum[k]
			parts[i] = strings.Join([]string{hs(q.Username), fmt.Sprint(q.Status), rTime(q.UpdatedAt), rOptErr(q.Error), rMapBytes(q.PartialSigns)}, ":")
		}
		if !dense {
			parts = append(parts, "!non-dense-ids")
		}
		fmt.Fprintf(&b, "[batch=%s init=%d c=%s u=%s e=%s src=%s q=(%s)]", hs(c.BatchID), c.InitiatorId, rTime(c.CreatedAt), rTime(c.UpdatedAt), rTime(c.ExpiresAt), rTasksJSON(c.SrcPayload), strings.Join(parts, ";"))
	}
	fmt.Fprintf(&b, " keys=%s ids=%s}", rMapBytes(p.PubKeys), rMapInt(p.IDs))
	return b.String()
}

func rResp(data interface{}) string {
	if data == nil {
		return "nil"
	}
	switch v := data.(type) {
	case responses.SignatureProposalParticipantInvitationsResponse:
		parts := make([]string, len(v))
		for i, e := range v {
			parts[i] = strings.Join([]string{fmt.Sprint(e.ParticipantId), hs(e.Username), fmt.Sprint(e.Threshold), hx(e.DkgPubKey), hx(e.PubKey)}, ":")
		}
		return "sigInv(" + strings.Join(parts, ";") + ")"
	case responses.SignatureProposalParticipantStatusResponse:
		// built by ranging over a map: canonicalise by id
		es := append([]*responses.SignatureProposalParticipantStatusEntry(nil), v...)
		sort.Slice(es, func(i, j int) bool { return es[i].ParticipantId < es[j].ParticipantId })
		parts := make([]string, len(es))
		for i, e := range es {
			parts[i] = strings.Join([]string{fmt.Sprint(e.ParticipantId), hs(e.Username), fmt.Sprint(e.Status)}, ":")
		}
		return "sigStat(" + strings.Join(parts, ";") + ")"
	case responses.DKGProposalPubKeysParticipantResponse:
		parts := make([]string, len(v))
		for i, e := range v {
			parts[i] = strings.Join([]string{fmt.Sprint(e.ParticipantId), hs(e.Username), hx(e.DkgPubKey), fmt.Sprint(e.Threshold)}, ":")
		}
		return "dkgKeys(" + strings.Join(parts, ";") + ")"
	case responses.DKGProposalCommitParticipantResponse:
		parts := make([]string, len(v))
		for i, e := range v {
			parts[i] = strings.Join([]string{fmt.Sprint(e.ParticipantId), hs(e.Username), hx(e.DkgCommit)}, ":")
		}
		return "dkgCommits(" + strings.Join(parts, ";") + ")"
	case responses.DKGProposalDealParticipantResponse:
		parts := make([]string, len(v))
		for i, e := range v {
			parts[i] = strings.Join([]string{fmt.Sprint(e.ParticipantId), hs(e.Username), hx(e.DkgDeal)}, ":")
		}
		return "dkgDeals(" + strings.Join(parts, ";") + ")"
	case responses.DKGProposalResponseParticipantResponse:
		parts := make([]string, len(v))
		for i, e := range v {
			parts[i] = strings.Join([]string{fmt.Sprint(e.ParticipantId), hs(e.Username), hx(e.DkgResponse)}, ":")
		}
		return "dkgResps(" + strings.Join(parts, ";") + ")"
	case responses.SigningPartialSignsParticipantInvitationsResponse:
		parts := make([]string, len(v.Participants))
		for i, e := range v.Participants {
			parts[i] = strings.Join([]string{fmt.Sprint(e.ParticipantId), hs(e.Username), fmt.Sprint(e.Status)}, ":")
		}
		return "signInv(" + hs(v.BatchID) + " " + fmt.Sprint(v.InitiatorId) + " " + strings.Join(parts, ";") + " " + rTasksJSON(v.SrcPayload) + ")"
	case responses.SigningProcessParticipantResponse:
		parts := make([]string, len(v.Participants))
		for i, e := range v.Participants {
			parts[i] = strings.Join([]string{fmt.Sprint(e.ParticipantId), hs(e.Username), rMapBytes(e.PartialSigns)}, ":")
		}
		return "signProc(" + hs(v.BatchID) + " " + rTasksJSON(v.SrcPayload) + " " + strings.Join(parts, ";") + ")"
	}
	return fmt.Sprintf("!unknown-resp-type-%T", data)
}
