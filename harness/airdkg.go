package main

// airdkg: every key-generation operation a real airgapped machine handles during the ceremonies of algdiff is written
// down in the abstract form of lean/Dc4bcVerif/Model/AirDkg.lean (points as their discrete logarithms, ciphertexts as
// what their addressee obtains, signatures as whether they verify, session ids as what they hash) together with what
// the machine answered; the compiled Lean model is run on the same lines and must give the same answers
// (bin/check: stream airdkg_ops.txt / airdkg_obs.txt, driver mode `airdkg`).
//
// The discrete logarithms are known to the harness because it reads every dealer's coefficients through the verif hooks
// and makes the forged points of the deviating-dealer scenarios itself. An operation that carries a point, a session id
// or a shape the harness cannot translate is not written down and the machine's round is left alone from then on
// (counted as skipped); so is a round after a refused responses / master-key step, where the real machine's state
// depends on Go's map iteration order (Props/C12Air.lean: the answer does not).

import (
	"bufio"
	"encoding/binary"
	"encoding/hex"
	"encoding/json"
	"fmt"
	"os"
	"sort"
	"strings"

	"github.com/corestario/kyber"
	"github.com/corestario/kyber/encrypt/ecies"
	dkgPedersen "github.com/corestario/kyber/share/dkg/pedersen"
	vssPedersen "github.com/corestario/kyber/share/vss/pedersen"
	"github.com/corestario/kyber/sign/schnorr"

	"github.com/lidofinance/dc4bc/airgapped"
	"github.com/lidofinance/dc4bc/client/types"
	"github.com/lidofinance/dc4bc/dkg"
	"github.com/lidofinance/dc4bc/fsm/types/requests"
	"github.com/lidofinance/dc4bc/fsm/types/responses"
)

type airTraceStats struct {
	Restarts int
	Replayed int
	Ops      int
	ByKind   map[string]int
	Outcomes map[string]int
	Skipped  int
	SkipWhy  map[string]int
	Machines int
	// reinit_dkg operations: entries handed to the shadow machines, entries the handler passes over
	ReinitEntries    int
	ReinitPassedOver int
	// entries of an unknown type in hand-made payloads; hand-made payloads handed to fresh machines
	ReinitFailingEntries int
	CraftedReinits       int
}

type airTrace struct {
	ops, obs *bufio.Writer
	keyIDs   map[string]int
	scal     map[string]string // point (hex) -> discrete logarithm (hex, 32 bytes)
	sids     map[string]string // session id (hex) -> "dealer t len c…"
	junk     int
	machines map[*airgapped.Machine]int
	tainted  map[string]bool
	polys    map[string]map[int][]kyber.Scalar // round -> machine -> dealer coefficients
	st       airTraceStats
	// the last line written (operation, observation)
	lastOp, lastOb string
	signSeen       map[string]int
	// machine/round -> the last `reinit` line written for it and the real machine's answer
	lastReinit map[string][2]string
}

func newAirTrace(ops, obs *bufio.Writer) *airTrace {
	return &airTrace{ops: ops, obs: obs, keyIDs: map[string]int{}, scal: map[string]string{}, sids: map[string]string{},
		machines: map[*airgapped.Machine]int{}, tainted: map[string]bool{}, polys: map[string]map[int][]kyber.Scalar{}, signSeen: map[string]int{}, lastReinit: map[string][2]string{},
		st: airTraceStats{ByKind: map[string]int{}, Outcomes: map[string]int{}, SkipWhy: map[string]int{}}}
}

func (t *airTrace) emit(op, ob string) {
	fmt.Fprintln(t.ops, op)
	fmt.Fprintln(t.obs, ob)
	t.st.Ops++
	t.lastOp, t.lastOb = op, ob
}

// rebind: the machine was stopped and opened again from its database: the same machine to the model (`stop`)
func (t *airTrace) rebind(old, reopened *airgapped.Machine) (int, bool) {
	id, ok := t.machines[old]
	if !ok {
		return 0, false
	}
	delete(t.machines, old)
	t.machines[reopened] = id
	return id, true
}

func (t *airTrace) isTainted(m *airgapped.Machine, round string) bool {
	id, ok := t.machines[m]
	return ok && t.tainted[fmt.Sprintf("%d/%s", id, round)]
}

func (t *airTrace) flush() { t.ops.Flush(); t.obs.Flush() }

func pointHex(p kyber.Point) string {
	bz, _ := p.MarshalBinary()
	return hex.EncodeToString(bz)
}

func (t *airTrace) keyID(p kyber.Point) int {
	h := pointHex(p)
	if id, ok := t.keyIDs[h]; ok {
		return id
	}
	id := len(t.keyIDs) + 1
	t.keyIDs[h] = id
	return id
}

// knownScalar registers s·G -> s
func (t *airTrace) knownScalar(s kyber.Scalar) {
	p := eciesSuite.Point().Mul(s, nil)
	t.scal[pointHex(p)] = scalarHex(s)
}

func (t *airTrace) machineID(m *airgapped.Machine) int {
	if id, ok := t.machines[m]; ok {
		return id
	}
	id := len(t.machines) + 1
	t.machines[m] = id
	t.st.Machines++
	t.emit(fmt.Sprintf("new %d %d", id, t.keyID(m.GetPubKey())), "ok")
	return id
}

func strTok(s string) string { return "x" + hex.EncodeToString([]byte(s)) }

// scalars of a list of points; ok=false if one is unknown
func (t *airTrace) scalarsOf(ps []kyber.Point) (string, bool) {
	toks := []string{fmt.Sprint(len(ps))}
	for _, p := range ps {
		s, ok := t.scal[pointHex(p)]
		if !ok {
			return "", false
		}
		toks = append(toks, "x"+s)
	}
	return strings.Join(toks, " "), true
}

// sessionID as share/vss/pedersen computes it (unexported there)
func vssSessionID(dealer kyber.Point, verifiers, commitments []kyber.Point, thr int) []byte {
	h := eciesSuite.Hash()
	_, _ = dealer.MarshalTo(h)
	for _, v := range verifiers {
		_, _ = v.MarshalTo(h)
	}
	for _, c := range commitments {
		_, _ = c.MarshalTo(h)
	}
	_ = binary.Write(h, binary.LittleEndian, uint32(thr))
	return h.Sum(nil)
}

func (t *airTrace) sidTok(sid []byte) string {
	if s, ok := t.sids[hex.EncodeToString(sid)]; ok {
		return s
	}
	t.junk++
	s := fmt.Sprintf("%d %d 0", 900+t.junk, 1000+t.junk)
	t.sids[hex.EncodeToString(sid)] = s
	return s
}

func (t *airTrace) skip(key, why string) {
	t.tainted[key] = true
	t.st.Skipped++
	t.st.SkipWhy[why]++
}

func parsePoints(bzs [][]byte) ([]kyber.Point, bool) {
	var out []kyber.Point
	for _, bz := range bzs {
		p := eciesSuite.Point()
		if err := p.UnmarshalBinary(bz); err != nil {
			return nil, false
		}
		out = append(out, p)
	}
	return out, true
}

func b01(b bool) string {
	if b {
		return "1"
	}
	return "0"
}

// sums of the known dealer polynomials of a round (the group's public polynomial in the exponent)
func (t *airTrace) registerSums(round string) {
	var sum []kyber.Scalar
	for _, cs := range t.polys[round] {
		if sum == nil {
			sum = make([]kyber.Scalar, len(cs))
			for i := range sum {
				sum[i] = eciesSuite.Scalar().Zero()
			}
		}
		if len(cs) != len(sum) {
			return
		}
		for i := range cs {
			sum[i] = eciesSuite.Scalar().Add(sum[i], cs[i])
		}
	}
	for _, s := range sum {
		t.knownScalar(s)
	}
}

// errorObs renders a refusal: an error result names the machine's index, a fatal error has no result at all
func errorObs(res *types.Operation) (string, bool) {
	if !strings.Contains(string(res.Event), "error") && !strings.Contains(string(res.Event), "decline") {
		return "", false
	}
	if len(res.ResultMsgs) == 0 {
		return "err pid=?", true
	}
	var req requests.DKGProposalConfirmationErrorRequest
	if json.Unmarshal(res.ResultMsgs[len(res.ResultMsgs)-1].Data, &req) != nil {
		return "err pid=?", true
	}
	return fmt.Sprintf("err pid=%d", req.ParticipantId), true
}

// record is called after the real machine handled `cold` (result bytes rb, or procErr when there is no result)
func (t *airTrace) record(c *cluster, n *vnode, cold types.Operation, rb []byte, procErr error) {
	kind := ""
	switch string(cold.Type) {
	case "state_dkg_commits_await_confirmations":
		kind = "commits"
	case "state_dkg_deals_await_confirmations":
		kind = "deals"
	case "state_dkg_responses_await_confirmations":
		kind = "responses"
	case "state_dkg_master_key_await_confirmations":
		kind = "masterkey"
	case "state_signing_await_partial_signs":
		kind = "sign"
	case "reinit_dkg":
		t.recordReinit(c, n, cold, rb, procErr)
		return
	default:
		return
	}
	m := n.air
	round := cold.DKGIdentifier
	mid := t.machineID(m)
	key := fmt.Sprintf("%d/%s", mid, round)
	if t.tainted[key] {
		t.st.Skipped++
		t.st.SkipWhy["round left alone after an earlier skip or refusal"]++
		return
	}
	var res types.Operation
	if procErr == nil {
		if json.Unmarshal(rb, &res) != nil {
			t.skip(key, "result file does not parse")
			return
		}
	}
	head := fmt.Sprintf("%s %d %s", kind, mid, strTok(round))
	outcome := func(ob string) {
		t.st.ByKind[kind]++
		w := strings.SplitN(ob, " ", 2)[0]
		t.st.Outcomes[kind+":"+w]++
	}
	obsErr := func() (string, bool) {
		if procErr != nil {
			return "fatal", true
		}
		return errorObs(&res)
	}
	switch kind {
	case "sign":
		// signing requests are all alike to the model (own index, the stored share, how many messages): three per machine and round
		t.signSeen[key]++
		if t.signSeen[key] > 3 {
			return
		}
		if _, kerr := m.GetBLSKeyrings(); kerr != nil {
			// the operator's password does not open the key rings: an outside fault the model does not know
			t.st.Skipped++
			t.st.SkipWhy["signing request on a machine whose key rings cannot be opened (password)"]++
			return
		}
		var payload responses.SigningPartialSignsParticipantInvitationsResponse
		var tasks []requests.SigningTask
		okTok, nTok := "1", "-"
		if json.Unmarshal(cold.Payload, &payload) != nil || json.Unmarshal(payload.SrcPayload, &tasks) != nil {
			okTok = "0"
		} else if msgs, err := requests.TasksToMessages(tasks); err == nil {
			nTok = fmt.Sprint(len(msgs))
		}
		ob, isErr := obsErr()
		if !isErr {
			var req requests.SigningProposalBatchPartialSignRequests
			if len(res.ResultMsgs) != 1 || json.Unmarshal(res.ResultMsgs[0].Data, &req) != nil {
				ob = "partials unreadable-result"
			} else {
				sh := "-"
				if len(req.PartialSigns) > 0 {
					sh = "?"
					if krs, err := m.GetBLSKeyrings(); err == nil && krs[round] != nil {
						sh = scalarHex(krs[round].Share.V)
					}
				}
				ob = fmt.Sprintf("partials pid=%d n=%d share=%s", req.ParticipantId, len(req.PartialSigns), sh)
			}
		}
		t.emit(fmt.Sprintf("sign %d %s %s %s", mid, strTok(round), okTok, nTok), ob)
		outcome(ob)
	case "commits":
		var payload responses.DKGProposalPubKeysParticipantResponse
		if json.Unmarshal(cold.Payload, &payload) != nil {
			ob, isErr := obsErr()
			if !isErr {
				ob = "accepted an unparsable payload"
			}
			t.emit("badpayload "+fmt.Sprintf("%d %s", mid, strTok(round)), ob)
			outcome(ob)
			return
		}
		toks := []string{fmt.Sprint(len(payload))}
		for _, e := range payload {
			if e == nil {
				t.skip(key, "null entry")
				return
			}
			k := "-"
			p := eciesSuite.Point()
			if p.UnmarshalBinary(e.DkgPubKey) == nil {
				k = fmt.Sprint(t.keyID(p))
			}
			toks = append(toks, fmt.Sprint(e.ParticipantId), strTok(e.Username), k, fmt.Sprint(e.Threshold))
		}
		ob, isErr := obsErr()
		polyTok := "0"
		if !isErr {
			cs, err := m.VerifDealerCoefficients(round)
			if err != nil {
				t.skip(key, "no dealer coefficients after an accepted commits step")
				return
			}
			if t.polys[round] == nil {
				t.polys[round] = map[int][]kyber.Scalar{}
			}
			t.polys[round][mid] = cs
			pt := []string{fmt.Sprint(len(cs))}
			for _, s := range cs {
				t.knownScalar(s)
				pt = append(pt, "x"+scalarHex(s))
			}
			t.registerSums(round)
			polyTok = strings.Join(pt, " ")
			var req requests.DKGProposalCommitConfirmationRequest
			var commits [][]byte
			if len(res.ResultMsgs) != 1 || json.Unmarshal(res.ResultMsgs[0].Data, &req) != nil || json.Unmarshal(req.Commit, &commits) != nil {
				ob = "commits unreadable-result"
			} else {
				ps, okp := parsePoints(commits)
				ob = fmt.Sprintf("commits pid=%d", req.ParticipantId)
				for i := range commits {
					s := "?"
					if okp {
						if v, ok := t.scal[pointHex(ps[i])]; ok {
							s = v
						}
					}
					ob += " " + s
				}
			}
		}
		t.emit(head+" "+strings.Join(toks, " ")+" "+polyTok, ob)
		outcome(ob)
	case "deals":
		var payload responses.DKGProposalCommitParticipantResponse
		if json.Unmarshal(cold.Payload, &payload) != nil {
			ob, isErr := obsErr()
			if !isErr {
				ob = "accepted an unparsable payload"
			}
			t.emit("badpayload "+fmt.Sprintf("%d %s", mid, strTok(round)), ob)
			outcome(ob)
			return
		}
		toks := []string{fmt.Sprint(len(payload))}
		for _, e := range payload {
			if e == nil {
				t.skip(key, "null entry")
				return
			}
			var bzs [][]byte
			entry := "-"
			if json.Unmarshal(e.DkgCommit, &bzs) == nil {
				if ps, ok := parsePoints(bzs); ok {
					s, known := t.scalarsOf(ps)
					if !known {
						t.skip(key, "a broadcast commitment with unknown discrete logarithm")
						return
					}
					entry = s
				}
			}
			toks = append(toks, strTok(e.Username), entry)
		}
		ob, isErr := obsErr()
		if !isErr {
			pubs, err := m.VerifParticipantKeys(round)
			if err != nil {
				t.skip(key, "no instance after an accepted deals step")
				return
			}
			var ents []string
			self := ""
			pid := -1
			for _, msg := range res.ResultMsgs {
				var req requests.DKGProposalDealConfirmationRequest
				if json.Unmarshal(msg.Data, &req) != nil {
					ents = append(ents, "unreadable")
					continue
				}
				pid = req.ParticipantId
				if string(req.Deal) == "self-confirm" {
					self = msg.RecipientAddr
					continue
				}
				ents = append(ents, t.openOwnDeal(c, m, pubs, msg.RecipientAddr, req.Deal))
			}
			sort.Strings(ents)
			ob = fmt.Sprintf("deals pid=%d self=%s %s", pid, hex.EncodeToString([]byte(self)), strings.Join(ents, " "))
			ob = strings.TrimRight(ob, " ")
		}
		t.emit(head+" "+strings.Join(toks, " "), ob)
		outcome(ob)
	case "responses":
		var payload responses.DKGProposalDealParticipantResponse
		if json.Unmarshal(cold.Payload, &payload) != nil {
			ob, isErr := obsErr()
			if !isErr {
				ob = "accepted an unparsable payload"
			}
			t.emit("badpayload "+fmt.Sprintf("%d %s", mid, strTok(round)), ob)
			outcome(ob)
			return
		}
		pubs, err := m.VerifParticipantKeys(round)
		if err != nil {
			// no instance: whatever the payload, a fatal error
			ob, _ := obsErr()
			t.emit("badpayload "+fmt.Sprintf("%d %s", mid, strTok(round)), ob)
			outcome(ob)
			return
		}
		toks := []string{fmt.Sprint(len(payload))}
		for _, e := range payload {
			if e == nil {
				t.skip(key, "null entry")
				return
			}
			d, ok := t.abstractDeal(m, pubs, e.DkgDeal)
			if !ok {
				t.skip(key, "a deal the harness cannot translate")
				return
			}
			toks = append(toks, fmt.Sprint(e.ParticipantId), strTok(e.Username), d)
		}
		ob, isErr := obsErr()
		if !isErr {
			var req requests.DKGProposalResponseConfirmationRequest
			var rs []*dkgPedersen.Response
			if len(res.ResultMsgs) != 1 || json.Unmarshal(res.ResultMsgs[0].Data, &req) != nil || json.Unmarshal(req.Response, &rs) != nil {
				ob = "responses unreadable-result"
			} else {
				var ds []int
				bad := ""
				for _, r := range rs {
					if r == nil || r.Response == nil {
						bad = " null-response"
						continue
					}
					ds = append(ds, int(r.Index))
					if !r.Response.Status {
						bad = " complaint-in-an-accepted-step"
					}
					// what this verifier answered names the session id it computed from the deal it holds
				}
				sort.Ints(ds)
				ob = fmt.Sprintf("responses pid=%d", req.ParticipantId)
				for _, d := range ds {
					ob += fmt.Sprintf(" %d", d)
				}
				ob += bad
			}
		} else {
			t.tainted[key] = true
		}
		t.emit(head+" "+strings.Join(toks, " "), ob)
		outcome(ob)
	case "masterkey":
		var payload responses.DKGProposalResponseParticipantResponse
		if json.Unmarshal(cold.Payload, &payload) != nil {
			ob, isErr := obsErr()
			if !isErr {
				ob = "accepted an unparsable payload"
			}
			t.emit("badpayload "+fmt.Sprintf("%d %s", mid, strTok(round)), ob)
			outcome(ob)
			return
		}
		pubs, err := m.VerifParticipantKeys(round)
		if err != nil {
			ob, _ := obsErr()
			t.emit("badpayload "+fmt.Sprintf("%d %s", mid, strTok(round)), ob)
			outcome(ob)
			return
		}
		toks := []string{fmt.Sprint(len(payload))}
		for _, e := range payload {
			if e == nil {
				t.skip(key, "null entry")
				return
			}
			var rs []*dkgPedersen.Response
			if json.Unmarshal(e.DkgResponse, &rs) != nil {
				toks = append(toks, strTok(e.Username), "-")
				continue
			}
			ent := []string{strTok(e.Username), fmt.Sprint(len(rs))}
			for _, r := range rs {
				if r == nil || r.Response == nil {
					t.skip(key, "null response")
					return
				}
				sigOk := false
				if int(r.Response.Index) < len(pubs) {
					sigOk = schnorr.Verify(eciesSuite, pubs[r.Response.Index], r.Response.Hash(eciesSuite), r.Response.Signature) == nil
				}
				ent = append(ent, fmt.Sprint(r.Index), fmt.Sprint(r.Response.Index), b01(r.Response.Status), t.sidTok(r.Response.SessionID), b01(sigOk))
			}
			toks = append(toks, strings.Join(ent, " "))
		}
		ob, isErr := obsErr()
		if !isErr {
			var req requests.DKGProposalMasterKeyConfirmationRequest
			if len(res.ResultMsgs) != 1 || json.Unmarshal(res.ResultMsgs[0].Data, &req) != nil {
				ob = "masterkey unreadable-result"
			} else {
				keyS, shareS, polyS := "?", "?", "?"
				p := eciesSuite.Point()
				if p.UnmarshalBinary(req.MasterKey) == nil {
					if v, ok := t.scal[pointHex(p)]; ok {
						keyS = v
					}
				}
				if krs, err := m.GetBLSKeyrings(); err == nil && krs[round] != nil {
					shareS = scalarHex(krs[round].Share.V)
					_, cms := krs[round].PubPoly.Info()
					var ss []string
					for _, cm := range cms {
						v, ok := t.scal[pointHex(cm)]
						if !ok {
							v = "?"
						}
						ss = append(ss, v)
					}
					polyS = strings.Join(ss, ",")
				}
				ob = fmt.Sprintf("masterkey pid=%d key=%s share=%s poly=%s", req.ParticipantId, keyS, shareS, polyS)
			}
		} else {
			t.tainted[key] = true
		}
		t.emit(head+" "+strings.Join(toks, " "), ob)
		outcome(ob)
	}
}

// recordReinit: the real machine of `n` has just handled the reinit_dkg operation `cold` (handleReinitDKG: the entries of its
// payload through GetOperationResult one after the other, then the key ring of the round). A SHADOW machine - fresh database,
// the same mnemonic - is handed the same entries one by one through ProcessOperation, each written down and compared with the
// model like any other operation; the line `reinit <machine> <round> from <shadow>` then asks the model (Model/AirReinit.lean:
// reinitOp over the entries the shadow machine's lines spelled out, in order, `innerskip` for those the handler passes over)
// for the answer of the real machine: the public polynomial of `operation_processed_successfully`, an error result, or a
// fatal error; `ring` asks for the stored share.
func (t *airTrace) recordReinit(c *cluster, n *vnode, cold types.Operation, rb []byte, procErr error) {
	m := n.air
	round := cold.DKGIdentifier
	mid := t.machineID(m)
	key := fmt.Sprintf("%d/%s", mid, round)
	if t.tainted[key] {
		t.st.Skipped++
		t.st.SkipWhy["round left alone after an earlier skip or refusal"]++
		return
	}
	var inner []types.Operation
	if json.Unmarshal(cold.Payload, &inner) != nil {
		t.skip(key, "reinit payload does not parse")
		return
	}
	dir, err := os.MkdirTemp("", "verif-shadow-")
	if err != nil {
		t.skip(key, "no directory for the shadow machine")
		return
	}
	defer os.RemoveAll(dir)
	shadow, err := newMachine(dir, "pw", testMnemonics[n.idx%len(testMnemonics)])
	if err != nil {
		t.skip(key, "shadow machine cannot be made")
		return
	}
	defer shadow.VerifCloseDB()
	if !shadow.GetPubKey().Equal(m.GetPubKey()) {
		t.skip(key, "the shadow machine has another key than the re-initialised one")
		return
	}
	sid := t.machineID(shadow)
	sn := &vnode{air: shadow, idx: n.idx, name: n.name}
	entries, passed := 0, 0
	for _, o := range inner {
		if string(o.Event) != "" || string(o.Type) == "state_sig_proposal_await_participants_confirmations" {
			t.emit(fmt.Sprintf("innerskip %d", sid), "ok")
			passed++
			continue
		}
		switch string(o.Type) {
		case "state_dkg_commits_await_confirmations", "state_dkg_deals_await_confirmations", "state_dkg_responses_await_confirmations",
			"state_dkg_master_key_await_confirmations", "state_signing_await_partial_signs":
		default:
			// a type handleOperation does not know: the handler fails before it touches anything (the shadow machine is not
			// bothered with it); what GetOperationResult makes of that depends on whether the machine holds an instance of the
			// entry's round by then
			t.emit(fmt.Sprintf("innerfail %d %s", sid, strTok(o.DKGIdentifier)), "ok")
			t.st.ReinitFailingEntries++
			entries++
			continue
		}
		before := t.st.Ops
		path, perr := shadow.ProcessOperation(o, false)
		if perr != nil {
			t.record(c, sn, o, nil, perr)
		} else {
			rb2, rerr := os.ReadFile(path)
			os.Remove(path)
			if rerr != nil {
				t.skip(key, "result file of the shadow machine unreadable")
				return
			}
			t.record(c, sn, o, rb2, nil)
		}
		if t.st.Ops == before || t.tainted[fmt.Sprintf("%d/%s", sid, o.DKGIdentifier)] {
			t.skip(key, "an entry of the reinit payload could not be written down for the model")
			return
		}
		entries++
		if perr != nil {
			break
		}
	}
	ob := "fatal"
	if procErr == nil {
		var res types.Operation
		if json.Unmarshal(rb, &res) != nil {
			t.skip(key, "result file does not parse")
			return
		}
		switch {
		case string(res.Event) == "operation_processed_successfully":
			kr, err := dkg.LoadPubPolyBLSKeyringFromBytes(eciesSuite, res.ExtraData)
			if err != nil {
				ob = "processed unreadable-polynomial"
				break
			}
			_, cms := kr.PubPoly.Info()
			var ss []string
			for _, cm := range cms {
				v, ok := t.scal[pointHex(cm)]
				if !ok {
					v = "?"
				}
				ss = append(ss, v)
			}
			ob = "processed poly=" + strings.Join(ss, ",")
		case len(res.ResultMsgs) > 0:
			var req requests.DKGProposalConfirmationErrorRequest
			if json.Unmarshal(res.ResultMsgs[len(res.ResultMsgs)-1].Data, &req) != nil {
				ob = "err pid=?"
			} else {
				ob = fmt.Sprintf("err pid=%d", req.ParticipantId)
			}
		default:
			ob = "unreadable-result event=" + string(res.Event)
		}
	}
	t.emit(fmt.Sprintf("reinit %d %s from %d", mid, strTok(round), sid), ob)
	t.lastReinit[key] = [2]string{t.lastOp, t.lastOb}
	t.st.ByKind["reinit"]++
	t.st.Outcomes["reinit:"+strings.SplitN(ob, " ", 2)[0]]++
	t.st.ReinitEntries += entries
	t.st.ReinitPassedOver += passed
	// the share the re-initialised machine holds now
	sh := "-"
	if krs, err := m.GetBLSKeyrings(); err == nil && krs[round] != nil {
		sh = scalarHex(krs[round].Share.V)
	}
	t.emit(fmt.Sprintf("ring %d %s", mid, strTok(round)), "share="+sh)
}

// craftedReinits: hand-made variants of a genuine reinit_dkg operation, each handed to a fresh machine with the participant's
// mnemonic: an entry of an unknown type before the round exists on the machine (the re-initialisation ends there, fatally), after
// it exists (an error result inside, the loop goes on), for a round the machine knows nothing of at the very end (the key ring is
// written, the answer is an error result), and a payload without its master-key step (no key ring to answer with)
func (t *airTrace) craftedReinits(c *cluster, n *vnode, cold types.Operation) {
	var inner []types.Operation
	if json.Unmarshal(cold.Payload, &inner) != nil || len(inner) < 4 {
		return
	}
	round := cold.DKGIdentifier
	unknown := func(r string) types.Operation {
		return types.Operation{ID: "unknown-type", Type: "no_such_state", DKGIdentifier: r, Payload: []byte("{}")}
	}
	firstKG := -1
	for i, o := range inner {
		if string(o.Type) == "state_dkg_commits_await_confirmations" {
			firstKG = i
			break
		}
	}
	if firstKG < 0 {
		return
	}
	variants := map[string][]types.Operation{}
	variants["unknown-type-before-the-round-exists"] = append([]types.Operation{unknown(round)}, inner...)
	v2 := append([]types.Operation{}, inner[:firstKG+1]...)
	v2 = append(v2, unknown(round))
	v2 = append(v2, inner[firstKG+1:]...)
	variants["unknown-type-after-the-commits-step"] = v2
	variants["unknown-type-of-another-round-at-the-end"] = append(append([]types.Operation{}, inner...), unknown("a-round-the-machine-knows-nothing-of"))
	variants["without-the-master-key-step"] = append([]types.Operation{}, inner[:len(inner)-1]...)
	names := make([]string, 0, len(variants))
	for k := range variants {
		names = append(names, k)
	}
	sort.Strings(names)
	for _, name := range names {
		payload, err := json.Marshal(variants[name])
		if err != nil {
			continue
		}
		dir, err := os.MkdirTemp("", "verif-crafted-")
		if err != nil {
			return
		}
		mv, err := newMachine(dir, "pw", testMnemonics[n.idx%len(testMnemonics)])
		if err != nil {
			os.RemoveAll(dir)
			return
		}
		op := cold
		op.Payload = payload
		out := tryOperation(mv, op, true)
		vn := &vnode{air: mv, idx: n.idx, name: n.name}
		switch out.kind {
		case "result", "error-result":
			rb, _ := json.Marshal(out.result)
			t.recordReinit(c, vn, op, rb, nil)
		case "fatal":
			t.recordReinit(c, vn, op, nil, fmt.Errorf("%s", out.err))
		default:
			t.st.SkipWhy["hand-made reinit payload: the machine answered "+out.kind]++
			t.st.Skipped++
		}
		t.st.CraftedReinits++
		mv.VerifCloseDB()
		os.RemoveAll(dir)
	}
}

// stopped: the process of `old` was stopped and started again on the same database (`reopened`): `stop` to the model
func (t *airTrace) stopped(old, reopened *airgapped.Machine) bool {
	mid, ok := t.rebind(old, reopened)
	if !ok {
		return false
	}
	t.emit(fmt.Sprintf("stop %d", mid), "ok")
	t.st.Restarts++
	return true
}

// reinitReplayed: after `stopped`, the machine replayed the operations log of a re-initialised round - the one reinit_dkg
// operation. The model is handed that operation again (its first answer is what the replay republishes) and asked for the
// share, which is read from the real machine.
func (t *airTrace) reinitReplayed(m *airgapped.Machine, round string) {
	mid, ok := t.machines[m]
	if !ok {
		return
	}
	key := fmt.Sprintf("%d/%s", mid, round)
	lr, ok := t.lastReinit[key]
	if !ok || t.tainted[key] {
		t.skip(key, "replay of a re-initialised round whose reinit operation was not written down")
		return
	}
	t.emit(lr[0], lr[1])
	t.st.Replayed++
	sh := "-"
	if krs, err := m.GetBLSKeyrings(); err == nil && krs[round] != nil {
		sh = scalarHex(krs[round].Share.V)
	}
	t.emit(fmt.Sprintf("ring %d %s", mid, strTok(round)), "share="+sh)
}

// a ciphertext too short for the ECIES layer makes kyber panic; the machine turns that into a handler error like a
// failed decryption (handleOperation recovers)
func safeECIES(sec kyber.Scalar, ct []byte) (out []byte, err error) {
	defer func() {
		if r := recover(); r != nil {
			err = fmt.Errorf("panic: %v", r)
		}
	}()
	return ecies.Decrypt(eciesSuite, sec, ct, eciesSuite.Hash)
}

// openOwnDeal: the token `name:index:share` of a deal the machine `m` produced: index of the participant whose key
// opens it, the share inside
func (t *airTrace) openOwnDeal(c *cluster, m *airgapped.Machine, pubs []kyber.Point, to string, ct []byte) string {
	name := hex.EncodeToString([]byte(to))
	for _, nd := range c.nodes {
		sec := nd.air.VerifSecKey()
		if sec == nil {
			continue
		}
		outer, err := safeECIES(sec, ct)
		if err != nil {
			continue
		}
		idx := -1
		for i, p := range pubs {
			if p.Equal(nd.air.GetPubKey()) {
				idx = i
				break
			}
		}
		var od dkgPedersen.Deal
		if json.Unmarshal(outer, &od) != nil || od.Deal == nil {
			return fmt.Sprintf("%s:%d:unreadable", name, idx)
		}
		ver, err := vssPedersen.NewVerifier(eciesSuite, sec, m.GetPubKey(), pubs)
		if err != nil {
			return fmt.Sprintf("%s:%d:noverifier", name, idx)
		}
		pd, err := ver.DecryptDeal(od.Deal)
		if err != nil {
			return fmt.Sprintf("%s:%d:-", name, idx)
		}
		return fmt.Sprintf("%s:%d:%s", name, idx, scalarHex(pd.SecShare.V))
	}
	return name + ":-:-"
}

// abstractDeal: `-` | `<idx> <sigOk> -` | `<idx> <sigOk> SID <secI> <secV> <thr> <len> <c>*`
func (t *airTrace) abstractDeal(m *airgapped.Machine, pubs []kyber.Point, ct []byte) (string, bool) {
	outer, err := safeECIES(m.VerifSecKey(), ct)
	if err != nil {
		return "-", true
	}
	var od dkgPedersen.Deal
	if json.Unmarshal(outer, &od) != nil {
		return "-", true
	}
	if od.Deal == nil {
		return "", false
	}
	idx := int(od.Index)
	sigOk := false
	if idx < len(pubs) {
		if buf, err := od.MarshalBinary(); err == nil {
			sigOk = schnorr.Verify(eciesSuite, pubs[idx], buf, od.Signature) == nil
		}
	}
	head := fmt.Sprintf("%d %s", idx, b01(sigOk))
	if idx >= len(pubs) {
		return head + " -", true
	}
	ver, err := vssPedersen.NewVerifier(eciesSuite, m.VerifSecKey(), pubs[idx], pubs)
	if err != nil {
		return "", false
	}
	pd, err := ver.DecryptDeal(od.Deal)
	if err != nil || pd == nil || pd.SecShare == nil {
		return head + " -", true
	}
	cs, known := t.scalarsOf(pd.Commitments)
	if !known {
		return "", false
	}
	// the session id this deal hashes to, for the responses that will name it
	sid := vssSessionID(pubs[idx], pubs, pd.Commitments, int(pd.T))
	if _, ok := t.sids[hex.EncodeToString(sid)]; !ok {
		t.sids[hex.EncodeToString(sid)] = fmt.Sprintf("%d %d %s", idx, pd.T, cs)
	}
	if pd.SecShare.I < 0 {
		return "", false
	}
	return fmt.Sprintf("%s %s %d x%s %d %s", head, t.sidTok(pd.SessionID), pd.SecShare.I, scalarHex(pd.SecShare.V), pd.T, cs), true
}
