package main

// History-level monitors for the round machines: C05 and C06 read over a whole history of one round (the events it was
// offered, which of them it accepted, the state it was stored in after each), not over single transitions. They look only
// at what went in and at the state names that came out - not at the payload of the dump - so they say what the properties
// say: when the round is signing-ready every invited participant has delivered every phase's contribution exactly once
// and no deadline had expired; a batch starts reconstruction at its t-th distinct contribution, and an accepted proposal
// opens a batch. Run over the scripted histories below and over every guided walk.

import (
	"fmt"
	"sort"
	"strings"
	"time"

	fsmconfig "github.com/lidofinance/dc4bc/fsm/config"
)

type histStep struct {
	ev    string
	args  []string
	ok    bool
	state string // the state the round is stored in after the step (unchanged by a refused event)
}

type roundHistory struct {
	label string
	steps []histStep
}

func (h *roundHistory) note(ev string, args []string, ok bool, state string) {
	h.steps = append(h.steps, histStep{ev, args, ok, state})
}

var histShort = map[string]string{
	"event_sig_proposal_init":                        "open",
	"event_sig_proposal_confirm_by_participant":      "confirm",
	"event_sig_proposal_decline_by_participant":      "decline",
	"event_dkg_init_process":                         "dkg-init",
	"event_dkg_commit_confirm_received":              "commit",
	"event_dkg_deal_confirm_received":                "deal",
	"event_dkg_response_confirm_received":            "response",
	"event_dkg_master_key_confirm_received":          "master-key",
	"event_signing_init":                             "signing-init",
	"event_signing_start":                            "propose",
	"event_signing_partial_sign_received":            "partial-sign",
	"event_signing_partial_sign_error_received":      "sign-failure",
	"event_signing_restart":                          "restart",
	"event_dkg_commit_confirm_canceled_by_error":     "commit-error",
	"event_dkg_deal_confirm_canceled_by_error":       "deal-error",
	"event_dkg_response_confirm_canceled_by_error":   "response-error",
	"event_dkg_master_key_confirm_canceled_by_error": "master-key-error",
}

// render: the history up to and including step `upto`, accepted events only unless all is set; consecutive steps with the
// same event and stamp are folded ("commit 0,1,2@T0+2ns")
func (h *roundHistory) render(upto int, all bool) string {
	var out []string
	lastKey := ""
	for i := 0; i <= upto && i < len(h.steps); i++ {
		s := h.steps[i]
		if !s.ok && !all {
			continue
		}
		name := histShort[s.ev]
		if name == "" {
			name = s.ev
		}
		who := ""
		switch s.args[0] {
		case "sigInit":
			who = fmt.Sprintf("{%s of %s}", s.args[1], s.args[3])
		case "sigPart", "commit", "deal", "response", "masterKey", "dkgErr", "signErr":
			who = s.args[1]
		case "signStart":
			who = fmt.Sprintf("%q", string(unhexTok(s.args[1])))
		case "partialSigns":
			who = fmt.Sprintf("%s(%q)", s.args[2], string(unhexTok(s.args[1])))
		}
		tail := "@" + stampText(s.args)
		if !s.ok {
			tail += " REFUSED"
		}
		key := name + tail
		if key == lastKey && who != "" && s.args[0] != "sigInit" {
			out[len(out)-1] = strings.Replace(out[len(out)-1], tail, "", 1) + "," + who + tail
			continue
		}
		lastKey = key
		out = append(out, strings.TrimSpace(name+" "+who)+tail)
	}
	return strings.Join(out, "; ")
}

type histReporter struct {
	st   *fsmStats
	seen map[string]int
}

func (r *histReporter) count(k string) {
	if r.st.MonitorChecks == nil {
		r.st.MonitorChecks = map[string]int{}
	}
	r.st.MonitorChecks[k]++
}

// report: at most two lines per kind of violation and kind of history (a scripted scenario whatever its n and t, the guided walks)
func (r *histReporter) report(prop, kind, text string) {
	r.count("viol:" + prop + "/" + kind)
	label := text
	if i := strings.IndexAny(label, "0123456789"); i >= 0 {
		label = label[:i]
	}
	if r.seen[prop+"/"+kind+"/"+label]++; r.seen[prop+"/"+kind+"/"+label] > 2 {
		return
	}
	r.st.Monitors = append(r.st.Monitors, fmt.Sprintf("%s %s: %s", prop, kind, text))
}

var contributionKinds = []struct{ ev, arg, open string }{
	{"event_sig_proposal_confirm_by_participant", "sigPart", "state_sig_proposal_await_participants_confirmations"},
	{"event_dkg_commit_confirm_received", "commit", "state_dkg_commits_await_confirmations"},
	{"event_dkg_deal_confirm_received", "deal", "state_dkg_deals_await_confirmations"},
	{"event_dkg_response_confirm_received", "response", "state_dkg_responses_await_confirmations"},
	{"event_dkg_master_key_confirm_received", "masterKey", "state_dkg_master_key_await_confirmations"},
}

// checkC05: at the first moment the round is signing-ready
func (r *histReporter) checkC05(h *roundHistory) {
	r.count("C05.history")
	invited := -1
	var inviteDeadline, dkgDeadline time.Time
	delivered := make([]map[int]int, len(contributionKinds))
	for i := range delivered {
		delivered[i] = map[int]int{}
	}
	expired, cancelled, reopened := "", "", ""
	pre := ""
	for i, s := range h.steps {
		was := pre
		pre = s.state
		if !s.ok {
			continue
		}
		ts, stamped := stampOf(s.args)
		switch {
		case s.ev == "event_sig_proposal_init" && s.args[0] == "sigInit":
			if invited < 0 {
				invited = atoi(s.args[3])
				inviteDeadline = ts.Add(fsmconfig.SignatureProposalConfirmationDeadline)
			} else {
				reopened = fmt.Sprintf("a second opening proposal (%s of %s, stamped %s) was accepted", s.args[1], s.args[3], relT(ts))
				if stamped && was == contributionKinds[0].open && inviteDeadline.Before(ts) && expired == "" {
					expired = fmt.Sprintf("the invitations were open until %s and an opening proposal stamped %s was accepted", relT(inviteDeadline), relT(ts))
				}
			}
		case s.ev == "event_dkg_init_process" && s.args[0] == "default":
			dkgDeadline = ts.Add(fsmconfig.DkgConfirmationDeadline)
		}
		for k, c := range contributionKinds {
			if s.ev != c.ev || s.args[0] != c.arg {
				continue
			}
			delivered[k][atoi(s.args[1])]++
			deadline := dkgDeadline
			if k == 0 {
				deadline = inviteDeadline
			}
			if stamped && was == c.open && !deadline.IsZero() && deadline.Before(ts) && expired == "" {
				expired = fmt.Sprintf("the %s phase was open until %s and participant %s's contribution stamped %s was accepted", histShort[c.ev], relT(deadline), s.args[1], relT(ts))
			}
		}
		if isCancelledDkg(s.state) && cancelled == "" {
			cancelled = s.state
		}
		if s.state != "stage_signing_idle" {
			continue
		}
		// signing-ready
		r.count("C05.history_signing_ready")
		var bad []string
		for p := 0; p < invited; p++ {
			for k, c := range contributionKinds {
				if n := delivered[k][p]; n != 1 {
					bad = append(bad, fmt.Sprintf("participant %d delivered its %s %d times", p, histShort[c.ev], n))
				}
			}
		}
		for k, c := range contributionKinds {
			var others []int
			for p := range delivered[k] {
				if p < 0 || p >= invited {
					others = append(others, p)
				}
			}
			sort.Ints(others)
			for _, p := range others {
				bad = append(bad, fmt.Sprintf("a %s of %d, who was not invited, was taken", histShort[c.ev], p))
			}
		}
		hist := fmt.Sprintf("%s: the round is signing-ready after [%s]", h.label, truncate(h.render(i, false), 420))
		if len(bad) > 0 {
			if reopened != "" {
				bad = append(bad, reopened)
			}
			r.report("C05", "history_exactly_once", fmt.Sprintf("%s although of the %d invited %s", hist, invited, truncate(strings.Join(bad, ", "), 300)))
		}
		if expired != "" {
			r.report("C05", "history_deadline", hist+" although "+expired)
		}
		if cancelled != "" {
			r.report("C05", "history_cancelled_for_good", hist+" although it had been in "+cancelled)
		}
		return
	}
}

// checkC06: every batch of the round
func (r *histReporter) checkC06(h *roundHistory) {
	r.count("C06.history")
	n, t := -1, 0
	batch, live := "", false
	var delivered, failed map[int]bool
	from := 0
	for i, s := range h.steps {
		if s.ok && s.ev == "event_sig_proposal_init" && s.args[0] == "sigInit" && n < 0 {
			t, n = atoi(s.args[1]), atoi(s.args[3])
		}
		if n < 0 {
			continue
		}
		hist := func() string {
			return fmt.Sprintf("%s (%d invited, threshold %d, key generation ended at %s): [%s]", h.label, n, t, h.signingInit(), truncate(h.renderFrom(from, i), 380))
		}
		switch {
		case s.ok && s.ev == "event_signing_start" && s.args[0] == "signStart":
			batch, live, from = string(unhexTok(s.args[1])), true, i
			delivered, failed = map[int]bool{}, map[int]bool{}
			r.count("C06.history_batch")
			if s.state != "state_signing_await_partial_signs" {
				live = false
				r.report("C06", "history_accepts_next", fmt.Sprintf("%s: the proposal was accepted and the round is %s before anyone has answered or reported a failure", hist(), s.state))
			}
		case s.ok && s.ev == "event_signing_restart":
			live = false
		case live && s.ok && s.ev == "event_signing_partial_sign_error_received" && s.args[0] == "signErr":
			if p := atoi(s.args[1]); p >= 0 && p < n && !delivered[p] {
				failed[p] = true
				if len(failed) > n-t {
					live = false // cancelled by more than n-t failure reports
				}
			}
		case live && s.ev == "event_signing_partial_sign_received" && s.args[0] == "partialSigns":
			// delivered: a well-formed answer (the batch's id, a stamp, at least one partial signature, each with an
			// identifier and a value) of an invited participant who has neither answered nor reported a failure for this batch
			p, k := atoi(s.args[2]), atoi(s.args[4])
			wellFormed := batch != "" && string(unhexTok(s.args[1])) == batch && !parseTimeTok(s.args[3]).IsZero() && k > 0 && len(s.args) >= 5+2*k
			for j := 0; wellFormed && j < k; j++ {
				if len(unhexTok(s.args[5+2*j])) == 0 || len(unhexTok(s.args[6+2*j])) == 0 {
					wellFormed = false
				}
			}
			if !wellFormed || p < 0 || p >= n || delivered[p] || failed[p] {
				break
			}
			delivered[p] = true
			if len(delivered) == t {
				live = false
				if s.state != "state_signing_partial_signs_collected" {
					r.report("C06", "history_t_distinct", fmt.Sprintf("%s: %d distinct participants have delivered well-formed partial signatures for batch %q, %d reported a failure, and reconstruction was not started: the round is %s", hist(), t, batch, len(failed), s.state))
				}
			} else if s.state == "state_signing_partial_signs_collected" {
				live = false
				r.report("C06", "history_t_distinct", fmt.Sprintf("%s: reconstruction started after %d of t=%d distinct contributions to batch %q", hist(), len(delivered), t, batch))
			}
		}
	}
}

func (h *roundHistory) signingInit() string {
	for _, s := range h.steps {
		if s.ok && s.ev == "event_signing_init" {
			return stampText(s.args)
		}
	}
	return "?"
}

func (h *roundHistory) renderFrom(from, upto int) string {
	sub := &roundHistory{steps: h.steps[from : upto+1]}
	return sub.render(len(sub.steps)-1, true)
}

// scriptedHistories: for every (n,t) with 2<=t<=n<=4, rounds in which the opening proposal arrives a second time while the
// invitations are being answered (the same one after an answer, a shorter list, one stamped after the deadline) and are then
// driven towards signing-ready by everyone; and a round that signs one batch right after the key generation and further
// batches more than the signing deadline later.
func scriptedHistories(w *fsmWorld, st *fsmStats, rep *histReporter) {
	at := func(k int64) string { return fmt.Sprint(baseT + k) }
	k := 0
	for n := 2; n <= 4; n++ {
		for t := 2; t <= n; t++ {
			run := func(label string, body func(step func(ev string, args ...string) bool)) {
				k++
				h := &roundHistory{label: fmt.Sprintf("scripted history %q n=%d t=%d", label, n, t)}
				idx := w.create(fmt.Sprintf("scripted-%d", k))
				body(func(ev string, args ...string) bool {
					_, ok := w.do(idx, ev, args)
					st.Transitions++
					if ok {
						st.OkTransitions++
						if ni, r := w.keep(); r {
							idx = ni
						}
					}
					h.note(ev, args, ok, dumpStateOf(w.store[idx]))
					return ok
				})
				rep.checkC05(h)
				rep.checkC06(h)
			}
			// everyone does everything once, in order, all stamped from `base` on
			ceremony := func(step func(ev string, args ...string) bool, base int64, who int) {
				for p := 0; p < who; p++ {
					step("event_sig_proposal_confirm_by_participant", "sigPart", fmt.Sprint(p), at(base+1))
				}
				step("event_dkg_init_process", "default", at(base+1))
				for p := 0; p < who; p++ {
					step("event_dkg_commit_confirm_received", "commit", fmt.Sprint(p), hx([]byte{1, byte(p)}), at(base+2))
				}
				for p := 0; p < who; p++ {
					step("event_dkg_deal_confirm_received", "deal", fmt.Sprint(p), hx([]byte{2, byte(p)}), at(base+3))
				}
				for p := 0; p < who; p++ {
					step("event_dkg_response_confirm_received", "response", fmt.Sprint(p), hx([]byte{3, byte(p)}), at(base+4))
				}
				for p := 0; p < who; p++ {
					step("event_dkg_master_key_confirm_received", "masterKey", fmt.Sprint(p), "xaa", at(base+5), polyTokA)
				}
				step("event_signing_init", "default", at(base+6))
			}
			run("the same proposal again after an answer", func(step func(ev string, args ...string) bool) {
				step("event_sig_proposal_init", sigInitArgs(n, t, at(0))...)
				step("event_sig_proposal_confirm_by_participant", "sigPart", "0", at(1))
				step("event_sig_proposal_init", sigInitArgs(n, t, at(0))...)
				ceremony(step, 0, n)
			})
			if n > 2 {
				run("a shorter list after an answer", func(step func(ev string, args ...string) bool) {
					step("event_sig_proposal_init", sigInitArgs(n, t, at(0))...)
					step("event_sig_proposal_confirm_by_participant", "sigPart", "0", at(1))
					t2 := t
					if t2 > n-1 {
						t2 = n - 1
					}
					step("event_sig_proposal_init", sigInitArgs(n-1, t2, at(0))...)
					ceremony(step, 0, n)
				})
			}
			run("a proposal stamped after the deadline", func(step func(ev string, args ...string) bool) {
				step("event_sig_proposal_init", sigInitArgs(n, t, at(0))...)
				step("event_sig_proposal_confirm_by_participant", "sigPart", "0", at(1))
				step("event_sig_proposal_init", sigInitArgs(n, t, at(8*day))...)
				ceremony(step, 8*day, n)
			})
			run("batches long after the key generation", func(step func(ev string, args ...string) bool) {
				step("event_sig_proposal_init", sigInitArgs(n, t, at(0))...)
				ceremony(step, 0, n)
				batchAt := func(id string, base int64, first int) {
					step("event_signing_start", "signStart", hs(id), "0", at(base), "1", hs("m1"), hs("f"), "x6d", "0", "0")
					for j := 0; j < t; j++ {
						p := (first + j) % n
						step("event_signing_partial_sign_received", "partialSigns", hs(id), fmt.Sprint(p), at(base+1), "1", hs("m1"), hx([]byte{byte(16 + p)}))
					}
					step("event_signing_restart", "default", at(base+2))
				}
				batchAt("E", 7, 0)
				batchAt("L", 8*day, n-t)
				batchAt("M", 10*day, 1)
			})
		}
	}
}
