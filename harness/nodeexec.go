package main

// nodediff, part 2: the observer's operations are answered through ProcessOperation /
// ApproveParticipation with `exec` / `approve` op lines for the Lean model, and (C15) with
// mutated results: every compared field changed, request-only operation, unknown / retired id,
// duplicated submissions.

import (
	"bytes"
	"crypto/ed25519"
	"encoding/json"
	"fmt"
	"os"
	"sort"
	"strings"
	"sync"
	"sync/atomic"
	"time"

	"github.com/lidofinance/dc4bc/client/api/dto"
	ctypes "github.com/lidofinance/dc4bc/client/types"
	spf "github.com/lidofinance/dc4bc/fsm/state_machines/signature_proposal_fsm"
	"github.com/lidofinance/dc4bc/storage"
)

// sortedPending: pending operations sorted like Driver/NodeDriver.lean sortOps (by rendered form)
func sortedPending(n *vnode) []*ctypes.Operation {
	ops := n.pendingOps()
	sort.Slice(ops, func(i, j int) bool { return rOpGo(ops[i]) < rOpGo(ops[j]) })
	return ops
}

func postedRender(c *cluster, n *vnode, from int, approve bool) string {
	bm := c.boardMessages()
	var parts []string
	for _, x := range bm[from:] {
		signed := "unsigned"
		if len(n.kp.Pub) == ed25519.PublicKeySize && ed25519.Verify(n.kp.Pub, x.Data, x.Signature) {
			signed = "signed"
		}
		if approve {
			var req struct{ ParticipantId int }
			json.Unmarshal(x.Data, &req)
			parts = append(parts, strings.Join([]string{hs(x.Event), hs(x.DkgRoundID), hs(x.RecipientAddr), hs(x.SenderAddr), "sigPart", fmt.Sprint(req.ParticipantId), signed}, ":"))
		} else {
			parts = append(parts, strings.Join([]string{hs(x.Event), hs(x.DkgRoundID), hs(x.RecipientAddr), hs(x.SenderAddr), hx(x.Data), signed}, ":"))
		}
	}
	return strings.Join(parts, ";")
}

// submit sends one (possibly altered) result to ProcessOperation and emits the exec op.
func (r *nodeRun) submit(c *cluster, n *vnode, res ctypes.Operation, kind string) (string, string, string) {
	before := nodeRender(n)
	pend := sortedPending(n)
	idx := "-"
	typeSame, paySame := "0", "0"
	for i, p := range pend {
		if p.ID == res.ID {
			idx = fmt.Sprint(i)
			if p.Type == res.Type {
				typeSame = "1"
			}
			if bytes.Equal(p.Payload, res.Payload) {
				paySame = "1"
			}
		}
	}
	ev := "-"
	if res.Event != "" {
		ev = hs(string(res.Event))
	}
	toks := []string{"exec", idx, typeSame, paySame, hs(res.DKGIdentifier), ev, hx(res.ExtraData), fmt.Sprint(len(res.ResultMsgs))}
	for _, m := range res.ResultMsgs {
		toks = append(toks, hs(m.Event), hs(m.DkgRoundID), hs(m.RecipientAddr), hx(m.Data))
	}
	from := len(c.boardMessages())
	var err error
	panicked := false
	func() {
		defer func() {
			if rec := recover(); rec != nil {
				panicked = true
			}
		}()
		err = n.svc.ProcessOperation(opToDTO(&res))
	}()
	outcome := "ok"
	if panicked {
		outcome = "panic"
		r.st.Panics++
		r.mon(fmt.Sprintf("C18 never_panics: ProcessOperation (a request body on the local API) panicked on a submission of kind %s for an operation of type %s with event %q", kind, res.Type, res.Event))
	} else if err != nil {
		outcome = "reject"
	}
	after := nodeRender(n)
	posted := postedRender(c, n, from, false)
	r.emit(strings.Join(toks, " "), outcome+" posted=("+posted+") "+after)
	r.st.Execs++
	r.st.OutcomeHist["exec:"+kind+"/"+outcome]++
	// C15 monitors
	if outcome != "ok" && before != after {
		r.mon(fmt.Sprintf("C15 reject_noop: refused submission (%s) changed the node state", kind))
	}
	if outcome != "ok" && posted != "" && kind != "duplicate" && kind != "after-recreate" {
		r.mon(fmt.Sprintf("C15 posts_only_pending_equal: refused submission (%s) still posted %d message(s)", kind, strings.Count(posted, ";")+1))
	}
	return outcome, posted, after
}

// answerObserved: like cluster.answerAll for the observer, with op lines and result mutations.
func (r *nodeRun) answerObserved(c *cluster, n *vnode) int {
	k := 0
	for _, op := range sortedPending(n) {
		k++
		bz, _ := json.Marshal(op)
		var cold ctypes.Operation
		json.Unmarshal(bz, &cold)
		if string(cold.Type) == string(spf.StateAwaitParticipantsConfirmations) {
			idx := "-"
			for i, p := range sortedPending(n) {
				if p.ID == cold.ID {
					idx = fmt.Sprint(i)
				}
			}
			// the invitation handed in as a result file of a finished re-initialisation (the one event that makes the node
			// write into the round instead of posting): the round has no key-generation part yet
			{
				probe := cold
				probe.Event = ctypes.OperationProcessed
				probe.ExtraData = []byte("no polynomial")
				r.submit(c, n, probe, "invitation-as-processed")
			}
			// a wrong id first
			if r.rng.Intn(2) == 0 {
				from := len(c.boardMessages())
				err := n.svc.ApproveParticipation(&dto.OperationIdDTO{OperationID: "no-such-operation"})
				oc := "ok"
				if err != nil {
					oc = "reject"
				}
				r.emit("approve -", oc+" posted=("+postedRender(c, n, from, true)+") "+nodeRender(n))
			}
			from := len(c.boardMessages())
			err := n.svc.ApproveParticipation(&dto.OperationIdDTO{OperationID: cold.ID})
			oc := "ok"
			if err != nil {
				oc = "reject"
			}
			r.emit("approve "+idx, oc+" posted=("+postedRender(c, n, from, true)+") "+nodeRender(n))
			r.st.Execs++
			// approving again must be refused and post nothing
			from = len(c.boardMessages())
			err = n.svc.ApproveParticipation(&dto.OperationIdDTO{OperationID: cold.ID})
			oc = "ok"
			if err != nil {
				oc = "reject"
			}
			posted := postedRender(c, n, from, true)
			r.emit("approve -", oc+" posted=("+posted+") "+nodeRender(n))
			if oc == "ok" || posted != "" {
				r.mon("C15 retired_once: a retired invitation was answered again")
			}
			continue
		}
		path, err := n.air.ProcessOperation(cold, true)
		if err != nil {
			continue
		}
		rb, _ := os.ReadFile(path)
		os.Remove(path)
		var res ctypes.Operation
		if json.Unmarshal(rb, &res) != nil {
			continue
		}
		// C15: JSON file round trip leaves the compared fields intact
		if res.ID != op.ID || res.Type != op.Type || !bytes.Equal(res.Payload, op.Payload) || res.DKGIdentifier != op.DKGIdentifier {
			r.mon("C15 roundtrip: an operation came back from the JSON file exchange with a changed ID/Type/Payload/round")
		}
		// mutated results first: none of them may be accepted or post anything
		muts := r.resultMutations(res)
		r.rng.Shuffle(len(muts), func(i, j int) { muts[i], muts[j] = muts[j], muts[i] })
		lim := 3
		if r.tier == "thorough" {
			lim = len(muts)
		}
		signing := strings.HasPrefix(string(op.Type), "state_signing_")
		for i, mu := range muts {
			// (an answer to a signing request whose payload is not the one handed out is always tried: it is the check that
			// ties what the machine signed to what was proposed)
			if i >= lim && !(signing && strings.HasPrefix(mu.name, "payload-")) {
				continue
			}
			oc, posted, _ := r.submit(c, n, mu.op, mu.name)
			if oc == "ok" || posted != "" {
				r.mon(fmt.Sprintf("C15 posts_only_pending_equal: altered result (%s) of a %s operation was accepted / posted", mu.name, op.Type))
				if signing && strings.HasPrefix(mu.name, "payload-") {
					r.mon(fmt.Sprintf("C03 signs_what_was_proposed: the node accepted an answer to a signing request whose payload (%s) is not the one it handed to the machine: the partial signatures it posts were made over a request that differs from the proposal", mu.name))
				}
			}
		}
		// the genuine result; every other time with the fields of its result messages that the NODE has to set (sender,
		// signature) filled in by somebody else: identifier, type and payload are unchanged, so it is accepted, and what
		// reaches the board must still be attributed to the node and signed with its key
		r.prefillTurn++
		if r.prefillTurn%2 == 0 && len(res.ResultMsgs) > 0 && len(c.nodes) > 1 {
			other := c.nodes[(n.idx+1)%len(c.nodes)]
			msgs := append([]storage.Message(nil), res.ResultMsgs...)
			for i := range msgs {
				msgs[i].SenderAddr = other.name
				msgs[i].Signature = ed25519.Sign(other.kp.Priv, msgs[i].Data)
			}
			res.ResultMsgs = msgs
			r.st.PrefilledResults++
		}
		before := len(c.boardMessages())
		oc, _, _ := r.submit(c, n, res, "genuine")
		if oc == "ok" {
			posted := c.boardMessages()[before:]
			if len(posted) != len(res.ResultMsgs) {
				r.mon(fmt.Sprintf("C15 posted_exactly_result: %d messages posted for a result with %d", len(posted), len(res.ResultMsgs)))
			}
			for i, pm := range posted {
				if i < len(res.ResultMsgs) {
					w := res.ResultMsgs[i]
					if pm.Event != w.Event || !bytes.Equal(pm.Data, w.Data) || pm.RecipientAddr != w.RecipientAddr || pm.DkgRoundID != w.DkgRoundID {
						r.mon("C15 posted_exactly_result: a posted message differs from the result message")
					}
					if pm.SenderAddr != n.name || !ed25519.Verify(n.kp.Pub, pm.Data, pm.Signature) {
						r.mon("C15 posted_exactly_result: a posted message is not attributed to / signed by the node")
					}
				}
			}
		}
		// duplicated submission: must be refused, nothing posted, never pending again
		oc2, posted2, _ := r.submit(c, n, res, "duplicate")
		if oc2 == "ok" || posted2 != "" {
			r.mon(fmt.Sprintf("C15 retired_once: a retired %s operation was answered again", op.Type))
		}
		for _, p := range n.pendingOps() {
			if p.ID == res.ID {
				r.mon("C15 retired_once: a retired operation is pending again")
			}
		}
		// the node derives the very same operation again (same round and request, hence the same id), as it does
		// when a request is re-derived: the retired operation must stay retired and unanswerable
		if r.rng.Intn(2) == 0 || r.tier == "thorough" {
			var del []string
			if bz, _ := n.ldb.Get(topic + "_deleted_operations"); len(bz) > 0 {
				dm := map[string]*ctypes.Operation{}
				json.Unmarshal(bz, &dm)
				for _, o := range dm {
					del = append(del, rOpGo(o))
				}
			}
			sort.Strings(del)
			idx := sort.SearchStrings(del, rOpGo(op))
			if idx < len(del) && del[idx] == rOpGo(op) {
				oc := "ok"
				if err := n.opSvc.PutOperation(op); err != nil {
					oc = "reject"
				}
				r.emit(fmt.Sprintf("reput %d", idx), oc+" "+nodeRender(n))
				for _, p := range n.pendingOps() {
					if p.ID == res.ID {
						r.mon("C15 retired_once: a retired operation became pending again when the node derived it a second time")
					}
				}
				oc3, posted3, _ := r.submit(c, n, res, "after-recreate")
				if oc3 == "ok" || posted3 != "" {
					r.mon(fmt.Sprintf("C15 retired_once: a retired %s operation that the node derived a second time was answered and posted again", op.Type))
				}
			}
		}
	}
	return k
}

type resMut struct {
	name string
	op   ctypes.Operation
}

func (r *nodeRun) resultMutations(res ctypes.Operation) []resMut {
	var out []resMut
	cl := func() ctypes.Operation {
		x := res
		x.Payload = append([]byte(nil), res.Payload...)
		x.ResultMsgs = append([]storage.Message(nil), res.ResultMsgs...)
		return x
	}
	x := cl()
	x.ID = "ffffffffffffffffffffffffffffffff"
	out = append(out, resMut{"unknown-id", x})
	// the identifier in another spelling (hex letters in capitals, blanks around it): not the identifier that was issued
	for k, alt := range []string{strings.ToUpper(res.ID), " " + res.ID, res.ID + "\n"} {
		if alt != res.ID {
			x = cl()
			x.ID = alt
			out = append(out, resMut{[]string{"id-uppercase", "id-leading-blank", "id-trailing-newline"}[k], x})
		}
	}
	x = cl()
	x.Type = "state_dkg_deals_await_confirmations"
	if string(res.Type) == "state_dkg_deals_await_confirmations" {
		x.Type = "state_dkg_commits_await_confirmations"
	}
	out = append(out, resMut{"type-changed", x})
	if len(res.Payload) > 2 {
		x = cl()
		x.Payload[len(x.Payload)/2] ^= 1
		out = append(out, resMut{"payload-byte", x})
		x = cl()
		x.Payload = append(x.Payload, ' ')
		out = append(out, resMut{"payload-whitespace", x})
	}
	x = cl()
	x.Event = ""
	x.ResultMsgs = nil
	out = append(out, resMut{"request-only", x})
	return out
}

// errorResults (C15, outside the model's history): the machine's answer to an operation may be an ERROR result (its handler
// failed: here, the commits operation handed to it a second time - "instance already exists"). Such an answer is an answer
// like any other: posted once, the operation retired, a second submission refused.
func (r *nodeRun) errorResults(outDir string) {
	// as the machine wrote it, and the same result carrying 16 / 17 / 33 messages (what the deals step of a ceremony of that
	// many participants carries): however many messages a result holds, exactly those reach the board
	for _, pad := range []int{0, 16, 17, 33} {
		r.errorResultsPadded(outDir, pad)
	}
}

func (r *nodeRun) errorResultsPadded(outDir string, pad int) {
	dir, _ := os.MkdirTemp(outDir, "errres")
	defer os.RemoveAll(dir)
	c, err := newCluster(dir, 2, "pw")
	if err != nil {
		r.mon("harness: " + err.Error())
		return
	}
	defer c.close()
	if _, err := c.startDKG(2); err != nil {
		r.mon("harness: " + err.Error())
		return
	}
	obs := c.nodes[0]
	var op *ctypes.Operation
	for i := 0; i < 10 && op == nil; i++ {
		for _, nd := range c.nodes {
			c.pollOnce(nd, 0)
		}
		for _, o := range obs.pendingOps() {
			if string(o.Type) == "state_dkg_commits_await_confirmations" {
				op = o
			}
		}
		if op == nil {
			for _, nd := range c.nodes {
				c.answerAll(nd)
			}
		}
	}
	if op == nil {
		r.mon("harness: errorResults: the observed node never got its commits operation")
		return
	}
	bz, _ := json.Marshal(op)
	var cold ctypes.Operation
	json.Unmarshal(bz, &cold)
	var res ctypes.Operation
	for attempt := 0; attempt < 2; attempt++ { // the second answer is the machine's error result
		path, err := obs.air.ProcessOperation(cold, true)
		if err != nil {
			r.mon("harness: errorResults: " + err.Error())
			return
		}
		rb, _ := os.ReadFile(path)
		os.Remove(path)
		res = ctypes.Operation{}
		if json.Unmarshal(rb, &res) != nil {
			return
		}
	}
	if !strings.Contains(string(res.Event), "canceled_by_error") {
		r.st.Notes = append(r.st.Notes, "errorResults: the machine's second answer to the commits operation is "+string(res.Event)+", not an error result")
		return
	}
	r.st.ErrorResults++
	for len(res.ResultMsgs) > 0 && len(res.ResultMsgs) < pad {
		cp := res.ResultMsgs[0]
		cp.RecipientAddr = fmt.Sprintf("addressee-%d", len(res.ResultMsgs))
		res.ResultMsgs = append(res.ResultMsgs, cp)
	}
	from := len(c.boardMessages())
	// the result file is submitted TWICE AT THE SAME TIME (a double click, a retried script; the HTTP server handles requests
	// concurrently): the submission that reaches the board first waits there until the other one is at the board too, or 300 ms
	var inside int32
	second := make(chan struct{})
	oldHook := obs.stg.hook
	obs.stg.hook = func(op string, msgs []storage.Message) error {
		if op == "send" {
			if atomic.AddInt32(&inside, 1) == 1 {
				select {
				case <-second:
				case <-time.After(300 * time.Millisecond):
				}
			} else {
				select {
				case <-second:
				default:
					close(second)
				}
			}
		}
		if oldHook != nil {
			return oldHook(op, msgs)
		}
		return nil
	}
	var wg sync.WaitGroup
	var errs [2]error
	for k := 0; k < 2; k++ {
		wg.Add(1)
		go func(k int) {
			defer wg.Done()
			var cp ctypes.Operation
			bz, _ := json.Marshal(res)
			json.Unmarshal(bz, &cp)
			errs[k] = obs.svc.ProcessOperation(opToDTO(&cp))
		}(k)
	}
	wg.Wait()
	obs.stg.hook = oldHook
	r.st.ConcurrentDuplicates++
	if errs[0] != nil && errs[1] != nil {
		r.mon(fmt.Sprintf("C15 posted_exactly_result: the machine's error result (%s) for a pending operation is refused: %v", res.Event, errs[0]))
		return
	}
	if posted := len(c.boardMessages()) - from; posted != len(res.ResultMsgs) {
		r.mon(fmt.Sprintf("C15 posted_exactly_result: the same result file (%s, %d message(s)) submitted twice at the same time: %d messages reached the board (the two requests answered: %v | %v)", res.Event, len(res.ResultMsgs), posted, errs[0], errs[1]))
	} else {
		// each message of the result once, in the order of the result
		bm := c.boardMessages()[from:]
		for k := range res.ResultMsgs {
			if bm[k].RecipientAddr != res.ResultMsgs[k].RecipientAddr || string(bm[k].Data) != string(res.ResultMsgs[k].Data) {
				r.mon(fmt.Sprintf("C15 posted_exactly_result: a result with %d messages: the message posted at place %d is not the result's message %d", len(res.ResultMsgs), k, k))
				break
			}
		}
	}
	for _, p := range obs.pendingOps() {
		if p.ID == res.ID {
			r.mon(fmt.Sprintf("C15 retired_once: after its error result (%s) was accepted and posted the operation is still pending", res.Event))
		}
	}
	from = len(c.boardMessages())
	err = obs.svc.ProcessOperation(opToDTO(&res))
	if posted := len(c.boardMessages()) - from; err == nil || posted > 0 {
		r.mon(fmt.Sprintf("C15 retired_once: the error result (%s) of a retired operation was accepted again (%d more messages posted)", res.Event, posted))
	}
}
