package main

// nodediff, wave 22 (C03): what the observed node DERIVES from a signing proposal is what the proposal ON THE BOARD says,
// and it is what any other reader of the same bytes derives.
//
//   - w22AfterFeed (called by feedOp for every message, before a trial message is rolled back): after every ACCEPTED
//     event_signing_start - genuine, mutated or hand-built - the three things the node keeps are read back: the pending
//     operation for the airgapped machine (its SrcPayload expanded with the very steps of
//     airgapped.handleStateSigningAwaitPartialSigns), the proposal stored in the round state (expanded with the steps of
//     reconstructThresholdSignature) and the placeholders of the signature store. Each must be, message by message and in
//     order, the expansion of the bytes of the board message, which is computed here independently: json.Unmarshal into a
//     fresh variable, then the harness's own reading of the tasks (explicit payload, or the spec signing root of the
//     validator at that list position).                                         -> C03 signs_what_was_proposed
//   - w22OmittedKeys (generator): after an ordinary, genuinely completed signing batch (on the real board, answered by every
//     participant, no mutated messages shown to the observed node in between) proposals whose JSON is written by hand with
//     only the keys a task needs - a baked range without "Payload"/"File", an explicit payload without "RangeStart"/
//     "RangeEnd"/"File", a range with only "RangeEnd", a task list shorter than the one before, keys in another order -
//     each signed with the registered key of a participant and shown to the observed node (then rolled back).
//   - the same message is handed to a node in a process of its own (harness w22fresh: a new OS process, a new state database
//     holding exactly the durable state the observed node had before the message): a node that was restarted in between, or
//     a replica that never saw the earlier proposals. Both must accept or both refuse, and derive the same three things.
//                                                                              -> C03 consumers_agree

import (
	"bytes"
	"crypto/ed25519"
	"encoding/base64"
	"encoding/json"
	"fmt"
	"os"
	"os/exec"
	"path/filepath"
	"sort"
	"strings"
	"time"

	"github.com/lidofinance/dc4bc/client/api/dto"
	"github.com/lidofinance/dc4bc/client/modules/keystore"
	"github.com/lidofinance/dc4bc/fsm/types/requests"
	"github.com/lidofinance/dc4bc/fsm/types/responses"
	"github.com/lidofinance/dc4bc/storage"
)

func init() {
	// harness w22fresh <case file> : one ProcessMessage in a node process of its own (see runW22Fresh). Dispatched here and
	// not in main() because its second argument is a file, not an output directory.
	if len(os.Args) > 2 && os.Args[1] == "w22fresh" {
		runW22Fresh(os.Args[2])
		os.Exit(0)
	}
}

var (
	// w22Quiet: the observed node is shown the genuine messages only (the ordinary batch that precedes the hand-built proposals)
	w22Quiet bool
	// w22Collect: accepted or not, the next signing proposals fed to the observed node are also given to a fresh process
	w22Collect bool
	w22Cases   []w22Case
	// the signing proposal the observed node's process handled before the current one (for the report), and whether its
	// effect was kept
	w22Prev, w22Kept string
	w22Checked       int
	w22Compared      int
)

// w22Filter: the mutations applied around a genuine message (none while an ordinary batch is run for its own sake)
func w22Filter(all []mutation) []mutation {
	if w22Quiet {
		return nil
	}
	return all
}

type w22Msg struct {
	ID      string
	Payload []byte
}

// w22Derived: what a node holds for a proposal after it handled the message
type w22Derived struct {
	Outcome string
	// ToSign: the pending operation for the airgapped machine, expanded; HasOp: there is one for this batch
	HasOp     bool
	ToSign    []w22Msg
	ToSignErr string
	// Kept: the proposal in the round state, expanded (what partial signatures are checked against and reconstructed over)
	HasKept bool
	Kept    []w22Msg
	KeptErr string
	// Stored: the placeholders of the signature store under the proposer's name, by identifier
	Stored map[string][]byte
}

type w22Case struct {
	Name, Variant string
	Pub, Priv     []byte
	Snap          map[string][]byte
	Msg           storage.Message
	Observed      w22Derived
}

func w22List(ms []w22Msg) string {
	parts := make([]string, 0, len(ms))
	for i, m := range ms {
		if i == 6 {
			parts = append(parts, fmt.Sprintf("… %d in all", len(ms)))
			break
		}
		parts = append(parts, fmt.Sprintf("%q=%d bytes %x…", m.ID, len(m.Payload), firstBytes(m.Payload)))
	}
	return "[" + strings.Join(parts, ", ") + "]"
}

func w22Same(a, b []w22Msg) bool {
	if len(a) != len(b) {
		return false
	}
	for i := range a {
		if a[i].ID != b[i].ID || !bytes.Equal(a[i].Payload, b[i].Payload) {
			return false
		}
	}
	return true
}

// w22ExpandSrc: SrcPayload -> tasks -> messages, the steps of the airgapped machine and of the reconstruction
func w22ExpandSrc(src []byte) ([]w22Msg, string) {
	var tasks []requests.SigningTask
	if err := json.Unmarshal(src, &tasks); err != nil {
		return nil, "not a task list: " + err.Error()
	}
	msgs, err := requests.TasksToMessages(tasks)
	if err != nil {
		return nil, err.Error()
	}
	out := make([]w22Msg, 0, len(msgs))
	for _, m := range msgs {
		out = append(out, w22Msg{m.MessageID, m.Payload})
	}
	return out, ""
}

// w22Derive reads back what the node holds for the batch of this proposal
func w22Derive(n *vnode, m storage.Message, batch, outcome string) w22Derived {
	d := w22Derived{Outcome: outcome, Stored: map[string][]byte{}}
	for _, op := range n.pendingOps() {
		if string(op.Type) != "state_signing_await_partial_signs" || op.DKGIdentifier != m.DkgRoundID {
			continue
		}
		var inv responses.SigningPartialSignsParticipantInvitationsResponse
		if json.Unmarshal(op.Payload, &inv) != nil || inv.BatchID != batch {
			continue
		}
		d.HasOp = true
		d.ToSign, d.ToSignErr = w22ExpandSrc(inv.SrcPayload)
	}
	if dump, err := n.fsmSvc.GetFSMDump(&dto.DkgIdDTO{DkgID: m.DkgRoundID}); err == nil && dump != nil && dump.Payload != nil &&
		dump.Payload.SigningProposalPayload != nil && dump.Payload.SigningProposalPayload.BatchID == batch &&
		string(dump.State) == "state_signing_await_partial_signs" {
		d.HasKept = true
		d.Kept, d.KeptErr = w22ExpandSrc(dump.Payload.SigningProposalPayload.SrcPayload)
	}
	if stor, err := n.sigSvc.GetSignatures(&dto.DkgIdDTO{DkgID: m.DkgRoundID}); err == nil {
		for _, entries := range stor[batch] {
			for _, e := range entries {
				if e.Username == m.SenderAddr && len(e.Signature) == 0 {
					d.Stored[e.MessageID] = append([]byte{}, e.SrcPayload...)
				}
			}
		}
	}
	return d
}

func w22Stored(s map[string][]byte) string {
	ids := make([]string, 0, len(s))
	for id := range s {
		ids = append(ids, id)
	}
	sort.Strings(ids)
	ms := make([]w22Msg, 0, len(ids))
	for _, id := range ids {
		ms = append(ms, w22Msg{id, s[id]})
	}
	return w22List(ms)
}

// w22AfterFeed: see the head of the file. snap is the durable state before the message (trial messages only).
func w22AfterFeed(r *nodeRun, c *cluster, n *vnode, m storage.Message, kind, opName, outcome string, snap map[string][]byte) {
	if m.Event != "event_signing_start" {
		return
	}
	prev := w22Prev
	w22Prev = truncate(string(m.Data), 300)
	switch {
	case outcome == "ok" && opName == "msg":
		w22Prev += " (accepted, an ordinary batch that was then answered by everybody)"
		w22Kept = string(m.Data)
	case outcome == "ok":
		w22Prev += " (accepted; its effect on the stored state was rolled back by the harness)"
	case string(m.Data) == w22Kept:
		w22Prev += " (accepted, an ordinary batch that was then answered by everybody; delivered a second time and refused)"
	default:
		w22Prev += " (refused)"
	}
	// the board message read independently: a fresh variable for every message
	var onBoard struct {
		BatchID      string
		SigningTasks []requests.SigningTask
	}
	if json.Unmarshal(m.Data, &onBoard) != nil {
		return
	}
	d := w22Derive(n, m, onBoard.BatchID, outcome)
	if w22Collect && snap != nil {
		w22Cases = append(w22Cases, w22Case{Name: n.name, Variant: kind, Pub: n.kp.Pub, Priv: n.kp.Priv, Snap: snap, Msg: m, Observed: d})
	}
	if outcome != "ok" || onBoard.BatchID == "" {
		return
	}
	w22Checked++
	var proposed []w22Msg
	for _, e := range expandTasks(onBoard.SigningTasks) {
		proposed = append(proposed, w22Msg{e.id, e.payload})
	}
	hist := "no signing proposal was handled by this node process before it"
	if prev != "" {
		hist = "the signing proposal this node process handled before it: " + prev
	}
	what := fmt.Sprintf("the %s proposal %s from %s on the board says %s", kind, truncate(string(m.Data), 300), m.SenderAddr, w22List(proposed))
	if d.HasOp && (d.ToSignErr != "" || !w22Same(proposed, d.ToSign)) {
		got := w22List(d.ToSign)
		if d.ToSignErr != "" {
			got = "an error (" + truncate(d.ToSignErr, 80) + ")"
		}
		if d.HasKept && d.KeptErr == d.ToSignErr && w22Same(d.Kept, d.ToSign) {
			got += " (and so does the proposal it keeps in the round state, which partial signatures are checked against and the signature is reconstructed over)"
		}
		r.mon(fmt.Sprintf("C03 signs_what_was_proposed: %s; the operation the node hands to the airgapped machine for this batch expands to %s; %s", what, got, hist))
		if d.HasKept && d.KeptErr == d.ToSignErr && w22Same(d.Kept, d.ToSign) {
			return
		}
	}
	if d.HasKept && (d.KeptErr != "" || !w22Same(proposed, d.Kept)) {
		got := w22List(d.Kept)
		if d.KeptErr != "" {
			got = "an error (" + truncate(d.KeptErr, 80) + ")"
		}
		r.mon(fmt.Sprintf("C03 signs_what_was_proposed (checked against): %s; the proposal the node keeps in the round state, which partial signatures are checked against and the signature is reconstructed over, expands to %s; %s", what, got, hist))
	}
}

// w22HandBuilt: a proposal as a foreign client may write it - only the keys it needs
func w22HandBuilt(batch string, pid int, tasks string) []byte {
	return []byte(fmt.Sprintf(`{"BatchID":%q,"ParticipantId":%d,"CreatedAt":%q,"SigningTasks":%s}`, batch, pid, time.Now().UTC().Format(time.RFC3339Nano), tasks))
}

// w22OmittedKeys: see the head of the file. The round is idle when this is called and idle again afterwards.
func (r *nodeRun) w22OmittedKeys(c *cluster, obs *vnode, round string, pumpAll func(int)) {
	n := len(c.nodes)
	b64 := func(s string) string { return base64.StdEncoding.EncodeToString([]byte(s)) }
	ordinary := [][]requests.SigningTask{
		{{MessageID: "w22-a", File: "first file.txt", Payload: []byte("the ordinary batch signs this file")},
			{MessageID: "w22-b", File: "second.bin", Payload: []byte{0, 1, 2, 3}},
			{MessageID: "w22-c", File: "third", Payload: []byte("and this one")}},
		{{MessageID: "w22-r", File: "w22-r", RangeStart: 4, RangeEnd: 6},
			{MessageID: "w22-d", File: "d.bin", Payload: []byte("an explicit task after a range")}},
	}
	handBuilt := [][][2]string{
		{
			{"range-without-payload-key", `[{"MessageID":"w22-range","RangeStart":1,"RangeEnd":3}]`},
			{"payload-without-file-and-range-keys", `[{"MessageID":"w22-nofile","Payload":"` + b64("a payload and nothing else") + `"}]`},
			{"second-task-range-end-only", `[{"MessageID":"w22-x","File":"x.bin","Payload":"` + b64("x") + `"},{"MessageID":"w22-r2","RangeEnd":2}]`},
			{"shorter-list-keys-reordered", `[{"RangeEnd":1,"MessageID":"w22-short"}]`},
		},
		{
			{"payload-without-range-keys", `[{"MessageID":"w22-expl","File":"e.bin","Payload":"` + b64("explicit after a range") + `"}]`},
			{"range-end-only", `[{"MessageID":"w22-onlyend","RangeEnd":1}]`},
			{"empty-range-then-range", `[{"MessageID":"w22-e0"},{"MessageID":"w22-e1","RangeStart":7,"RangeEnd":8}]`},
			{"range-without-payload-key-2", `[{"File":"named.bin","MessageID":"w22-range2","RangeStart":2,"RangeEnd":3},{"MessageID":"w22-range3","RangeStart":9,"RangeEnd":10}]`},
		},
	}
	for set := range ordinary {
		// (the round is idle, or - after a batch that failed - cancelled: the next proposal restarts it)
		if st := c.roundState(obs, round); st != "stage_signing_idle" && !strings.Contains(st, "cancelled_by_error") {
			if len(r.st.Notes) < 30 {
				r.st.Notes = append(r.st.Notes, "w22OmittedKeys: the observed node's round is in "+st+", neither idle nor cancelled")
			}
			return
		}
		// an ordinary batch, proposed, signed by everybody and completed; the observed node sees the genuine messages only
		w22Quiet = true
		_, err := c.proposeTasks(c.nodes[r.rng.Intn(n)], round, ordinary[set])
		if err == nil {
			pumpAll(20)
			pumpAll(20)
		}
		w22Quiet = false
		if err != nil {
			r.mon("harness: w22OmittedKeys: " + err.Error())
			return
		}
		if st := c.roundState(obs, round); st != "stage_signing_idle" {
			if len(r.st.Notes) < 30 {
				r.st.Notes = append(r.st.Notes, "w22OmittedKeys: after the ordinary batch the observed node's round is in "+st)
			}
			return
		}
		// the hand-built proposals, each signed by a registered participant
		who := c.nodes[(obs.idx+1+set)%n]
		inst, err := obs.fsmSvc.GetFSMInstance(round, false)
		if err != nil {
			return
		}
		pid, err := inst.GetIDByUsername(who.name)
		if err != nil {
			return
		}
		w22Collect, w22Cases = true, nil
		for k, hb := range handBuilt[set] {
			data := w22HandBuilt(fmt.Sprintf("w22-batch-%d-%d-%d", r.st.Scenarios, set, k), pid, hb[1])
			m := storage.Message{ID: fmt.Sprintf("w22-%d-%d-%d", r.st.Scenarios, set, k), DkgRoundID: round, Event: "event_signing_start", Data: data, SenderAddr: who.name}
			m.Signature = ed25519.Sign(who.kp.Priv, m.Bytes())
			res := r.feedOp(c, obs, m, "mut:w22-"+hb[0], "trymsg")
			r.st.Mutated++
			r.st.MutationHist["w22-"+hb[0]+"/"+res.outcome]++
		}
		w22Collect = false
		r.w22FreshProcess(w22Cases)
		w22Cases = nil
	}
	if len(r.st.Notes) < 30 {
		r.st.Notes = append(r.st.Notes, fmt.Sprintf("w22: so far %d accepted proposals read back, %d hand-built proposals also given to a node process of its own", w22Checked, w22Compared))
	}
}

// w22FreshProcess: each case again, in a node process of its own, and the comparison of what the two derived
func (r *nodeRun) w22FreshProcess(cases []w22Case) {
	exe, err := os.Executable()
	if err != nil {
		r.mon("harness: w22FreshProcess: " + err.Error())
		return
	}
	for _, cs := range cases {
		dir, err := os.MkdirTemp("", "w22fresh")
		if err != nil {
			r.mon("harness: w22FreshProcess: " + err.Error())
			return
		}
		in := filepath.Join(dir, "case.json")
		bz, _ := json.Marshal(cs)
		os.WriteFile(in, bz, 0o644)
		out, err := exec.Command(exe, "w22fresh", in).Output()
		os.RemoveAll(dir)
		var fresh w22Derived
		if err != nil || json.Unmarshal(out, &fresh) != nil {
			r.mon(fmt.Sprintf("harness: w22FreshProcess: the fresh process failed on %s: %v %s", cs.Variant, err, truncate(string(out), 200)))
			continue
		}
		ob := cs.Observed
		w22Compared++
		what := fmt.Sprintf("the %s proposal %s from %s", cs.Variant, truncate(string(cs.Msg.Data), 300), cs.Msg.SenderAddr)
		who := "the observed node (running since the start of the ceremony) and a node started on the same stored state just before the message"
		switch {
		case ob.Outcome != fresh.Outcome:
			r.mon(fmt.Sprintf("C03 consumers_agree: %s: %s do not agree on the proposal itself: the first answers %s, the second %s", what, who, ob.Outcome, fresh.Outcome))
		case ob.ToSignErr != fresh.ToSignErr || ob.HasOp != fresh.HasOp || !w22Same(ob.ToSign, fresh.ToSign):
			r.mon(fmt.Sprintf("C03 consumers_agree: %s: %s expand the request for the airgapped machine differently: %s against %s", what, who, w22List(ob.ToSign), w22List(fresh.ToSign)))
		case ob.KeptErr != fresh.KeptErr || ob.HasKept != fresh.HasKept || !w22Same(ob.Kept, fresh.Kept):
			r.mon(fmt.Sprintf("C03 consumers_agree: %s: %s keep different lists to check partial signatures against: %s against %s", what, who, w22List(ob.Kept), w22List(fresh.Kept)))
		case w22Stored(ob.Stored) != w22Stored(fresh.Stored):
			r.mon(fmt.Sprintf("C03 consumers_agree: %s: %s store different payloads next to the signatures to come: %s against %s", what, who, w22Stored(ob.Stored), w22Stored(fresh.Stored)))
		}
	}
}

// runW22Fresh: a node process of its own. The state database is new and holds the values the observed node's had before the
// message; the board is an empty file (nothing is read from it). Prints what this node derives, as JSON.
func runW22Fresh(path string) {
	restore := silenceStdout()
	fail := func(err error) {
		restore()
		fmt.Fprintln(os.Stderr, err)
		os.Exit(1)
	}
	bz, err := os.ReadFile(path)
	if err != nil {
		fail(err)
	}
	var cs w22Case
	if err := json.Unmarshal(bz, &cs); err != nil {
		fail(err)
	}
	dir := filepath.Join(filepath.Dir(path), "node")
	os.MkdirAll(dir, 0o755)
	c := &cluster{dir: dir, board: filepath.Join(dir, "board.txt"), lock: filepath.Join(dir, "board.lock")}
	v := &vnode{name: cs.Name, dir: dir, lg: &memLogger{name: cs.Name}, kp: &keystore.KeyPair{Pub: cs.Pub, Priv: cs.Priv}}
	if v.ks, err = keystore.NewLevelDBKeyStore(v.name, filepath.Join(dir, "keystore")); err != nil {
		fail(err)
	}
	if err := v.ks.PutKeys(v.name, v.kp); err != nil {
		fail(err)
	}
	// the stored state first: the services read it when they are created
	{
		if err := c.buildNodeServices(v); err != nil {
			fail(err)
		}
		for k, val := range cs.Snap {
			if val != nil {
				if err := v.ldb.Set(k, val); err != nil {
					fail(err)
				}
			}
		}
		v.ldb.VerifClose()
		v.stg.Close()
		if err := c.buildNodeServices(v); err != nil {
			fail(err)
		}
	}
	outcome := "ok"
	func() {
		defer func() {
			if rec := recover(); rec != nil {
				outcome = "panic"
			}
		}()
		if err := v.svc.ProcessMessage(cs.Msg); err != nil {
			outcome = "reject"
		}
	}()
	var onBoard struct{ BatchID string }
	json.Unmarshal(cs.Msg.Data, &onBoard)
	d := w22Derive(v, cs.Msg, onBoard.BatchID, outcome)
	out, _ := json.Marshal(d)
	restore()
	os.Stdout.Write(out)
}
