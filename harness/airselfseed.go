package main

// C12, second sentence, with the two ways a machine comes to its seed: a machine started on an EMPTY database generates a
// mnemonic, prints it ("Write down your mnemonic") and keeps the seed of that mnemonic; a second machine is created from
// the written-down mnemonic with the operator's set_seed (SetBaseSeed + GenerateKeys). Same mnemonic: same base seed, same
// long-term key, and fed the same operations the same commitments, answers and share.

import (
	"bytes"
	"fmt"
	"log"
	"os"
	"path/filepath"
	"strings"

	"github.com/lidofinance/dc4bc/airgapped"
	"github.com/lidofinance/dc4bc/client/types"
)

// firstStart opens a machine on an empty database directory and returns it with the mnemonic it printed (the machine
// logs through the std logger; the operator reads the line and writes the words down, cmd/airgapped trims " \n")
func firstStart(dbPath string) (*airgapped.Machine, string, error) {
	var buf bytes.Buffer
	old := log.Writer()
	log.SetOutput(&buf)
	m, err := airgapped.NewMachine(dbPath)
	log.SetOutput(old)
	if err != nil {
		return nil, "", err
	}
	const marker = "Write down your mnemonic:"
	for _, line := range strings.Split(buf.String(), "\n") {
		if i := strings.Index(line, marker); i >= 0 {
			return m, strings.Trim(line[i+len(marker):], " \n"), nil
		}
	}
	m.VerifCloseDB()
	return nil, "", fmt.Errorf("a machine started on an empty database printed no mnemonic: %q", truncate(buf.String(), 200))
}

func (a *airRun) selfSeedScenario(outDir string, n, t int) {
	dir, _ := os.MkdirTemp(outDir, "selfseed")
	defer os.RemoveAll(dir)
	c, err := newCluster(dir, n, "pw")
	if err != nil {
		a.mon("harness: " + err.Error())
		return
	}
	defer c.close()
	// participant 0's machine is one that was never given a mnemonic: first start on an empty database, keys from the seed
	// it generated itself
	g := c.nodes[0]
	g.air.VerifCloseDB()
	gdb := filepath.Join(g.dir, "airgapped")
	os.RemoveAll(gdb)
	gm, mnemonic, err := firstStart(gdb)
	if err != nil {
		g.air = nil
		a.mon("harness: self-seeded machine: " + err.Error())
		return
	}
	g.air = gm
	gm.SetEncryptionKey([]byte("pw"))
	if err := gm.InitKeys(); err != nil {
		a.mon("harness: self-seeded machine: " + err.Error())
		return
	}
	gm.SetResultFolder(filepath.Join(g.dir, "results"))
	tag := fmt.Sprintf("(n=%d,t=%d) machine A started on an empty database and kept the seed of the mnemonic it printed, machine B created with set_seed from that mnemonic", n, t)
	// the machine made from the written-down words
	sm, err := newMachine(filepath.Join(dir, "from-mnemonic"), "pw", mnemonic)
	if err != nil {
		a.mon(fmt.Sprintf("C12 same_mnemonic_same_keys %s: set_seed refuses the printed mnemonic: %v", tag, err))
		return
	}
	defer sm.VerifCloseDB()
	a.st.SelfSeeded++
	if sa, sb := gm.VerifBaseSeed(), sm.VerifBaseSeed(); !bytes.Equal(sa, sb) {
		a.mon(fmt.Sprintf("C12 same_mnemonic_same_keys %s: base seeds differ: A %x…, B %x…", tag, sa[:8], sb[:8]))
	}
	pa, _ := gm.GetPubKey().MarshalBinary()
	pb, _ := sm.GetPubKey().MarshalBinary()
	if !bytes.Equal(pa, pb) {
		a.mon(fmt.Sprintf("C12 same_mnemonic_same_keys %s: long-term keys differ: A %x…, B %x…", tag, pa[:8], pb[:8]))
	}
	// a ceremony with A; what A answered to each operation
	var ref []string
	c.resultHook = func(nd *vnode, res *types.Operation) {
		if nd == g {
			k := "result"
			if strings.Contains(string(res.Event), "error") || strings.Contains(string(res.Event), "failed") {
				k = "error-result"
			}
			ref = append(ref, resultDigest(airOutcome{kind: k, result: res}))
		}
	}
	round, err := c.startDKG(t)
	if err != nil {
		a.mon("harness: " + err.Error())
		return
	}
	for _, e := range c.pump(40) {
		a.note("self-seeded ceremony: " + e)
	}
	if st := c.roundState(g, round); st != "stage_signing_idle" {
		a.note("self-seeded ceremony ended in " + st)
		return
	}
	want, _ := keyringOf(gm, round)
	// B is fed the operations A was fed
	for i, op := range g.coldLog {
		got := resultDigest(tryOperation(sm, op, true))
		a.st.CloneOps++
		if i < len(ref) && !digestsEqual(got, ref[i]) {
			what := "answers"
			if strings.Contains(string(op.Type), "commits") {
				what = "commitments"
			}
			a.mon(fmt.Sprintf("C12 same_mnemonic_same_keys %s: fed the same %s operation the %s differ: B %s, A %s", tag, op.Type, what, truncate(got, 160), truncate(ref[i], 160)))
			break
		}
	}
	if got, _ := keyringOf(sm, round); got != want {
		a.mon(fmt.Sprintf("C12 same_mnemonic_same_keys %s: fed the same operations B holds %s, A %s", tag, truncate(got, 90), truncate(want, 90)))
	}
}
