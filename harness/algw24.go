package main

// Two more batches on the real ceremonies of algdiff, and one more monitor (C03 every_identifier_signed):
//
//   bigPayloadBatch (C01, C03): a batch proposed through the API whose explicit payloads are LONG (around and above 1 KiB,
//   several KiB, more than 64 KiB - a file as people sign them) next to a short one. The existing checks apply: every partial
//   signature on the board is a share signature over the proposed bytes, every stored / broadcast value verifies with prysm
//   under the group key over exactly the proposed payload and carries that payload.
//
//   samePayloadTwiceBatch (C03): a batch in which two explicit tasks carry BYTE-IDENTICAL payloads under two different
//   identifiers and file names (the same file submitted twice), an unrelated payload between them and a baked range after
//   them (the dual of algdiff's crafted batch, where one identifier is used by two tasks).
//
//   identifiersAnswered / identifiersStored (C03 every_identifier_signed): "for EVERY message identifier in a proposed batch
//   the bytes the airgapped machine signs ... every participant expands the same proposal into the same ordered list of
//   identifiers": the answer of a machine that reports success (event_signing_partial_sign_received) lists, in the proposal's
//   order, exactly the identifiers the proposal expands to; and when every signer answered, every node that polls holds a
//   final signature under every identifier of the proposal, next to the proposed payload.

import (
	"bytes"
	"encoding/json"
	"fmt"
	"strings"

	"github.com/corestario/kyber"
	"github.com/lidofinance/dc4bc/client/api/dto"
	"github.com/lidofinance/dc4bc/fsm/types/requests"
)

// proposalTasks: the tasks of the proposal of this batch as they are on the board
func (c *cluster) proposalTasks(batch string) []requests.SigningTask {
	var tasks []requests.SigningTask
	for _, m := range c.boardMessages() {
		if m.Event != "event_signing_start" {
			continue
		}
		var r requests.SigningBatchProposalStartRequest
		if json.Unmarshal(m.Data, &r) == nil && r.BatchID == batch {
			tasks = r.SigningTasks
		}
	}
	return tasks
}

func quoteIDs(ids []string) string {
	q := make([]string, len(ids))
	for i, s := range ids {
		q[i] = fmt.Sprintf("%q", s)
	}
	return "[" + strings.Join(q, " ") + "]"
}

// identifiersAnswered (C03): every answer with partial signatures that a participant's machine put on the board for this
// batch names the identifiers the proposal expands to, all of them, in the proposal's order.
func (a *algRun) identifiersAnswered(c *cluster, batch string, tasks []requests.SigningTask) {
	if batch == "" || len(tasks) == 0 {
		return
	}
	var wantIDs []string
	for _, m := range expandTasks(tasks) {
		wantIDs = append(wantIDs, m.id)
	}
	for _, m := range c.boardMessages() {
		if m.Event != "event_signing_partial_sign_received" {
			continue
		}
		var req requests.SigningProposalBatchPartialSignRequests
		if json.Unmarshal(m.Data, &req) != nil || req.BatchID != batch {
			continue
		}
		var got []string
		has := map[string]bool{}
		for _, ps := range req.PartialSigns {
			got = append(got, ps.MessageID)
			has[ps.MessageID] = true
		}
		var missing []string
		seen := map[string]bool{}
		for _, id := range wantIDs {
			if !has[id] && !seen[id] {
				missing = append(missing, id)
			}
			seen[id] = true
		}
		if len(missing) > 0 {
			a.mon(fmt.Sprintf("C03 every_identifier_signed (batch %.16s): the machine of %s answered with success (event_signing_partial_sign_received) but its answer has no partial signature for identifier(s) %s of the proposal; the proposal expands to %s, the answer lists %s",
				batch, m.SenderAddr, quoteIDs(missing), quoteIDs(wantIDs), quoteIDs(got)))
			continue
		}
		if strings.Join(got, "\x00") != strings.Join(wantIDs, "\x00") {
			a.mon(fmt.Sprintf("C03 same_ordered_list (batch %.16s): the machine of %s expanded the proposal into the identifiers %s, the proposal's ordered list is %s",
				batch, m.SenderAddr, quoteIDs(got), quoteIDs(wantIDs)))
		}
	}
}

// identifiersStored (C03): after a batch that every listed signer answered with success and everybody polled through, every
// node holds, under every identifier of the proposal, a final signature next to the payload the proposal gives for it.
func (a *algRun) identifiersStored(c *cluster, round, batch string, tasks []requests.SigningTask, tag string) {
	if batch == "" || len(tasks) == 0 {
		return
	}
	want := lastPerID(expandTasks(tasks))
	for i, n := range c.nodes {
		stor, err := n.sigSvc.GetSignatures(&dto.DkgIdDTO{DkgID: round})
		if err != nil {
			continue // reported by checkSignatures (C07 store)
		}
		for _, w := range want {
			final, samePayload := 0, 0
			for _, rs := range stor[batch][w.id] {
				if len(rs.Signature) == 0 {
					continue
				}
				final++
				if bytes.Equal(rs.SrcPayload, w.payload) {
					samePayload++
				}
			}
			if final == 0 {
				a.mon(fmt.Sprintf("C03 every_identifier_signed %s: node %d holds no final signature under identifier %q (file %q, %d bytes) of batch %.16s although every signer answered with success and the batch is finished: the proposal's identifier was not signed",
					tag, i, w.id, w.file, len(w.payload), batch))
			} else if samePayload != final {
				a.mon(fmt.Sprintf("C03 stored_payload %s: node %d keeps, under identifier %q of batch %.16s, %d final signature(s) of which %d stand next to the proposed payload (%d bytes)",
					tag, i, w.id, batch, final, samePayload, len(w.payload)))
			}
		}
	}
}

func (a *algRun) w24Batches(c *cluster, round string, secret kyber.Scalar, gk []byte, t int, tag string) {
	n := len(c.nodes)
	fill := func(k int) []byte {
		p := make([]byte, k)
		a.rng.Read(p)
		return p
	}
	// --- long explicit payloads, through the API
	{
		c.pollAllNodes()
		big := []int{1025, 1500, 5000, 70000}[a.rng.Intn(4)]
		if a.rng.Intn(3) == 0 {
			big = 1025 + a.rng.Intn(7000)
		}
		edge := []int{1000, 1023, 1024}[a.rng.Intn(3)]
		text := []byte(strings.Repeat("a line of a long text that is signed as it is, byte for byte\n", 1+big/61))[:big]
		data := map[string][]byte{
			fmt.Sprintf("long text of %d bytes.txt", big): text,
			fmt.Sprintf("%d bytes.bin", edge):            fill(edge),
			"short.bin":                                  fill(1 + a.rng.Intn(40)),
		}
		if a.rng.Intn(2) == 0 {
			k := 1025 + a.rng.Intn(3000)
			data[fmt.Sprintf("random %d bytes.bin", k)] = fill(k)
		}
		var sizes []string
		for f, p := range data {
			sizes = append(sizes, fmt.Sprintf("%q:%d bytes", f, len(p)))
		}
		sortStrings(sizes)
		perm := a.rng.Perm(n)
		signers := perm[:t+a.rng.Intn(n-t+1)]
		late := perm[len(signers):]
		batch, want, berrs := a.signBatch(c, round, a.rng.Intn(n), data, [2]int{}, signers, late, a.rng.Intn(2) == 0)
		a.st.Batches++
		a.st.BigPayloadBatches++
		for _, e := range berrs {
			a.st.Notes = append(a.st.Notes, fmt.Sprintf("%s long-payload batch signers=%v late=%v: %s", tag, signers, late, truncate(e, 200)))
		}
		tg := fmt.Sprintf("%s batch %.16s with long explicit payloads {%s} signers=%v late=%v", tag, batch, strings.Join(sizes, ", "), signers, late)
		a.checkSignatures(c, round, batch, secret, gk, want, tg)
		a.identifiersStored(c, round, batch, c.proposalTasks(batch), tg)
	}
	// --- one payload under two identifiers
	{
		c.pollAllNodes()
		start := a.rng.Intn(18600)
		same := fill(1 + a.rng.Intn(60))
		if a.rng.Intn(3) == 0 {
			same = specSigningRoot(mustU64(func() string {
				if m, err := requests.ReconstructBakedMessage(start + 1); err == nil {
					return m.MessageID
				}
				return "0"
			}())) // an explicit payload equal to the signing root of a validator of the batch's range
		}
		other := fill(1 + a.rng.Intn(60))
		tasks := []requests.SigningTask{
			{MessageID: "lot 7.txt_QwErT", File: "lot 7.txt", Payload: same},
			{MessageID: "unrelated.bin_aBcDe", File: "unrelated.bin", Payload: other},
			{MessageID: "лот 7 (копия).txt_ZxCvB", File: "лот 7 (копия).txt", Payload: append([]byte(nil), same...)},
			{MessageID: "r", File: "r", RangeStart: start, RangeEnd: start + 2},
		}
		if a.rng.Intn(2) == 0 {
			// the range first, the two copies next to each other
			tasks = []requests.SigningTask{tasks[3], tasks[0], tasks[2], tasks[1]}
		}
		a.craft = tasks
		order := a.rng.Perm(n) // everybody answers
		batch, want, berrs := a.signBatch(c, round, a.rng.Intn(n), nil, [2]int{}, order, nil, a.rng.Intn(2) == 0)
		a.st.Batches++
		a.st.CraftedBatches++
		a.st.SamePayloadBatches++
		for _, e := range berrs {
			a.st.Notes = append(a.st.Notes, fmt.Sprintf("%s same-payload-twice batch signers=%v: %s", tag, order, truncate(e, 200)))
		}
		var ids []string
		for _, m := range expandTasks(tasks) {
			ids = append(ids, m.id)
		}
		tg := fmt.Sprintf("%s batch %.16s in which the identifiers \"lot 7.txt_QwErT\" and \"лот 7 (копия).txt_ZxCvB\" carry the same %d bytes (identifiers of the proposal, in order: %s) signers=%v", tag, batch, len(same), quoteIDs(ids), order)
		a.checkSignatures(c, round, batch, secret, gk, want, tg)
		a.identifiersStored(c, round, batch, tasks, tg)
	}
}

func sortStrings(s []string) {
	for i := 1; i < len(s); i++ {
		for j := i; j > 0 && s[j] < s[j-1]; j-- {
			s[j], s[j-1] = s[j-1], s[j]
		}
	}
}

// shortHex: a payload for a monitor line: in full up to 64 bytes, else its length and its first bytes
func shortHex(p []byte) string {
	if len(p) <= 64 {
		return fmt.Sprintf("%x", p)
	}
	return fmt.Sprintf("(%d bytes) %x…", len(p), p[:24])
}
