package main

// Additions of wave 24 to the node driver (nodediff):
//
//   - C10/C02 w24ForeignBefore: the variant "another registered participant S signs, with its own key and under its own name, a
//     payload that names participant P" is shown for EVERY key-generation message BEFORE the genuine message of P, i.e. while
//     P's contribution is still awaited (the sampled mutations reach that combination only now and then, and applied after the
//     genuine message the round machine refuses it anyway because P has answered).
//   - C02 w24HeldBackAnnouncement: a ceremony in which the airgapped machine of one participant k has NOT executed its last step
//     while a registered participant posts the agreed key and polynomial in k's name. Whenever a node is signing-ready, every
//     machine holds a share for the round.
//   - C09 w24ReinitInnerID: an unsigned re-initialisation message whose envelope names a round nobody holds while the dkg_id
//     inside names a round the node holds, with new keys for the participants.
//   - C08 w24LookAlikeRoundIDs: opening proposals under round ids that equal an existing id up to white space.

import (
	"bytes"
	"crypto/ed25519"
	"encoding/json"
	"fmt"
	"os"
	"sort"
	"strings"
	"time"

	"github.com/lidofinance/dc4bc/client/api/dto"
	"github.com/lidofinance/dc4bc/client/modules/keystore"
	ctypes "github.com/lidofinance/dc4bc/client/types"
	"github.com/lidofinance/dc4bc/fsm/types/requests"
	"github.com/lidofinance/dc4bc/storage"
)

// w24ForeignBefore: see above. apply is the closure of observerPoll (tried and rolled back, acceptance reported under C10).
func w24ForeignBefore(r *nodeRun, m storage.Message, all []mutation, apply func(mutation)) {
	if !strings.HasPrefix(m.Event, "event_dkg_") {
		return
	}
	for _, mu := range all {
		if mu.name == "foreign-participant-id" {
			apply(mu)
			r.st.W24ForeignBefore++
		}
	}
}

// w24RoundRaw: what the node keeps for one round, byte for byte: its dump inside the round table, its signature store, and the
// communication keys registered in it (name=key, sorted).
func w24RoundRaw(n *vnode, round string) (dump, store []byte, keys string) {
	m := map[string][]byte{}
	if bz, _ := n.ldb.Get(topic + "_fsm_state"); len(bz) > 0 {
		json.Unmarshal(bz, &m)
	}
	dump = m[round]
	store, _ = n.ldb.Get("signatures_" + round)
	var ks []string
	for u, k := range registeredKeys(n, round) {
		ks = append(ks, fmt.Sprintf("%q=%x", u, k))
	}
	sort.Strings(ks)
	return dump, store, strings.Join(ks, ",")
}

func w24RoundIDs(n *vnode) []string {
	m := map[string][]byte{}
	if bz, _ := n.ldb.Get(topic + "_fsm_state"); len(bz) > 0 {
		json.Unmarshal(bz, &m)
	}
	var out []string
	for r := range m {
		out = append(out, r)
	}
	sort.Strings(out)
	return out
}

func w24Process(r *nodeRun, n *vnode, m storage.Message, what string) (err error) {
	defer func() {
		if rec := recover(); rec != nil {
			r.mon(fmt.Sprintf("C18 never_panics: ProcessMessage panicked on %s: %v", what, rec))
			err = fmt.Errorf("panic")
		}
	}()
	if bz, e := json.Marshal(m); e == nil {
		probe("node ProcessMessage(" + truncate(string(bz), 4000) + ")")
	}
	return n.svc.ProcessMessage(m)
}

// w24Probes: called where reinitProbes is called (the key generation of the scenario is over, the round is idle).
func (r *nodeRun) w24Probes(c *cluster, obs *vnode, round string) {
	r.w24ReinitInnerID(c, obs, round)
	r.w24LookAlikeRoundIDs(c, obs, round)
}

// w24ReinitInnerID (C09): the re-initialisation message is exempt from the signature rule because it is confirmed out of band -
// for the round it creates. One that arrives for a round the node already holds is an unsigned message from a stranger: every
// existing round (its registered keys included), the operation pool and the signature store stay exactly as they were, and a
// message signed with the stranger's key in a participant's name is refused afterwards as it was before.
func (r *nodeRun) w24ReinitInnerID(c *cluster, obs *vnode, round string) {
	d, err := obs.fsmSvc.GetFSMDump(&dto.DkgIdDTO{DkgID: round})
	if err != nil || d.Payload == nil || d.Payload.SignatureProposalPayload == nil {
		return
	}
	mallory := keystore.NewKeyPair()
	var parts []ctypes.Participant
	var ids []int
	for id := range d.Payload.SignatureProposalPayload.Quorum {
		ids = append(ids, id)
	}
	sort.Ints(ids)
	for _, id := range ids {
		p := d.Payload.SignatureProposalPayload.Quorum[id]
		parts = append(parts, ctypes.Participant{Name: p.Username, DKGPubKey: p.DkgPubKey, OldCommPubKey: p.PubKey, NewCommPubKey: mallory.Pub})
	}
	if len(parts) == 0 {
		return
	}
	victim := parts[len(parts)-1].Name
	if victim == obs.name && len(parts) > 1 {
		victim = parts[0].Name
	}
	victimID := -1
	for _, id := range ids {
		if d.Payload.SignatureProposalPayload.Quorum[id].Username == victim {
			victimID = id
		}
	}
	// a signing proposal in the victim's name, signed with the stranger's key
	forgedReq := requests.SigningBatchProposalStartRequest{BatchID: "w24-forged-after-reinit-probe", ParticipantId: victimID, CreatedAt: time.Now(),
		SigningTasks: []requests.SigningTask{{MessageID: "forged", File: "forged.bin", Payload: []byte("never proposed by its alleged sender")}}}
	fbz, _ := json.Marshal(forgedReq)
	forged := storage.Message{ID: "w24-forged", DkgRoundID: round, Event: "event_signing_start", Data: fbz, Signature: ed25519.Sign(mallory.Priv, fbz), SenderAddr: victim}
	// the inner messages: the board of the original ceremony (what a real file carries), or none
	board := c.boardMessages()
	for _, v := range []struct {
		name     string
		envelope string
		inner    []storage.Message
	}{
		{"envelope fresh, dkg_id = an existing round, new keys, no inner messages", "w24-round-nobody-holds-a", nil},
		{"envelope fresh, dkg_id = an existing round, new keys, the board of the ceremony inside", "w24-round-nobody-holds-b", board},
	} {
		re := ctypes.ReDKG{DKGID: round, Threshold: 2, Participants: parts, Messages: v.inner}
		payload, _ := json.Marshal(re)
		m := storage.Message{ID: "w24-probe-reinit", DkgRoundID: v.envelope, Event: "reinit_dkg", Data: payload, SenderAddr: "stranger"}
		snap := rawSnap(obs)
		beforeAll := nodeRender(obs)
		dump0, store0, keys0 := w24RoundRaw(obs, round)
		ops0, _ := obs.ldb.Get(topic + "_operations")
		perr := w24Process(r, obs, m, "a crafted reinit message ("+v.name+")")
		r.st.W24ReinitInnerID++
		dump1, store1, keys1 := w24RoundRaw(obs, round)
		ops1, _ := obs.ldb.Get(topic + "_operations")
		answer := "accepted"
		if perr != nil {
			answer = "refused: " + truncate(perr.Error(), 80)
		}
		head := fmt.Sprintf("C09 unsigned_noop: an unsigned reinit_dkg message from a stranger (%s; envelope round id %q, dkg_id %.8s… which the node holds; every participant given the new key %x…; %s)", v.name, v.envelope, round, mallory.Pub[:6], answer)
		switch {
		case keys0 != keys1:
			r.mon(head + fmt.Sprintf(" replaced the communication keys registered in the existing round: before %s, after %s", truncate(keys0, 160), truncate(keys1, 160)))
		case !bytes.Equal(dump0, dump1):
			r.mon(head + fmt.Sprintf(" changed the stored round (%d -> %d bytes)", len(dump0), len(dump1)))
		case !bytes.Equal(store0, store1):
			r.mon(head + fmt.Sprintf(" changed the signature store of the round (%d -> %d bytes)", len(store0), len(store1)))
		case !bytes.Equal(ops0, ops1):
			r.mon(head + fmt.Sprintf(" changed the operation pool (%d -> %d bytes) %s", len(ops0), len(ops1), firstDiff(beforeAll, nodeRender(obs))))
		}
		// … and the message signed with the probe's key in a participant's name is refused, as before the probe
		mid := nodeRender(obs)
		ferr := w24Process(r, obs, forged, "a signing proposal signed with the key of a reinit probe")
		if ferr == nil && nodeRender(obs) != mid {
			r.mon(head + fmt.Sprintf("; afterwards an event_signing_start in the name of %s (participant %d) signed with that new key was accepted and changed the node state", victim, victimID))
		}
		rawRestore(obs, snap)
		obs.ldb.Delete("signatures_" + v.envelope)
		if back := nodeRender(obs); back != beforeAll {
			r.mon("harness: rollback after a w24 reinit probe did not restore the node state")
			return
		}
	}
}

// w24LookAlikeRoundIDs (C08): an opening proposal (unsigned by design, anybody can post one) under a round id that differs from
// the id of an existing round R in white space only, naming other participants with other keys. Whatever the node does with
// that id, what it holds for R - dump, registered keys, signature store - does not change.
func (r *nodeRun) w24LookAlikeRoundIDs(c *cluster, obs *vnode, round string) {
	d, err := obs.fsmSvc.GetFSMDump(&dto.DkgIdDTO{DkgID: round})
	if err != nil || d.Payload == nil || d.Payload.SignatureProposalPayload == nil {
		return
	}
	var parts []*requests.SignatureProposalParticipantsEntry
	var ids []int
	for id := range d.Payload.SignatureProposalPayload.Quorum {
		ids = append(ids, id)
	}
	sort.Ints(ids)
	for i := range ids {
		// other names, other communication keys (the key-generation keys are curve points: the existing ones, in another order)
		q := d.Payload.SignatureProposalPayload.Quorum[ids[len(ids)-1-i]]
		parts = append(parts, &requests.SignatureProposalParticipantsEntry{Username: fmt.Sprintf("w24-other-%d", i), PubKey: keystore.NewKeyPair().Pub, DkgPubKey: q.DkgPubKey})
	}
	req := requests.SignatureProposalParticipantsListRequest{Participants: parts, SigningThreshold: len(parts), CreatedAt: time.Now()}
	bz, err := json.Marshal(req)
	if err != nil {
		return
	}
	for _, alt := range []string{round + " ", " " + round, round + "\n", round + "\t", "\u00a0" + round} {
		m := storage.Message{ID: "w24-look-alike", DkgRoundID: alt, Event: "event_sig_proposal_init", Data: bz, SenderAddr: "stranger"}
		snap := rawSnap(obs)
		beforeAll := nodeRender(obs)
		ids0 := w24RoundIDs(obs)
		dump0, store0, keys0 := w24RoundRaw(obs, round)
		perr := w24Process(r, obs, m, fmt.Sprintf("an opening proposal under the round id %q", alt))
		r.st.W24LookAlikeIDs++
		dump1, store1, keys1 := w24RoundRaw(obs, round)
		answer := "accepted"
		if perr != nil {
			answer = "refused: " + truncate(perr.Error(), 80)
		}
		if keys0 != keys1 || !bytes.Equal(dump0, dump1) || !bytes.Equal(store0, store1) {
			what := fmt.Sprintf("the stored round went from %d to %d bytes", len(dump0), len(dump1))
			if keys0 != keys1 {
				what += fmt.Sprintf(", its registered keys from %s to %s", truncate(keys0, 120), truncate(keys1, 120))
			}
			if !bytes.Equal(store0, store1) {
				what += fmt.Sprintf(", its signature store from %d to %d bytes", len(store0), len(store1))
			}
			r.mon(fmt.Sprintf("C08 round_noninterference: an opening proposal (event_sig_proposal_init from a stranger, %d other participants with other keys) carrying the round id %q (%s) changed what the node holds for the existing round %q: %s; rounds held before %q, after %q", len(parts), alt, answer, round, what, ids0, w24RoundIDs(obs)))
		}
		rawRestore(obs, snap)
		// whatever was created under ids that are not in the snapshot
		m2 := map[string][]byte{}
		if sbz := snap[topic+"_fsm_state"]; len(sbz) > 0 {
			json.Unmarshal(sbz, &m2)
		}
		if _, held := m2[alt]; !held {
			obs.ldb.Delete("signatures_" + alt)
		}
		if back := nodeRender(obs); back != beforeAll {
			r.mon("harness: rollback after a w24 look-alike round id probe did not restore the node state")
			return
		}
	}
}

// w24HeldBackAnnouncement (C02): n=3, t=2, every phase answered by everybody, except that the operator of participant k has not
// yet carried the last operation (the one whose result is the key announcement) to k's airgapped machine. Another registered
// participant j then posts the agreed key and polynomial (its own announcement, byte for byte, with ParticipantId = k), signed
// with ITS OWN key under its own name. All nodes read the board. C02: wherever the round is signing-ready now, all n machines
// hold a share of it. (C10: wherever the message was accepted, k's status changed without a message signed with k's key.)
func (r *nodeRun) w24HeldBackAnnouncement(outDir string) {
	dir, _ := os.MkdirTemp(outDir, "w24held")
	defer os.RemoveAll(dir)
	c, err := newCluster(dir, 3, "pw")
	if err != nil {
		r.mon("harness: " + err.Error())
		return
	}
	defer c.close()
	round, err := c.startDKG(2)
	if err != nil {
		r.mon("harness: " + err.Error())
		return
	}
	k := r.rng.Intn(3)
	held := c.nodes[k]
	const lastStep = "state_dkg_master_key_await_confirmations"
	pump := func() {
		for i := 0; i < 40; i++ {
			moved := 0
			for _, nd := range c.nodes {
				evs, _ := c.pollOnce(nd, 0)
				moved += len(evs)
			}
			for _, nd := range c.nodes {
				for _, op := range nd.pendingOps() {
					if nd == held && string(op.Type) == lastStep {
						continue
					}
					if err := c.answerOp(nd, op); err != nil && len(r.st.Notes) < 30 {
						r.st.Notes = append(r.st.Notes, truncate("w24 held-back: "+err.Error(), 200))
					}
					moved++
				}
			}
			if moved == 0 {
				return
			}
		}
	}
	pump()
	// the announcements of the others are on the board; k's machine holds no share yet
	if krs, err := held.air.GetBLSKeyrings(); err != nil || krs[round] != nil {
		r.st.Notes = append(r.st.Notes, fmt.Sprintf("w24 held-back: the machine of participant %d already holds a share (or cannot be read: %v)", k, err))
		return
	}
	var genuine *storage.Message
	for _, m := range c.boardMessages() {
		if m.Event == "event_dkg_master_key_confirm_received" && m.DkgRoundID == round && m.SenderAddr != held.name {
			mm := m
			genuine = &mm
		}
	}
	if genuine == nil {
		r.st.Notes = append(r.st.Notes, "w24 held-back: no key announcement on the board")
		return
	}
	var sender *vnode
	for _, nd := range c.nodes {
		if nd.name == genuine.SenderAddr {
			sender = nd
		}
	}
	inst, err := held.fsmSvc.GetFSMInstance(round, false)
	if err != nil || sender == nil {
		return
	}
	kid, err := inst.GetIDByUsername(held.name)
	if err != nil {
		return
	}
	var req requests.DKGProposalMasterKeyConfirmationRequest
	if json.Unmarshal(genuine.Data, &req) != nil {
		return
	}
	jid := req.ParticipantId
	req.ParticipantId = kid
	req.CreatedAt = time.Now()
	bz, _ := json.Marshal(req)
	before := map[string]string{}
	for _, nd := range c.nodes {
		before[nd.name] = c.roundState(nd, round)
	}
	forged := storage.Message{ID: "w24-announcement-in-anothers-name", DkgRoundID: round, Event: genuine.Event, Data: bz, Signature: ed25519.Sign(sender.kp.Priv, bz), SenderAddr: sender.name}
	if bzm, err := json.Marshal(forged); err == nil {
		probe("board Send(" + truncate(string(bzm), 4000) + ")")
	}
	if err := sender.stg.Send(forged); err != nil {
		r.mon("harness: " + err.Error())
		return
	}
	r.st.W24HeldBack++
	for _, nd := range c.nodes {
		c.pollOnce(nd, 0)
	}
	input := fmt.Sprintf("n=3,t=2: every phase answered by everybody, the last operation (%s) of participant %d (%s) not yet carried to its airgapped machine; %s (participant %d) posts its own key announcement again with ParticipantId=%d, signed with its own key under its own name", lastStep, kid, held.name, sender.name, jid, kid)
	for _, nd := range c.nodes {
		st := c.roundState(nd, round)
		if st != before[nd.name] {
			r.mon(fmt.Sprintf("C10 applied_implies_own_key: %s: node %s accepted it and its round went from %s to %s - the status of participant %d changed without a message signed with that participant's registered key", input, nd.name, before[nd.name], st, kid))
		}
		if st != "stage_signing_idle" {
			continue
		}
		for i, mach := range c.nodes {
			krs, err := mach.air.GetBLSKeyrings()
			if err != nil || krs[round] == nil || krs[round].Share == nil {
				r.mon(fmt.Sprintf("C02 ready_implies_share: %s: the round is signing-ready (%s) on node %s while the airgapped machine of participant %d (%s) holds no private share for it", input, st, nd.name, i, mach.name))
			}
		}
	}
	// afterwards k's operator does carry the operation over: an honest ceremony still ends signing-ready with a share everywhere
	held = nil
	pump()
	for _, nd := range c.nodes {
		if st := c.roundState(nd, round); st != "stage_signing_idle" && len(r.st.Notes) < 30 {
			r.st.Notes = append(r.st.Notes, fmt.Sprintf("w24 held-back: after the late last step %s is in %s", nd.name, st))
		}
	}
}
