package main

// airdiff: the airgapped machines of real ceremonies under fault injection (C18), cloning and
// restart/replay (C12). Everything here runs the REAL airgapped.Machine; the abstract machine model
// (log / replay bookkeeping) is driven through ops.txt like the other drivers.

import (
	"bufio"
	"bytes"
	"encoding/base64"
	"encoding/hex"
	"encoding/json"
	"fmt"
	dkgPedersen "github.com/corestario/kyber/share/dkg/pedersen"
	"math/rand"
	"os"
	"path/filepath"
	"reflect"
	"sort"
	"strings"
	"time"

	"github.com/lidofinance/dc4bc/airgapped"
	"github.com/lidofinance/dc4bc/client/types"
	"github.com/lidofinance/dc4bc/fsm/types/requests"
)

type airStats struct {
	Ops, Scenarios, Mutations, Fatal, ErrorResults, OkResults, Panics, FedBeforeReplay        int
	Clones, CloneOps, Restarts, RestartPoints, SeedEntries, ReplayedResults, SecondCeremonies int
	MutationHist                                                                              map[string]int
	OutcomeHist                                                                               map[string]int
	Monitors, Notes, Samples                                                                  []string
	AirDkg                                                                                    airTraceStats
	// SelfSeeded: machines that kept the seed they generated at their first start, compared with a set_seed machine (airselfseed.go)
	SelfSeeded int
	// Schnorr signatures under the responses to the deals, first answers and replayed ones; pairs with one nonce and different messages
	ResponseSigs, NonceReuses int
}

type airRun struct {
	nonces map[string]nonceUse
	// air: the abstract trace of key-generation operations for the Lean model of the handlers (airdkg.go)
	air  *airTrace
	st   *airStats
	ops  *bufio.Writer
	obs  *bufio.Writer
	rng  *rand.Rand
	tier string
	ctx  string
}

func (a *airRun) mon(s string) {
	addMonitor(&a.st.Monitors, s)
}

func (a *airRun) note(s string) {
	if len(a.st.Notes) < 40 {
		a.st.Notes = append(a.st.Notes, truncate(s, 240))
	}
}

func (a *airRun) emit(op, ob string) {
	fmt.Fprintln(a.ops, op)
	fmt.Fprintln(a.obs, ob)
	a.st.Ops++
}

// newMachine: a machine as the operator sets it up: password, mnemonic, keys, result folder.
func newMachine(dir, password, mnemonic string) (*airgapped.Machine, error) {
	os.MkdirAll(dir, 0o755)
	m, err := airgapped.NewMachine(filepath.Join(dir, "db"))
	if err != nil {
		return nil, err
	}
	m.SetEncryptionKey([]byte(password))
	if err := m.SetBaseSeed(mnemonic); err != nil {
		return nil, err
	}
	if err := m.InitKeys(); err != nil {
		return nil, err
	}
	os.MkdirAll(filepath.Join(dir, "results"), 0o755)
	m.SetResultFolder(filepath.Join(dir, "results"))
	return m, nil
}

// reopenMachine: the process was stopped and started again on the same database directory.
func reopenMachine(dir, password string) (*airgapped.Machine, error) {
	m, err := airgapped.NewMachine(filepath.Join(dir, "db"))
	if err != nil {
		return nil, err
	}
	m.SetEncryptionKey([]byte(password))
	if err := m.InitKeys(); err != nil {
		return nil, err
	}
	m.SetResultFolder(filepath.Join(dir, "results"))
	return m, nil
}

type airOutcome struct {
	kind   string // panic | fatal | error-result | result
	result *types.Operation
	err    string
}

// tryOperation feeds one operation to a machine exactly like the CLI does (ProcessOperation with logging).
func tryOperation(m *airgapped.Machine, op types.Operation, store bool) (out airOutcome) {
	return tryOperationKeep(m, op, store, false)
}

// tryOperationKeep: with keep the result file stays where the machine wrote it (operators do not tidy up)
func tryOperationKeep(m *airgapped.Machine, op types.Operation, store, keep bool) (out airOutcome) {
	defer func() {
		if rec := recover(); rec != nil {
			out = airOutcome{kind: "panic", err: fmt.Sprint(rec)}
		}
	}()
	if bz, err := json.Marshal(op); err == nil {
		probe("airgapped Machine.ProcessOperation(" + string(bz) + ")")
	}
	path, err := m.ProcessOperation(op, store)
	if err != nil {
		return airOutcome{kind: "fatal", err: err.Error()}
	}
	rb, err := os.ReadFile(path)
	if !keep {
		os.Remove(path)
	}
	if err != nil {
		return airOutcome{kind: "fatal", err: "result file: " + err.Error()}
	}
	var res types.Operation
	if err := json.Unmarshal(rb, &res); err != nil {
		return airOutcome{kind: "fatal", err: "result file is not an operation: " + err.Error()}
	}
	k := "result"
	if strings.Contains(string(res.Event), "error") || strings.Contains(string(res.Event), "decline") || strings.Contains(string(res.Event), "failed") {
		k = "error-result"
	}
	return airOutcome{kind: k, result: &res}
}

func snapEqual(a, b map[string][]byte) (bool, string) {
	for k, v := range a {
		if w, ok := b[k]; !ok || !bytes.Equal(v, w) {
			return false, k
		}
	}
	for k := range b {
		if _, ok := a[k]; !ok {
			return false, k
		}
	}
	return true, ""
}

type airMut struct {
	name string
	op   types.Operation
}

// jsonLeafMutations: every variant of a JSON document in which one leaf (or one container) is replaced
func jsonLeafMutations(doc interface{}, rng *rand.Rand) []struct {
	name string
	doc  interface{}
} {
	type res = struct {
		name string
		doc  interface{}
	}
	var out []res
	var walk func(cur interface{}, rebuild func(interface{}) interface{}, path string)
	clone := func(v interface{}) interface{} {
		bz, _ := json.Marshal(v)
		var x interface{}
		json.Unmarshal(bz, &x)
		return x
	}
	walk = func(cur interface{}, rebuild func(interface{}) interface{}, path string) {
		add := func(kind string, v interface{}) {
			out = append(out, res{kind + "@" + path, rebuild(v)})
		}
		switch t := cur.(type) {
		case map[string]interface{}:
			add("object->null", nil)
			add("object->array", []interface{}{})
			add("object->empty", map[string]interface{}{})
			keys := make([]string, 0, len(t))
			for k := range t {
				keys = append(keys, k)
			}
			sort.Strings(keys)
			for _, k := range keys {
				k := k
				// field deletion
				del := clone(t).(map[string]interface{})
				delete(del, k)
				out = append(out, res{"field-deleted@" + path + "." + k, rebuild(del)})
				walk(t[k], func(v interface{}) interface{} {
					c := clone(t).(map[string]interface{})
					c[k] = v
					return rebuild(c)
				}, path+"."+k)
			}
		case []interface{}:
			add("array->null", nil)
			add("array->empty", []interface{}{})
			add("array->object", map[string]interface{}{})
			if len(t) > 0 {
				big := make([]interface{}, 0, 3000)
				for len(big) < 3000 {
					big = append(big, t[0])
				}
				add("array-oversized", big)
				add("array-duplicated", append(clone(t).([]interface{}), t[0]))
				add("array-shortened", clone(t).([]interface{})[:len(t)-1])
			}
			// one element carries what belongs to another (a deal, a commit, an id delivered under another participant's
			// name): every ordered pair among the first three elements, field by field
			for i := 0; i < len(t) && i < 3; i++ {
				for j := 0; j < len(t) && j < 3; j++ {
					oi, ok1 := t[i].(map[string]interface{})
					oj, ok2 := t[j].(map[string]interface{})
					if i == j || !ok1 || !ok2 {
						continue
					}
					keys := make([]string, 0, len(oi))
					for k := range oi {
						keys = append(keys, k)
					}
					sort.Strings(keys)
					for _, k := range keys {
						if v, ok := oj[k]; ok && !reflect.DeepEqual(v, oi[k]) {
							c := clone(t).([]interface{})
							c[i].(map[string]interface{})[k] = v
							out = append(out, res{fmt.Sprintf("sibling-field@%s[%d<-%d].%s", path, i, j, k), rebuild(c)})
						}
					}
				}
			}
			// only the first two elements are descended into: the others have the same shape
			for i := 0; i < len(t) && i < 2; i++ {
				i := i
				walk(t[i], func(v interface{}) interface{} {
					c := clone(t).([]interface{})
					c[i] = v
					return rebuild(c)
				}, fmt.Sprintf("%s[%d]", path, i))
			}
		case float64:
			add("number->-1", -1)
			add("number->huge", float64(1<<62))
			add("number->string", "7")
			add("number->fraction", 0.5)
			add("number->null", nil)
			add("number+1", t+1)
		case string:
			add("string->empty", "")
			add("string->number", 5)
			add("string->null", nil)
			if raw, err := base64.StdEncoding.DecodeString(t); err == nil && len(raw) > 0 {
				// a byte string: invalid curve points / truncated ciphertexts / flipped bits
				tr := raw[:len(raw)/2]
				add("bytes-truncated", base64.StdEncoding.EncodeToString(tr))
				fl := append([]byte(nil), raw...)
				fl[rng.Intn(len(fl))] ^= 1 << uint(rng.Intn(8))
				add("bytes-bitflip", base64.StdEncoding.EncodeToString(fl))
				rnd := make([]byte, len(raw))
				rng.Read(rnd)
				add("bytes-random", base64.StdEncoding.EncodeToString(rnd))
				add("bytes-zero", base64.StdEncoding.EncodeToString(make([]byte, len(raw))))
				add("bytes-extended", base64.StdEncoding.EncodeToString(append(append([]byte(nil), raw...), 1, 2, 3)))
				// nested JSON inside a byte string (SrcPayload)
				var inner interface{}
				if json.Unmarshal(raw, &inner) == nil {
					switch inner.(type) {
					case map[string]interface{}, []interface{}:
						for _, im := range jsonLeafMutations(inner, rng) {
							bz, _ := json.Marshal(im.doc)
							out = append(out, res{"nested:" + im.name + "@" + path, rebuild(base64.StdEncoding.EncodeToString(bz))})
						}
					}
				}
			} else {
				add("string-junk", t+"\x00junk")
			}
		case bool:
			add("bool->string", "true")
		case nil:
			add("null->object", map[string]interface{}{})
		}
	}
	walk(doc, func(v interface{}) interface{} { return v }, "")
	return out
}

func (a *airRun) operationMutations(op types.Operation, otherTypes []string) []airMut {
	var out []airMut
	add := func(name string, f func(o *types.Operation)) {
		c := op
		c.Payload = append([]byte(nil), op.Payload...)
		c.ResultMsgs = nil
		f(&c)
		out = append(out, airMut{name, c})
	}
	add("id-short", func(o *types.Operation) { o.ID = "ab" })
	add("id-empty", func(o *types.Operation) { o.ID = "" })
	add("round-short", func(o *types.Operation) { o.DKGIdentifier = "ab" })
	add("round-empty", func(o *types.Operation) { o.DKGIdentifier = "" })
	add("round-unknown", func(o *types.Operation) { o.DKGIdentifier = strings.Repeat("f", 64) })
	add("type-unknown", func(o *types.Operation) { o.Type = "state_bogus" })
	add("type-empty", func(o *types.Operation) { o.Type = "" })
	for _, t := range otherTypes {
		t := t
		if t != string(op.Type) {
			add("type-confused:"+t, func(o *types.Operation) { o.Type = types.OperationType(t) })
		}
	}
	// identifiers of every short length (file names and log lines are cut from them)
	for k := 1; k <= 9; k++ {
		k := k
		add(fmt.Sprintf("id-len-%d", k), func(o *types.Operation) { o.ID = (o.ID + "abcdefghi")[:k] })
		add(fmt.Sprintf("round-len-%d", k), func(o *types.Operation) { o.DKGIdentifier = (o.DKGIdentifier + "abcdefghi")[:k] })
	}
	{
		var top map[string]interface{}
		if json.Unmarshal(op.Payload, &top) == nil {
			keys := make([]string, 0, len(top))
			for key := range top {
				keys = append(keys, key)
			}
			sort.Strings(keys)
			for _, key := range keys {
				v, ok := top[key].(string)
				if !ok || !(strings.Contains(key, "ID") || strings.Contains(key, "Id")) {
					continue
				}
				for k := 1; k <= 9; k++ {
					c := map[string]interface{}{}
					for kk, vv := range top {
						c[kk] = vv
					}
					c[key] = (v + "abcdefghi")[:k]
					bz, _ := json.Marshal(c)
					add(fmt.Sprintf("payload:%s-len-%d", key, k), func(o *types.Operation) { o.Payload = bz })
				}
			}
		}
	}
	add("payload-empty", func(o *types.Operation) { o.Payload = []byte{} })
	add("payload-nil", func(o *types.Operation) { o.Payload = nil })
	add("payload-null", func(o *types.Operation) { o.Payload = []byte("null") })
	add("payload-object", func(o *types.Operation) { o.Payload = []byte("{}") })
	add("payload-array", func(o *types.Operation) { o.Payload = []byte("[]") })
	add("payload-truncated", func(o *types.Operation) { o.Payload = o.Payload[:len(o.Payload)/2] })
	add("payload-garbage", func(o *types.Operation) { a.rng.Read(o.Payload) })
	add("createdat-zero", func(o *types.Operation) { o.CreatedAt = time.Time{} })
	var doc interface{}
	if json.Unmarshal(op.Payload, &doc) == nil {
		for _, m := range jsonLeafMutations(doc, a.rng) {
			bz, err := json.Marshal(m.doc)
			if err != nil {
				continue
			}
			add("payload:"+m.name, func(o *types.Operation) { o.Payload = bz })
		}
	}
	// signing requests: ranges nobody would propose (the airgapped machine does not call Validate())
	if strings.HasPrefix(string(op.Type), "state_signing_") {
		var p map[string]interface{}
		if json.Unmarshal(op.Payload, &p) == nil {
			for _, rg := range [][2]int{{5, 0}, {0, -1}, {-3, 2}, {0, 1<<63 - 1}, {18631, 1<<63 - 1}, {-(1 << 62), 1 << 62}, {1<<63 - 2, 1<<63 - 1}} {
				tasks := fmt.Sprintf(`[{"MessageID":"r","File":"f","Payload":null,"RangeStart":%d,"RangeEnd":%d}]`, rg[0], rg[1])
				p["SrcPayload"] = base64.StdEncoding.EncodeToString([]byte(tasks))
				bz, _ := json.Marshal(p)
				add(fmt.Sprintf("signing-range[%d,%d)", rg[0], rg[1]), func(o *types.Operation) { o.Payload = bz })
			}
		}
	}
	return out
}

// alwaysRun: mutations that are not sampled (few, and each with its own meaning)
func alwaysRun(name string) bool {
	return strings.Contains(name, "sibling-field") || strings.Contains(name, "-len-")
}

func mutClass(name string) string {
	if i := strings.Index(name, "@"); i >= 0 {
		name = name[:i]
	}
	if strings.HasPrefix(name, "signing-range") {
		return "signing-range"
	}
	if i := strings.Index(name, "-len-"); i >= 0 {
		return name[:i] + "-len"
	}
	return name
}

// keyringOf: (share, public polynomial) of a round as stored by a machine
func keyringOf(m *airgapped.Machine, round string) (string, bool) {
	ks, err := m.GetBLSKeyrings()
	if err != nil {
		return "err:" + err.Error(), false
	}
	k, ok := ks[round]
	if !ok || k == nil || k.Share == nil || k.PubPoly == nil {
		return "none", false
	}
	_, commits := k.PubPoly.Info()
	var b strings.Builder
	fmt.Fprintf(&b, "share=%d:%s poly=", k.Share.I, k.Share.V.String())
	for _, c := range commits {
		bz, _ := c.MarshalBinary()
		fmt.Fprintf(&b, "%x,", bz)
	}
	return b.String(), true
}

// faultScenario: a real ceremony; then a clone of one participant's machine is fed, step by step, mutated
// variants of every operation the original received, followed by the genuine one.
func (a *airRun) faultScenario(outDir string, n, t int) {
	dir, _ := os.MkdirTemp(outDir, "air")
	defer os.RemoveAll(dir)
	c, err := newCluster(dir, n, "pw")
	if err != nil {
		a.mon("harness: " + err.Error())
		return
	}
	c.airTrace = a.air
	defer c.close()
	a.st.Scenarios++
	round, err := c.startDKG(t)
	if err != nil {
		a.mon("harness: " + err.Error())
		return
	}
	for _, e := range c.pump(40) {
		a.note("ceremony: " + e)
	}
	c.proposeData(c.nodes[0], round, map[string][]byte{"f1": []byte("payload-one")})
	c.pump(20)
	c.proposeRange(c.nodes[n-1], round, 3, 6)
	c.pump(20)
	for _, nd := range c.nodes {
		if st := c.roundState(nd, round); st != "stage_signing_idle" {
			a.note(fmt.Sprintf("after the ceremony %s is in %s", nd.name, st))
		}
	}
	vi := a.rng.Intn(n)
	victim := c.nodes[vi]
	want, haveKey := keyringOf(victim.air, round)
	if !haveKey {
		a.note("victim has no keyring: " + want)
	}
	types6 := []string{"state_dkg_commits_await_confirmations", "state_dkg_deals_await_confirmations", "state_dkg_responses_await_confirmations",
		"state_dkg_master_key_await_confirmations", "state_signing_await_partial_signs", "reinit_dkg"}
	mnemonic := testMnemonics[vi%len(testMnemonics)]
	// clone A: genuine operations only (same mnemonic, same operations => same keys: C12)
	cloneA, err := newMachine(filepath.Join(dir, "cloneA"), "pw", mnemonic)
	if err != nil {
		a.mon("harness: clone: " + err.Error())
		return
	}
	defer cloneA.VerifCloseDB()
	// clone B: the same, with faulty operations in between
	cloneB, err := newMachine(filepath.Join(dir, "cloneB"), "pw", mnemonic)
	if err != nil {
		a.mon("harness: clone: " + err.Error())
		return
	}
	defer cloneB.VerifCloseDB()
	a.st.Clones += 2
	lim := 30
	if a.tier == "thorough" {
		lim = 1 << 30
	}
	for _, op := range victim.coldLog {
		muts := a.operationMutations(op, types6)
		a.rng.Shuffle(len(muts), func(i, j int) { muts[i], muts[j] = muts[j], muts[i] })
		for i, mu := range muts {
			if i >= lim && !alwaysRun(mu.name) {
				continue
			}
			before := cloneB.VerifDBSnapshot()
			o := tryOperation(cloneB, mu.op, true)
			a.st.Mutations++
			a.st.MutationHist[mutClass(mu.name)+"/"+o.kind]++
			a.st.OutcomeHist[string(op.Type)+"/"+o.kind]++
			switch o.kind {
			case "panic":
				a.st.Panics++
				a.mon(fmt.Sprintf("C18 never_panics: the airgapped machine panicked on a %s operation mutated by %s: %s", op.Type, mu.name, truncate(o.err, 120)))
			case "fatal":
				a.st.Fatal++
				if same, key := snapEqual(before, cloneB.VerifDBSnapshot()); !same {
					a.mon(fmt.Sprintf("C18 reject_is_noop: the airgapped machine refused a %s operation mutated by %s and still changed its database (key %s)", op.Type, mu.name, truncate(key, 40)))
				}
			case "error-result":
				a.st.ErrorResults++
			default:
				a.st.OkResults++
			}
		}
		ra := tryOperation(cloneA, op, true)
		rb := tryOperation(cloneB, op, true)
		a.st.CloneOps += 2
		if ra.kind != "result" {
			a.mon(fmt.Sprintf("C12 same_mnemonic_same_outcome: a machine with the same mnemonic fed the same operations ends its %s operation with %s (%s), the original succeeded", op.Type, ra.kind, truncate(ra.err, 100)))
		}
		if rb.kind != ra.kind {
			a.note(fmt.Sprintf("after faulty operations the genuine %s operation ends with %s instead of %s", op.Type, rb.kind, ra.kind))
		}
	}
	// an operation fed a second time (the operator is not sure the first result made it): whatever the machine answers,
	// the result file must be a readable operation (files of the first run are still in the folder)
	{
		twice, err := newMachine(filepath.Join(dir, "twice"), "pw", mnemonic)
		if err == nil {
			for _, op := range victim.coldLog {
				tryOperationKeep(twice, op, true, true)
			}
			for _, op := range victim.coldLog {
				o := tryOperationKeep(twice, op, true, true)
				a.st.OutcomeHist["fed-twice/"+o.kind]++
				if o.kind == "panic" {
					a.mon(fmt.Sprintf("C18 never_panics: the airgapped machine panicked on a %s operation fed a second time: %s", op.Type, truncate(o.err, 100)))
				}
				if o.kind == "fatal" && strings.Contains(o.err, "result file") {
					a.mon(fmt.Sprintf("C12 result_file_valid: a %s operation fed a second time leaves a result file that cannot be read: %s", op.Type, truncate(o.err, 120)))
				}
			}
			twice.VerifCloseDB()
		}
	}
	// C12: restart points. Reference: a machine that never stops (same mnemonic, same operations)
	{
		refM, err := newMachine(filepath.Join(dir, "ref"), "pw", mnemonic)
		if err == nil {
			var ref []string
			for _, op := range victim.coldLog {
				ref = append(ref, resultDigest(tryOperation(refM, op, true)))
			}
			refKey, _ := keyringOf(refM, round)
			refPub, _ := refM.GetPubKey().MarshalBinary()
			refM.VerifCloseDB()
			// the operator's own way to the same machine: a first start (keys from a self-generated seed), then set_seed with the
			// mnemonic (SetBaseSeed + GenerateKeys, as the CLI does) - and the same mnemonic typed in once more. Same mnemonic,
			// same long-term key, and fed the same operations the same share
			if opM, err := airgapped.NewMachine(filepath.Join(dir, "opflow", "db")); err == nil {
				opM.SetEncryptionKey([]byte("pw"))
				os.MkdirAll(filepath.Join(dir, "opflow", "results"), 0o755)
				opM.SetResultFolder(filepath.Join(dir, "opflow", "results"))
				stage := "the first start"
				ok := opM.InitKeys() == nil
				for k := 1; ok && k <= 2; k++ {
					stage = fmt.Sprintf("set_seed #%d", k)
					if err := opM.SetBaseSeed(mnemonic); err != nil {
						ok = false
						break
					}
					if err := opM.GenerateKeys(); err != nil {
						ok = false
						break
					}
					a.st.SeedEntries++
					if pk, _ := opM.GetPubKey().MarshalBinary(); !bytes.Equal(pk, refPub) {
						a.mon(fmt.Sprintf("C12 same_mnemonic_same_keys: after the operator entered the mnemonic (set_seed, time #%d in this process) the machine's long-term key is %x…, a machine created from that mnemonic has %x…", k, pk[:8], refPub[:8]))
					}
				}
				if !ok {
					a.note("operator flow stopped at " + stage)
				} else {
					for _, op := range victim.coldLog {
						tryOperation(opM, op, true)
					}
					if got, _ := keyringOf(opM, round); got != refKey {
						a.mon(fmt.Sprintf("C12 same_mnemonic_same_keys: a machine whose operator entered the mnemonic twice and fed the same operations holds %s, the reference %s", truncate(got, 90), truncate(refKey, 90)))
					}
				}
				opM.VerifCloseDB()
			}
			if refKey != want {
				a.mon(fmt.Sprintf("C12 same_mnemonic_same_keys: reference machine holds %s, the original %s", truncate(refKey, 90), truncate(want, 90)))
			}
			nops := len(victim.coldLog)
			for _, kind := range []string{"after-step", "computed-not-logged", "logged-file-lost", "fed-before-replay"} {
				for at := 0; at < nops; at++ {
					if a.tier != "thorough" && a.rng.Intn(2) == 0 && kind != "after-step" {
						continue
					}
					a.restartScenario(dir, victim, mnemonic, round, ref, refKey, kind, at, false)
				}
			}
			a.restartScenario(dir, victim, mnemonic, round, ref, refKey, "after-step", 0, true)
			a.airdkgRestarts(dir, c, victim, mnemonic, round)
		}
	}
	a.secondCeremony(dir, c, victim, mnemonic, round, t)
	if haveKey {
		if got, _ := keyringOf(cloneA, round); got != want {
			a.mon(fmt.Sprintf("C12 same_mnemonic_same_keys: a machine created from the same mnemonic and fed the same operations holds %s, the original %s", truncate(got, 90), truncate(want, 90)))
		}
		if got, _ := keyringOf(cloneB, round); got != want {
			a.note("the clone that also received faulty operations ends with a different keyring: " + truncate(got, 80))
		}
	}
}

// resultDigest: what can be compared between two runs of the same operation on machines with the same mnemonic:
// the event, and the message data where it is deterministic (commitments, master key + public polynomial,
// responses); deals are ECIES ciphertexts with fresh randomness and are compared by count and addressee only.
func resultDigest(o airOutcome) string {
	if o.result == nil {
		return o.kind + ":" + truncate(o.err, 80)
	}
	var parts []string
	for _, m := range o.result.ResultMsgs {
		d := hx(m.Data)
		switch {
		case strings.Contains(m.Event, "deal_confirm"):
			// ECIES ciphertext with fresh randomness: only the addressee is comparable
			d = "deal"
		case strings.Contains(m.Event, "response_confirm_received"):
			// the responses are produced while ranging over a Go map and each carries a Schnorr signature whose nonce
			// depends on that order: compare who is answered and with what verdict
			var req struct {
				ParticipantId int
				Response      []byte
			}
			d = "responses?"
			if json.Unmarshal(m.Data, &req) == nil {
				var rs []struct {
					Index    uint32
					Response struct {
						Index  uint32
						Status bool
					}
				}
				if json.Unmarshal(req.Response, &rs) == nil {
					var vs []string
					for _, x := range rs {
						vs = append(vs, fmt.Sprintf("%d/%d/%v", x.Index, x.Response.Index, x.Response.Status))
					}
					sort.Strings(vs)
					d = fmt.Sprintf("from %d: %s", req.ParticipantId, strings.Join(vs, " "))
				}
			}
		}
		parts = append(parts, m.Event+">"+m.RecipientAddr+":"+d)
	}
	sort.Strings(parts) // deals are produced while ranging over a map as well
	return o.kind + " " + string(o.result.Event) + " [" + strings.Join(parts, ",") + "]"
}

// maskTimes: CreatedAt inside request payloads comes from the operation and is equal; nothing else to mask
func digestsEqual(a, b string) bool { return a == b }

// secondCeremony (C12): the same participants hold a second ceremony, which the victim's machine handles in the process
// that handled the first. A machine that is stopped inside the second ceremony, reopened and replayed carries on as the
// one that never stopped; and a machine with the same mnemonic that only ever saw the second ceremony derives the same
// commitments, answers and share for it (what a machine derives for a round depends on the mnemonic and the round, not on
// what the process did before).
func (a *airRun) secondCeremony(dir string, c *cluster, victim *vnode, mnemonic, roundA string, t int) {
	roundB, err := c.startDKG(t)
	if err != nil {
		a.note("second ceremony: " + err.Error())
		return
	}
	for _, e := range c.pump(40) {
		a.note("second ceremony: " + e)
	}
	if st := c.roundState(victim, roundB); st != "stage_signing_idle" {
		a.note("second ceremony ended in " + st)
		return
	}
	a.st.SecondCeremonies++
	ops := victim.coldLog
	refM, err := newMachine(filepath.Join(dir, "ref2"), "pw", mnemonic)
	if err != nil {
		return
	}
	var ref []string
	var bIdx []int
	for i, op := range ops {
		ref = append(ref, resultDigest(tryOperation(refM, op, true)))
		if op.DKGIdentifier == roundB {
			bIdx = append(bIdx, i)
		}
	}
	refKey, _ := keyringOf(refM, roundB)
	refM.VerifCloseDB()
	if want, ok := keyringOf(victim.air, roundB); ok && want != refKey {
		a.mon(fmt.Sprintf("C12 same_mnemonic_same_keys: second ceremony: a machine with the same mnemonic fed the same operations holds %s, the original %s", truncate(refKey, 90), truncate(want, 90)))
	}
	if only, err := newMachine(filepath.Join(dir, "onlyB"), "pw", mnemonic); err == nil {
		for _, i := range bIdx {
			if got := resultDigest(tryOperation(only, ops[i], true)); !digestsEqual(got, ref[i]) {
				a.mon(fmt.Sprintf("C12 same_mnemonic_same_outcome: second ceremony: a machine with the same mnemonic that is fed this ceremony only answers operation %d (%s) with %s, the machine that handled an earlier ceremony first with %s", i, ops[i].Type, truncate(got, 160), truncate(ref[i], 160)))
				break
			}
		}
		if got, _ := keyringOf(only, roundB); got != refKey {
			a.mon(fmt.Sprintf("C12 same_mnemonic_same_keys: second ceremony: a machine with the same mnemonic that is fed this ceremony only holds %s, the machine that handled an earlier ceremony first %s", truncate(got, 90), truncate(refKey, 90)))
		}
		only.VerifCloseDB()
	}
	a.ctx = " in a second ceremony of the process"
	defer func() { a.ctx = "" }()
	for _, kind := range []string{"after-step", "computed-not-logged", "logged-file-lost", "fed-before-replay"} {
		for _, at := range bIdx {
			if a.tier != "thorough" && a.rng.Intn(3) != 0 {
				continue
			}
			a.restartScenario(dir, victim, mnemonic, roundB, ref, refKey, kind, at, false)
		}
	}
	a.restartScenario(dir, victim, mnemonic, roundB, ref, refKey, "after-step", 0, true)
}

// restartScenario (C12): a machine with the victim's mnemonic is fed the victim's operations and stopped / reopened /
// replayed at the given point; every later result and the final keyring must be those of a machine that never stopped.
func (a *airRun) restartScenario(dir string, victim *vnode, mnemonic, round string, ref []string, refKey string, kind string, at int, everyStep bool) {
	tag := fmt.Sprintf("%s at operation %d", kind, at)
	if everyStep {
		tag = "restart after every step"
	}
	tag += a.ctx
	mdir := filepath.Join(dir, fmt.Sprintf("rs-%s-%d-%v", kind, at, everyStep))
	m, err := newMachine(mdir, "pw", mnemonic)
	if err != nil {
		a.mon("harness: " + err.Error())
		return
	}
	closeM := func() { m.VerifCloseDB() }
	defer func() { closeM(); os.RemoveAll(mdir) }()
	reopen := func() bool {
		m.VerifCloseDB()
		m2, err := reopenMachine(mdir, "pw")
		if err != nil {
			a.mon(fmt.Sprintf("C12 restarts (%s): the machine does not open again: %v", tag, err))
			return false
		}
		m = m2
		a.st.Restarts++
		return true
	}
	replay := func() {
		// the operator replays the round's log (nothing to replay before the first logged operation)
		defer func() {
			if rec := recover(); rec != nil {
				a.mon(fmt.Sprintf("C12 replay (%s): ReplayOperationsLog panicked: %v", tag, rec))
			}
		}()
		if err := m.ReplayOperationsLog(round); err != nil && !strings.Contains(err.Error(), "not found") {
			a.mon(fmt.Sprintf("C12 replay (%s): ReplayOperationsLog failed: %v", tag, truncate(err.Error(), 160)))
		}
	}
	restart := func() bool {
		if !reopen() {
			return false
		}
		replay()
		return true
	}
	a.st.RestartPoints++
	ops := victim.coldLog
	// bookkeeping tie: the durable log and (as a shadow) the logged operations the volatile instance has seen
	shadow := []string{}
	obsLog := func() string {
		var ids []string
		var rl map[string][]types.Operation
		if bz, ok := m.VerifDBSnapshot()["operations_log"]; ok && json.Unmarshal(bz, &rl) == nil {
			for _, o := range rl[round] {
				ids = append(ids, o.ID)
			}
		}
		inst := "-"
		if m.VerifHasDKGInstance(round) || len(shadow) > 0 {
			inst = strings.Join(shadow, ",")
		}
		return "log=" + strings.Join(ids, ",") + " inst=" + inst
	}
	lg := func(op types.Operation) string {
		if op.IsSigningState() {
			return "0"
		}
		return "1"
	}
	a.emit("reset", "ok")
	for i, op := range ops {
		if op.DKGIdentifier != round {
			// an earlier ceremony handled by the same process: fed as it was, never restarted in
			tryOperation(m, op, true)
			continue
		}
		if !everyStep && i == at {
			switch kind {
			case "after-step":
				// handled below (restart after processing op at-1); here: restart before op `at`
				if !restart() {
					return
				}
				a.emit("restart", obsLog())
			case "fed-before-replay":
				// started again, the machine is handed the next operation file BEFORE its log is replayed: it holds no instance of
				// the round and refuses fatally - no result file, nothing logged (C12Air.fatal_is_noop); then the log is replayed
				// and the same file handed over again (below), answered like by the machine that never stopped
				if !reopen() {
					return
				}
				// (the commits operation opens a round: a machine without an instance accepts it - there is nothing to refuse)
				if string(op.Type) != "state_dkg_commits_await_confirmations" {
					logged := obsLog()
					out := tryOperation(m, op, true)
					a.st.FedBeforeReplay++
					if now := obsLog(); now != logged {
						a.mon(fmt.Sprintf("C12 carries_on_identically (%s): operation %d (%s) handed to the machine that was started again and has not replayed its log yet is answered %s, and the durable log of the round changed from [%s] to [%s]: a refused operation was logged, the replay will execute it", tag, i, op.Type, out.kind, logged, now))
						return
					}
				}
				replay()
				a.emit("restart", obsLog())
			case "computed-not-logged":
				func() {
					defer func() { recover() }()
					m.GetOperationResult(op)
				}()
				if !restart() {
					return
				}
				a.emit("dies "+op.ID+" "+lg(op), obsLog())
			case "logged-file-lost":
				tryOperation(m, op, true) // the result file is lost (tryOperation removes it)
				if !op.IsSigningState() {
					shadow = append(shadow, op.ID)
				}
				a.emit("proc "+op.ID+" "+lg(op), obsLog())
				if !restart() {
					return
				}
				a.emit("restart", obsLog())
				// the replay re-executes the logged operation and writes its result file again: that is the result the
				// operator carries to the node (feeding the request a second time would be a second execution)
				if op.IsSigningState() {
					// signing requests are not logged (they do not change the machine): the operator simply feeds the request again
					break
				}
				path := filepath.Join(mdir, "results", op.Filename()+"_result.json")
				rb, err := os.ReadFile(path)
				if err != nil {
					a.mon(fmt.Sprintf("C12 carries_on_identically (%s): after the replay there is no result file for the logged operation %d (%s)", tag, i, op.Type))
					return
				}
				var res types.Operation
				got := "fatal:result file is not an operation"
				if json.Unmarshal(rb, &res) == nil {
					k := "result"
					if strings.Contains(string(res.Event), "error") || strings.Contains(string(res.Event), "failed") {
						k = "error-result"
					}
					got = resultDigest(airOutcome{kind: k, result: &res})
				}
				if i < len(ref) && !digestsEqual(got, ref[i]) {
					a.mon(fmt.Sprintf("C12 carries_on_identically (%s): the replayed result of operation %d (%s) is %s, a machine that never stopped gives %s", tag, i, op.Type, truncate(got, 160), truncate(ref[i], 160)))
					return
				}
				continue
			}
		}
		firstOut := tryOperation(m, op, true)
		got := resultDigest(firstOut)
		if firstOut.result != nil {
			a.noteResponseSigs(op, firstOut.result, "first answer")
		}
		if !op.IsSigningState() {
			shadow = append(shadow, op.ID)
		}
		a.emit("proc "+op.ID+" "+lg(op), obsLog())
		if i < len(ref) && !digestsEqual(got, ref[i]) {
			a.mon(fmt.Sprintf("C12 carries_on_identically (%s): operation %d (%s) gives %s, a machine that never stopped gives %s", tag, i, op.Type, truncate(got, 160), truncate(ref[i], 160)))
			return
		}
		if everyStep {
			if !restart() {
				return
			}
			a.emit("restart", obsLog())
			// the replay has written the result file of every logged operation again ("republishes the same commitments …"):
			// each is what a machine that never stopped published for that operation
			for j := 0; j <= i; j++ {
				lo := ops[j]
				if lo.DKGIdentifier != round || lo.IsSigningState() {
					continue
				}
				path := filepath.Join(mdir, "results", lo.Filename()+"_result.json")
				rb, err := os.ReadFile(path)
				if err != nil {
					a.mon(fmt.Sprintf("C12 carries_on_identically (%s): after the replay that followed operation %d there is no result file for the logged operation %d (%s)", tag, i, j, lo.Type))
					return
				}
				var res types.Operation
				got := "fatal:result file is not an operation"
				if json.Unmarshal(rb, &res) == nil {
					k := "result"
					if strings.Contains(string(res.Event), "error") || strings.Contains(string(res.Event), "failed") {
						k = "error-result"
					}
					got = resultDigest(airOutcome{kind: k, result: &res})
				}
				a.st.ReplayedResults++
				if json.Unmarshal(rb, &res) == nil {
					a.noteResponseSigs(lo, &res, fmt.Sprintf("the answer republished by the replay that followed operation %d", i))
				}
				if j < len(ref) && !digestsEqual(got, ref[j]) {
					a.mon(fmt.Sprintf("C12 carries_on_identically (%s): after the replay that followed operation %d the republished result of operation %d (%s) is %s, a machine that never stopped gives %s", tag, i, j, lo.Type, truncate(got, 160), truncate(ref[j], 160)))
					return
				}
			}
		}
	}
	if got, _ := keyringOf(m, round); got != refKey {
		a.mon(fmt.Sprintf("C12 same_keys (%s): the restarted machine ends with %s, a machine that never stopped with %s", tag, truncate(got, 90), truncate(refKey, 90)))
	}
}

func runAirDiff(outDir string, seed int64, tier string) {
	os.MkdirAll(outDir, 0o755)
	airgapped.N = 1 << 10
	restore := silenceStdout()
	defer restore()
	fo, _ := os.Create(filepath.Join(outDir, "ops.txt"))
	fb, _ := os.Create(filepath.Join(outDir, "go_obs.txt"))
	a := &airRun{st: &airStats{MutationHist: map[string]int{}, OutcomeHist: map[string]int{}}, ops: bufio.NewWriterSize(fo, 1<<20),
		obs: bufio.NewWriterSize(fb, 1<<20), rng: rand.New(rand.NewSource(seed)), tier: tier}
	fao, _ := os.Create(filepath.Join(outDir, "airdkg_ops.txt"))
	fab, _ := os.Create(filepath.Join(outDir, "airdkg_obs.txt"))
	a.air = newAirTrace(bufio.NewWriter(fao), bufio.NewWriter(fab))
	cfgs := [][2]int{{3, 2}, {2, 2}}
	if tier == "thorough" {
		cfgs = [][2]int{{3, 2}, {2, 2}, {4, 3}, {3, 3}}
	}
	for _, cf := range cfgs {
		a.faultScenario(outDir, cf[0], cf[1])
	}
	a.selfSeedScenario(outDir, 2, 2)
	if tier == "thorough" {
		a.selfSeedScenario(outDir, 3, 2)
	}
	a.ops.Flush()
	a.obs.Flush()
	fo.Close()
	fb.Close()
	a.air.flush()
	fao.Close()
	fab.Close()
	a.st.AirDkg = a.air.st
	writeJSON(filepath.Join(outDir, "stats.json"), a.st)
	restore()
	fmt.Printf("airdiff: scenarios=%d mutations=%d panics=%d fatal=%d error-results=%d results=%d monitors=%d\n", a.st.Scenarios, a.st.Mutations, a.st.Panics, a.st.Fatal, a.st.ErrorResults, a.st.OkResults, len(a.st.Monitors))
}

// airdkgRestarts: a machine with the victim's mnemonic is fed the victim's key-generation operations and stopped, opened
// again and replayed after EVERY one of them; each operation, each stop and each replayed operation is a line for the Lean
// model of the handlers (Model/AirDkg.lean: `stop` drops the instances and keeps the key rings; Props/C12Air.lean:
// replay_is_identity). A replayed operation is expected to be answered as the first time; what the real machine does
// after the replay is observed on the operations that follow.
func (a *airRun) airdkgRestarts(dir string, c *cluster, victim *vnode, mnemonic, round string) {
	tr := a.air
	if tr == nil {
		return
	}
	mdir := filepath.Join(dir, "airdkg-restarts")
	m, err := newMachine(mdir, "pw", mnemonic)
	if err != nil {
		a.mon("harness: " + err.Error())
		return
	}
	defer func() { m.VerifCloseDB(); os.RemoveAll(mdir) }()
	type line struct{ op, ob string }
	var logged []line
	for _, op := range victim.coldLog {
		if op.DKGIdentifier != round || op.IsSigningState() || string(op.Type) == "reinit_dkg" {
			continue
		}
		out := tryOperation(m, op, true)
		before := tr.st.Ops
		switch out.kind {
		case "fatal":
			tr.record(c, &vnode{air: m}, op, nil, fmt.Errorf("%s", out.err))
		case "result", "error-result":
			rb, _ := json.Marshal(out.result)
			tr.record(c, &vnode{air: m}, op, rb, nil)
		default:
			return
		}
		if tr.st.Ops == before || tr.isTainted(m, round) {
			// not translated, or a refused step: nothing further is claimed about this machine's round
			return
		}
		if out.kind != "fatal" {
			logged = append(logged, line{tr.lastOp, tr.lastOb})
		}
		// stop, open again, replay
		m.VerifCloseDB()
		m2, err := reopenMachine(mdir, "pw")
		if err != nil {
			a.mon(fmt.Sprintf("C12 restarts (airdkg): the machine does not open again: %v", err))
			return
		}
		id, _ := tr.rebind(m, m2)
		m = m2
		if err := m.ReplayOperationsLog(round); err != nil && !strings.Contains(err.Error(), "not found") {
			a.mon(fmt.Sprintf("C12 replay (airdkg): ReplayOperationsLog failed: %v", truncate(err.Error(), 160)))
			return
		}
		tr.emit(fmt.Sprintf("stop %d", id), "ok")
		tr.st.Restarts++
		for _, l := range logged {
			tr.emit(l.op, l.ob)
			tr.st.Replayed++
		}
	}
}

// noteResponseSigs: the Schnorr signatures a machine puts under its responses to the deals (kyber: R || s, the nonce
// commitment R first). The same machine answering the same deals operation again - the replay after a restart republishes
// its result - must not sign DIFFERENT messages with the SAME nonce: two signatures (R, s1), (R, s2) over known messages
// give the long-term private key away (x = (s1 - s2) / (h1 - h2)). C04: the private key never leaves the machine.
func (a *airRun) noteResponseSigs(op types.Operation, res *types.Operation, what string) {
	if string(op.Type) != "state_dkg_responses_await_confirmations" || len(res.ResultMsgs) != 1 {
		return
	}
	var req requests.DKGProposalResponseConfirmationRequest
	var rs []*dkgPedersen.Response
	if json.Unmarshal(res.ResultMsgs[0].Data, &req) != nil || json.Unmarshal(req.Response, &rs) != nil {
		return
	}
	if a.nonces == nil {
		a.nonces = map[string]nonceUse{}
	}
	for _, r := range rs {
		if r == nil || r.Response == nil || len(r.Response.Signature) < 80 {
			continue
		}
		sig := r.Response.Signature
		rPart, sPart := hex.EncodeToString(sig[:len(sig)-32]), hex.EncodeToString(sig[len(sig)-32:])
		signed := fmt.Sprintf("dealer %d/verifier %d/%v/%x", r.Index, r.Response.Index, r.Response.Status, r.Response.SessionID)
		key := op.DKGIdentifier + "/" + fmt.Sprint(req.ParticipantId) + "/" + rPart
		a.st.ResponseSigs++
		if prev, ok := a.nonces[key]; ok {
			if prev.signed != signed || prev.s != sPart {
				if prev.signed != signed && a.st.NonceReuses < 3 {
					a.mon(fmt.Sprintf("C04 nonce_reuse: participant %d of round %.8s… signed two different responses with one Schnorr nonce (R = %.16s…): %s in %s and %s in %s - the two result files give its long-term private key away", req.ParticipantId, op.DKGIdentifier, rPart, prev.signed[:40], prev.where, signed[:40], what))
				}
				a.st.NonceReuses++
			}
			continue
		}
		a.nonces[key] = nonceUse{signed: signed, s: sPart, where: what}
	}
}

type nonceUse struct{ signed, s, where string }
