package main

// harness: correspondence drivers that run the real dc4bc code (module replaced by /repo).
// Usage: harness <driver> <outDir> [seed] [tier]

import (
	"encoding/json"
	"fmt"
	"os"
	"path/filepath"
	"strconv"
)

func writeJSON(path string, v interface{}) {
	bz, err := json.MarshalIndent(v, "", " ")
	if err != nil {
		panic(err)
	}
	if err := os.WriteFile(path, bz, 0o644); err != nil {
		panic(err)
	}
}

// probe records the input the real code is about to be given, so that a process-terminating fault that no
// recover() can catch (out of memory, stack overflow, fatal runtime errors) still leaves the failing input behind
var probeDir string

func probe(what string) {
	if probeDir != "" {
		os.WriteFile(filepath.Join(probeDir, "current_input.txt"), []byte(what), 0o644)
	}
}

func probeDone() {
	if probeDir != "" {
		os.Remove(filepath.Join(probeDir, "current_input.txt"))
	}
}

func main() {
	if len(os.Args) < 3 {
		fmt.Fprintln(os.Stderr, "usage: harness <driver> <outDir> [seed] [tier]")
		os.Exit(2)
	}
	seed := int64(1)
	if len(os.Args) > 3 {
		seed, _ = strconv.ParseInt(os.Args[3], 10, 64)
	}
	tier := "quick"
	if len(os.Args) > 4 {
		tier = os.Args[4]
	}
	if os.Args[1] == "boardwriter" {
		// boardwriter <file> <lock> <writer> <size>... : one OS process appending through its own handle
		var sizes []int
		for _, a := range os.Args[5:] {
			n, _ := strconv.Atoi(a)
			sizes = append(sizes, n)
		}
		w, _ := strconv.Atoi(os.Args[4])
		lk := os.Args[3]
		if lk == "-" {
			lk = ""
		}
		if err := runBoardWriter(os.Args[2], lk, w, sizes); err != nil {
			fmt.Fprintln(os.Stderr, err)
			os.Exit(1)
		}
		return
	}
	if os.Args[1] == "expandtasks" {
		// expandtasks <tasks as JSON> : one TasksToMessages call in a process of its own (address space capped), so that an
		// expansion that eats memory ends THIS process and the driver lives to report it
		runExpandTasks(os.Args[2])
		return
	}
	probeDir = os.Args[2]
	os.MkdirAll(probeDir, 0o755)
	defer probeDone()
	switch os.Args[1] {
	case "nodediff":
		runNodeDiff(os.Args[2], seed, tier)
	case "secretdiff":
		runSecretDiff(os.Args[2], seed, tier)
	case "reinitdiff":
		runReinitDiff(os.Args[2], seed, tier)
	case "scheddiff":
		runSchedDiff(os.Args[2], seed, tier)
	case "crashdiff":
		runCrashDiff(os.Args[2], seed, tier)
	case "airdiff":
		runAirDiff(os.Args[2], seed, tier)
	case "algdiff":
		runAlgDiff(os.Args[2], seed, tier)
	case "boarddiff":
		runBoardDiff(os.Args[2], seed, tier)
	case "fsmdiff":
		runFsmDiff(os.Args[2], seed, tier)
	case "sszdiff":
		runSszDiff(os.Args[2], seed, tier)
	default:
		fmt.Fprintln(os.Stderr, "unknown driver", os.Args[1])
		os.Exit(2)
	}
}
