package main

// crashdiff (C13): a real ceremony in which one node is killed before its k-th durable effect (every
// write to its state store, every send to the board), restarted on the same directories with the real
// constructors, and the ceremony is driven on. For every k (exhaustive in the thorough tier).

import (
	"bufio"
	"errors"
	"fmt"
	"math/rand"
	"os"
	"path/filepath"
	"strings"

	"github.com/lidofinance/dc4bc/airgapped"
	"github.com/lidofinance/dc4bc/client/api/dto"
	"github.com/lidofinance/dc4bc/storage"
)

type crashStats struct {
	Ops, Runs, CrashPoints, Restarts, EffectsInReference int
	Configs                                              []string
	EffectHist                                           map[string]int
	OutcomeHist                                          map[string]int
	Monitors, Notes, Samples                             []string
	Exhaustive                                           bool
}

type crashRun struct {
	st   *crashStats
	ops  *bufio.Writer
	obs  *bufio.Writer
	rng  *rand.Rand
	tier string
	// the signature store of every node after the batch in the run without a crash
	refShape []string
}

func (r *crashRun) mon(s string) {
	addMonitor(&r.st.Monitors, s)
}

var errCrashed = errors.New("verif: the process is dead")

// crasher counts the durable effects of one node and kills it before the chosen ones.
type crasher struct {
	count   int
	crashAt map[int]bool
	dead    bool
	context string // what the node is doing (set by the driver)
	trace   []string
	hitDesc []string
}

func (k *crasher) effect(desc string) error {
	if k.dead {
		return errCrashed
	}
	k.count++
	k.trace = append(k.trace, desc+" in "+k.context)
	if k.crashAt[k.count] {
		k.dead = true
		k.hitDesc = append(k.hitDesc, fmt.Sprintf("#%d = %s in %s", k.count, desc, k.context))
		return errCrashed
	}
	return nil
}

func (k *crasher) install(n *vnode) {
	n.st.hook = func(op, key string, value []byte) error {
		switch op {
		case "set", "delete", "saveoffset":
			return k.effect(op + " " + key)
		default: // reads
			if k.dead {
				return errCrashed
			}
			return nil
		}
	}
	n.stg.hook = func(op string, msgs []storage.Message) error {
		evs := make([]string, len(msgs))
		for i, m := range msgs {
			evs[i] = m.Event
		}
		return k.effect("send " + strings.Join(evs, ","))
	}
}

type crashOutcome struct {
	effects int
	trace   []string
	ok      bool
	// per node: how many entries the signature store holds for the batch signed at the end, with and without a signature
	sigShape []string
}

// ceremony: key generation and one signing batch with node obsIdx crashing at the given effect numbers.
func (r *crashRun) ceremony(outDir string, n, t, obsIdx int, crashAt []int, repollFirst bool) crashOutcome {
	dir, _ := os.MkdirTemp(outDir, "crash")
	defer os.RemoveAll(dir)
	c, err := newCluster(dir, n, "pw")
	if err != nil {
		r.mon("harness: " + err.Error())
		return crashOutcome{}
	}
	defer c.close()
	c.cacheResults = true
	obs := c.nodes[obsIdx]
	k := &crasher{crashAt: map[int]bool{}}
	for _, x := range crashAt {
		k.crashAt[x] = true
	}
	k.install(obs)
	tag := fmt.Sprintf("(n=%d,t=%d) node %d", n, t, obsIdx)
	restartIfDead := func() {
		if !k.dead {
			return
		}
		r.st.Restarts++
		obs.ldb.VerifClose()
		obs.stg.Close()
		k.dead = false
		if err := c.buildNodeServices(obs); err != nil {
			r.mon(fmt.Sprintf("C13 restarts %s crash before durable effect %s: the node does not start again: %v", tag, strings.Join(k.hitDesc, " / "), err))
			return
		}
		k.install(obs)
	}
	k.context = "StartDKG"
	round, err := c.startDKG(t)
	if err != nil && !k.dead {
		r.mon("harness: " + err.Error())
		return crashOutcome{}
	}
	if k.dead {
		// the opening proposal never reached the board: the operator starts again
		restartIfDead()
		k.context = "StartDKG"
		round, err = c.startDKG(t)
		if err != nil {
			r.mon("harness: second StartDKG: " + err.Error())
			return crashOutcome{}
		}
	}
	repolls := 0
	dupReported := false
	pump := func(maxRounds int) {
		for i := 0; i < maxRounds; i++ {
			moved := 0
			for _, nd := range c.nodes {
				if nd == obs {
					// the observed node's poll: its own tick (the hook VerifTick), one message at a time so that the context is known
				repoll:
					for guard := 0; guard < 200; guard++ {
						// which message is next (looked up past the hooks: this is the driver asking, not the node)
						off, err := obs.st.inner.LoadOffset()
						if err != nil {
							restartIfDead()
							break
						}
						msgs, err := obs.stg.inner.GetMessages(off)
						if err != nil || len(msgs) == 0 {
							break
						}
						k.context = "tick(" + msgs[0].Event + ")"
						c.pollOnce(obs, 1)
						moved++
						if k.dead {
							restartIfDead()
							// a restarted node polls at once (before the operator answers anything) in every other run;
							// in the others the operator is faster and answers what is pending first
							if repollFirst && repolls < 8 {
								repolls++
								goto repoll
							}
							break
						}
					}
					continue
				}
				evs, _ := c.pollOnce(nd, 0)
				moved += len(evs)
			}
			for _, nd := range c.nodes {
				if nd == obs {
					// exactly once in effect: a board message that is handled again after a restart must not leave a second
					// operation for the same request (same round, type and request payload) in the pool
					seenReq := map[string]string{}
					for _, op := range nd.pendingOps() {
						key := string(op.Type) + "/" + op.DKGIdentifier + "/" + string(op.Payload)
						if first, dup := seenReq[key]; dup && first != op.ID && !dupReported {
							dupReported = true
							r.mon(fmt.Sprintf("C13 exactly_once %s crash before durable effect %s: the restarted node offers the same %s request twice (operations %.8s… and %.8s…): a message handled again after the restart left a second operation", tag, strings.Join(k.hitDesc, " / "), op.Type, first, op.ID))
						}
						seenReq[key] = op.ID
					}
					for _, op := range nd.pendingOps() {
						k.context = "ProcessOperation(" + string(op.Type) + ")"
						c.answerOp(nd, op)
						moved++
						if k.dead {
							restartIfDead()
							break
						}
					}
					continue
				}
				cnt, _ := c.answerAll(nd)
				moved += cnt
			}
			if moved == 0 {
				return
			}
		}
	}
	pump(60)
	hitf := func() string {
		if len(k.hitDesc) == 0 {
			return fmt.Sprintf("none (asked for %v, %d effects happened)", crashAt, k.count)
		}
		return strings.Join(k.hitDesc, " / ")
	}
	ok := true
	for i, nd := range c.nodes {
		if st := c.roundState(nd, round); st != "stage_signing_idle" {
			r.mon(fmt.Sprintf("C13 ceremony_completes %s crash before durable effect %s: after the restart key generation ends with node %d in %s", tag, hitf(), i, st))
			ok = false
			break
		}
	}
	var sigShape []string
	if ok {
		// one signing batch, proposed by the restarted node
		k.context = "ProposeSignMessages"
		if err := c.proposeData(obs, round, map[string][]byte{"after-crash": []byte("payload")}); err != nil {
			if k.dead {
				restartIfDead()
				k.context = "ProposeSignMessages"
				err = c.proposeData(obs, round, map[string][]byte{"after-crash": []byte("payload")})
			}
			if err != nil {
				r.mon(fmt.Sprintf("C13 ceremony_completes %s crash before durable effect %s: the node cannot propose a batch: %v", tag, hitf(), err))
				ok = false
			}
		}
		pump(30)
		for i, nd := range c.nodes {
			if !ok {
				break
			}
			stor, err := nd.sigSvc.GetSignatures(&dto.DkgIdDTO{DkgID: round})
			have := false
			with, without, firstEmpty := 0, 0, false
			if err == nil {
				for _, mm := range stor {
					for _, entries := range mm {
						for ei, e := range entries {
							if e.File == "after-crash" && len(e.Signature) > 0 {
								have = true
								with++
							} else if e.File == "after-crash" {
								without++
								if ei == 0 {
									firstEmpty = true
								}
							}
						}
					}
				}
			}
			sigShape = append(sigShape, fmt.Sprintf("%d entries with a signature, %d without, the first one (what export_signatures writes out) %s", with, without, map[bool]string{true: "EMPTY", false: "signed"}[firstEmpty]))
			// the same outcome as without the crash: every node's announcement of its reconstruction reached the board and was
			// stored by everybody (a node that died between saving the round and posting its announcement never posts it)
			if crashAt != nil && r.refShape != nil && i < len(r.refShape) && sigShape[i] != r.refShape[i] && ok {
				r.mon(fmt.Sprintf("C13 ceremony_completes %s crash before durable effect %s: for the batch signed afterwards node %d stores %s; without the crash: %s", tag, hitf(), i, sigShape[i], r.refShape[i]))
				ok = false
			}
			if !have {
				r.mon(fmt.Sprintf("C13 ceremony_completes %s crash before durable effect %s: node %d holds no signature for the batch signed afterwards", tag, hitf(), i))
				ok = false
			}
			if st := c.roundState(nd, round); st != "stage_signing_idle" && ok {
				r.mon(fmt.Sprintf("C13 ceremony_completes %s crash before durable effect %s: node %d is in %s after the batch", tag, hitf(), i, st))
				ok = false
			}
		}
	}
	if ok {
		// exactly once in effect: the restarted node agrees with one that never crashed
		other := c.nodes[(obsIdx+1)%n]
		if a, b := maskDeals(publicProj(obs, "")), maskDeals(publicProj(other, "")); a != b {
			r.mon(fmt.Sprintf("C13 exactly_once %s crash before durable effect %s: the restarted node's rounds and signatures differ from node %d's %s", tag, hitf(), other.idx, firstDiff(b, a)))
			ok = false
		}
		if ops := obs.pendingOps(); len(ops) != len(other.pendingOps()) {
			r.mon(fmt.Sprintf("C13 operations_offered %s crash before durable effect %s: the restarted node offers %d operations at the end, node %d offers %d", tag, hitf(), len(ops), other.idx, len(other.pendingOps())))
			ok = false
		}
	}
	if !ok && os.Getenv("VERIF_DEBUG") != "" && !strings.Contains(hitf(), "set verif_operations in ProcessMessage") {
		for _, nd := range c.nodes {
			fmt.Fprintf(os.Stderr, "DEBUG %s state %s pending %d log:\n", nd.name, c.roundState(nd, round), len(nd.pendingOps()))
			for _, l := range tailStr(nd.lg.lines, 12) {
				fmt.Fprintf(os.Stderr, "   %s\n", truncate(l, 300))
			}
		}
		for _, tl := range tailStr(k.trace, 8) {
			fmt.Fprintf(os.Stderr, "  trace %s\n", tl)
		}
	}
	r.st.Runs++
	res := "completed"
	if !ok {
		res = "FAILED"
	}
	for _, h := range k.hitDesc {
		if i := strings.Index(h, "= "); i >= 0 {
			r.st.OutcomeHist[h[i+2:]+" -> "+res]++
		}
	}
	return crashOutcome{effects: k.count, trace: k.trace, ok: ok, sigShape: sigShape}
}

func runCrashDiff(outDir string, seed int64, tier string) {
	os.MkdirAll(outDir, 0o755)
	airgapped.N = 1 << 10
	restore := silenceStdout()
	defer restore()
	fo, _ := os.Create(filepath.Join(outDir, "ops.txt"))
	fb, _ := os.Create(filepath.Join(outDir, "go_obs.txt"))
	r := &crashRun{st: &crashStats{EffectHist: map[string]int{}, OutcomeHist: map[string]int{}}, ops: bufio.NewWriter(fo), obs: bufio.NewWriter(fb),
		rng: rand.New(rand.NewSource(seed)), tier: tier}
	type cfg struct{ n, t int }
	cfgs := []cfg{{2, 2}}
	if tier == "thorough" {
		cfgs = []cfg{{2, 2}, {3, 2}}
	}
	for _, cf := range cfgs {
		obsIdx := r.rng.Intn(cf.n)
		r.refShape = nil
		ref := r.ceremony(outDir, cf.n, cf.t, obsIdx, nil, true)
		r.refShape = ref.sigShape
		if !ref.ok {
			r.mon(fmt.Sprintf("harness: the crash-free reference ceremony (n=%d,t=%d) did not complete", cf.n, cf.t))
			continue
		}
		r.st.Configs = append(r.st.Configs, fmt.Sprintf("(n=%d,t=%d) node %d: %d durable effects", cf.n, cf.t, obsIdx, ref.effects))
		r.st.EffectsInReference += ref.effects
		for _, tline := range ref.trace {
			// shape of the effect, without the event name
			key := tline
			if i := strings.Index(key, "("); i >= 0 {
				key = key[:i]
			}
			r.st.EffectHist[key]++
		}
		if len(r.st.Samples) < 60 {
			for _, tl := range ref.trace {
				if len(r.st.Samples) < 60 {
					r.st.Samples = append(r.st.Samples, tl)
				}
			}
		}
		var points []int
		for k := 1; k <= ref.effects; k++ {
			points = append(points, k)
		}
		if tier != "thorough" && len(points) > 45 {
			// one crash per distinct (effect, handler) shape first, then a random sample
			seen := map[string]bool{}
			var pick []int
			for i, tl := range ref.trace {
				if !seen[tl] {
					seen[tl] = true
					pick = append(pick, i+1)
				}
			}
			r.rng.Shuffle(len(pick), func(i, j int) { pick[i], pick[j] = pick[j], pick[i] })
			if len(pick) > 45 {
				pick = pick[:45]
			}
			points = pick
		} else {
			r.st.Exhaustive = true
		}
		for _, k := range points {
			// once with the restarted node polling at once, once with the operator answering first
			r.ceremony(outDir, cf.n, cf.t, obsIdx, []int{k}, true)
			r.ceremony(outDir, cf.n, cf.t, obsIdx, []int{k}, false)
			r.st.CrashPoints++
		}
		// several crashes in one run
		multi := 6
		if tier == "thorough" {
			multi = 40
		}
		for i := 0; i < multi; i++ {
			a, b := 1+r.rng.Intn(ref.effects), 1+r.rng.Intn(ref.effects)
			r.ceremony(outDir, cf.n, cf.t, obsIdx, []int{a, b, a + 1 + r.rng.Intn(5)}, i%2 == 0)
			r.st.CrashPoints++
		}
	}
	r.ops.Flush()
	r.obs.Flush()
	fo.Close()
	fb.Close()
	writeJSON(filepath.Join(outDir, "stats.json"), r.st)
	restore()
	fmt.Printf("crashdiff: runs=%d crash points=%d restarts=%d monitors=%d\n", r.st.Runs, r.st.CrashPoints, r.st.Restarts, len(r.st.Monitors))
}

func tailStr(l []string, n int) []string {
	if len(l) > n {
		return l[len(l)-n:]
	}
	return l
}
