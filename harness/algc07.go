package main

// C07 schedules on real ceremonies: slow signers whose answers arrive at every possible moment relative
// to the next batch, racing proposals, poll granularity. After every schedule each node must hold a valid
// signature for every message of every batch that got t answers, and be idle.

import (
	"encoding/json"
	"fmt"
	"math/rand"
	"strings"

	"github.com/corestario/kyber"
	"github.com/lidofinance/dc4bc/client/types"
	"github.com/lidofinance/dc4bc/fsm/types/requests"
	"github.com/lidofinance/dc4bc/fsm/types/responses"
)

func batchOfOp(op *types.Operation) string {
	var p responses.SigningPartialSignsParticipantInvitationsResponse
	if json.Unmarshal(op.Payload, &p) != nil {
		return ""
	}
	return p.BatchID
}

func (c *cluster) pollAllNodes() {
	for _, n := range c.nodes {
		c.pollOnce(n, 0)
	}
}

// answerBatch lets node i answer its pending signing request for the given batch (if it has one).
func (c *cluster) answerBatch(i int, batch string) (bool, error) {
	n := c.nodes[i]
	for _, op := range n.pendingOps() {
		if strings.HasPrefix(string(op.Type), "state_signing_") && batchOfOp(op) == batch {
			return true, c.answerOp(n, op)
		}
	}
	return false, nil
}

// newBatches returns the ids of the signing proposals on the board at or after offset `from`, in board order.
func (c *cluster) newBatches(from int) []string {
	var out []string
	ms := c.boardMessages()
	for _, m := range ms {
		if int(m.Offset) >= from && m.Event == "event_signing_start" {
			var r requests.SigningBatchProposalStartRequest
			if json.Unmarshal(m.Data, &r) == nil {
				out = append(out, r.BatchID)
			}
		}
	}
	return out
}

type c07Schedule struct {
	orderA  []int // who answers batch A, in this order (at least t of them)
	slow    int   // -1, or the participant whose answer to A comes late
	slowAt  int   // 0 never, 1 after A is done, 2 after B is proposed, 3 after B's first answer, 4 after B is done
	orderB  []int
	pollAll bool // poll after every single answer, or only when everybody has answered
}

func (s c07Schedule) String() string {
	return fmt.Sprintf("A=%v slow=%d@%d B=%v pollEach=%v", s.orderA, s.slow, s.slowAt, s.orderB, s.pollAll)
}

// runSchedule plays two batches according to the schedule and checks both.
func (a *algRun) runSchedule(c *cluster, round string, secret kyber.Scalar, gk []byte, s c07Schedule, k int, tag string) {
	n := len(c.nodes)
	c.pollAllNodes()
	from := len(c.boardMessages())
	pa := []byte(fmt.Sprintf("A-%d", k))
	if err := c.proposeData(c.nodes[k%n], round, map[string][]byte{"a.bin": pa}); err != nil {
		a.mon(fmt.Sprintf("C07 proposal_accepted %s %s: proposal A refused: %v", tag, s, err))
		return
	}
	c.pollAllNodes()
	ids := c.newBatches(from)
	if len(ids) != 1 {
		a.mon(fmt.Sprintf("C07 harness %s: %d proposals on the board, expected 1", tag, len(ids)))
		return
	}
	A := ids[0]
	step := func() {
		if s.pollAll {
			c.pollAllNodes()
		}
	}
	for _, i := range s.orderA {
		if i == s.slow {
			continue
		}
		if _, err := c.answerBatch(i, A); err != nil {
			a.st.Notes = append(a.st.Notes, fmt.Sprintf("%s %s: node %d answering A: %v", tag, s, i, truncate(err.Error(), 120)))
		}
		step()
	}
	c.pollAllNodes()
	c.pollAllNodes()
	slowAnswer := func(at int) {
		if s.slow >= 0 && s.slowAt == at {
			if _, err := c.answerBatch(s.slow, A); err != nil && len(a.st.Notes) < 60 {
				a.st.Notes = append(a.st.Notes, fmt.Sprintf("%s %s: late answer of node %d: %v", tag, s, s.slow, truncate(err.Error(), 160)))
			}
			c.pollAllNodes()
		}
	}
	slowAnswer(1)
	from = len(c.boardMessages())
	pb := []byte(fmt.Sprintf("B-%d", k))
	if err := c.proposeData(c.nodes[(k+1)%n], round, map[string][]byte{"b.bin": pb}); err != nil {
		a.mon(fmt.Sprintf("C07 later_batches_unaffected %s %s: proposal B refused after batch A: %v", tag, s, err))
		a.checkSignatures(c, round, A, secret, gk, []proposedMsg{{"a.bin", pa}}, tag+" "+s.String()+" batch A")
		return
	}
	c.pollAllNodes()
	ids = c.newBatches(from)
	if len(ids) != 1 {
		a.mon(fmt.Sprintf("C07 harness %s: %d proposals on the board, expected 1", tag, len(ids)))
		return
	}
	B := ids[0]
	slowAnswer(2)
	for j, i := range s.orderB {
		if _, err := c.answerBatch(i, B); err != nil {
			a.st.Notes = append(a.st.Notes, fmt.Sprintf("%s %s: node %d answering B: %v", tag, s, i, truncate(err.Error(), 120)))
		}
		step()
		if j == 0 {
			slowAnswer(3)
		}
	}
	c.pollAllNodes()
	c.pollAllNodes()
	slowAnswer(4)
	c.pollAllNodes()
	a.st.Batches += 2
	a.st.C07Schedules++
	a.checkSignatures(c, round, A, secret, gk, []proposedMsg{{"a.bin", pa}}, tag+" "+s.String()+" batch A")
	a.checkSignatures(c, round, B, secret, gk, []proposedMsg{{"b.bin", pb}}, tag+" "+s.String()+" batch B")
}

// raceProposals: two participants propose at the same time (the second has not seen the first yet). The first on
// the board is the batch; the other one must be refused by everybody and must not disturb it.
func (a *algRun) raceProposals(c *cluster, round string, secret kyber.Scalar, gk []byte, t int, tag string) {
	n := len(c.nodes)
	c.pollAllNodes()
	from := len(c.boardMessages())
	p1, p2 := a.rng.Intn(n), a.rng.Intn(n)
	if p2 == p1 {
		p2 = (p1 + 1) % n
	}
	pa := []byte("race-first")
	if err := c.proposeData(c.nodes[p1], round, map[string][]byte{"first.bin": pa}); err != nil {
		a.mon(fmt.Sprintf("C07 proposal_accepted %s: %v", tag, err))
		return
	}
	// p2 has not polled: its own round is still idle, so its proposal goes out as well
	if err := c.proposeData(c.nodes[p2], round, map[string][]byte{"second.bin": []byte("race-second")}); err != nil {
		a.st.Notes = append(a.st.Notes, tag+" racing proposal refused locally: "+truncate(err.Error(), 100))
	}
	c.pollAllNodes()
	ids := c.newBatches(from)
	if len(ids) < 1 {
		a.mon("C07 harness: no proposal on the board")
		return
	}
	A := ids[0]
	perm := a.rng.Perm(n)
	for _, i := range perm[:t] {
		c.answerBatch(i, A)
		c.pollAllNodes()
	}
	c.pollAllNodes()
	// stragglers answer whatever they still hold (first or second batch)
	for _, i := range perm[t:] {
		for _, id := range ids {
			c.answerBatch(i, id)
		}
		c.pollAllNodes()
	}
	c.pollAllNodes()
	a.st.Batches++
	a.st.C07Races++
	a.checkSignatures(c, round, A, secret, gk, []proposedMsg{{"first.bin", pa}}, tag+fmt.Sprintf(" racing proposals by %d and %d, batch on the board first", p1, p2))
}

func permutations(xs []int) [][]int {
	if len(xs) <= 1 {
		return [][]int{append([]int(nil), xs...)}
	}
	var out [][]int
	for i := range xs {
		rest := append(append([]int(nil), xs[:i]...), xs[i+1:]...)
		for _, p := range permutations(rest) {
			out = append(out, append([]int{xs[i]}, p...))
		}
	}
	return out
}

// allSchedules: every schedule of two batches for n participants and threshold t in which at least t answer each batch
func allSchedules(n, t int) []c07Schedule {
	var out []c07Schedule
	all := make([]int, n)
	for i := range all {
		all[i] = i
	}
	var orders [][]int
	for _, p := range permutations(all) {
		for k := t; k <= n; k++ {
			o := p[:k]
			dup := false
			for _, q := range orders {
				if fmt.Sprint(q) == fmt.Sprint(o) {
					dup = true
				}
			}
			if !dup {
				orders = append(orders, append([]int(nil), o...))
			}
		}
	}
	for _, oa := range orders {
		for slow := -1; slow < n; slow++ {
			// the slow one must not be needed for the threshold
			cnt := 0
			for _, i := range oa {
				if i != slow {
					cnt++
				}
			}
			if cnt < t {
				continue
			}
			ats := []int{0}
			if slow >= 0 {
				in := false
				for _, i := range oa {
					if i == slow {
						in = true
					}
				}
				if !in {
					continue // a participant that never answers is covered by the shorter order
				}
				ats = []int{1, 2, 3, 4}
			}
			for _, at := range ats {
				for _, ob := range orders {
					for _, pe := range []bool{true, false} {
						out = append(out, c07Schedule{orderA: oa, slow: slow, slowAt: at, orderB: ob, pollAll: pe})
					}
				}
			}
		}
	}
	return out
}

// sampleSchedules draws `count` schedules at random, for sizes where allSchedules is too large to enumerate
// (the number of schedules grows like (n!)^2).
func sampleSchedules(rng *rand.Rand, n, t, count int) []c07Schedule {
	order := func() []int {
		p := rng.Perm(n)
		return p[:t+rng.Intn(n-t+1)]
	}
	var out []c07Schedule
	for len(out) < count {
		oa := order()
		slow, at := -1, 0
		if len(oa) > t && rng.Intn(3) > 0 {
			slow = oa[rng.Intn(len(oa))] // one of those who answer, and not needed for the threshold
			at = 1 + rng.Intn(4)
		}
		out = append(out, c07Schedule{orderA: oa, slow: slow, slowAt: at, orderB: order(), pollAll: rng.Intn(2) == 0})
	}
	return out
}
