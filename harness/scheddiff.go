package main

// scheddiff (C14): one API request racing one poll tick of the same node, interleaved at the granularity of
// individual state-store reads/writes and board sends, with up to three pre-emptions (exhaustive in the
// thorough tier). The final node state must equal the state after one of the two serial orders.
//
// Both activities run as goroutines over the SAME services (as in the daemon: HTTP handler and poller share
// the node's services); every call they make on the state store or the board first asks the scheduler.

import (
	"bufio"
	"bytes"
	"crypto/ed25519"
	"encoding/json"
	"fmt"
	"math/rand"
	"os"
	"os/exec"
	"path/filepath"
	"runtime"
	"strconv"
	"strings"
	"sync"
	"time"

	"github.com/lidofinance/dc4bc/airgapped"
	"github.com/lidofinance/dc4bc/client/api/dto"
	"github.com/lidofinance/dc4bc/client/types"
	"github.com/lidofinance/dc4bc/fsm/types/requests"
	"github.com/lidofinance/dc4bc/storage"
)

type schedStats struct {
	Ops, Scenarios, Schedules, Blocked int
	Deadlocks                          int
	ScenarioHist                       map[string]int
	OutcomeHist                        map[string]int
	Monitors, Notes, Samples           []string
	Exhaustive                         bool
	StepsPerThread                     map[string]string
}

type schedRun struct {
	st   *schedStats
	rng  *rand.Rand
	tier string
}

func (r *schedRun) mon(s string) {
	addMonitor(&r.st.Monitors, s)
}

func goid() int {
	var buf [64]byte
	n := runtime.Stack(buf[:], false)
	f := strings.Fields(string(buf[:n]))
	id, _ := strconv.Atoi(f[1])
	return id
}

// scheduler: cooperative execution of two threads; a thread may only perform a hooked call when granted.
type scheduler struct {
	mu      sync.Mutex
	ids     map[int]int // goroutine id -> thread (0 = API request, 1 = poller)
	req     [2]chan string
	grant   [2]chan struct{}
	done    [2]chan struct{}
	trace   []string
	enabled bool
	// deadlock: neither thread came back for seconds: each waits for a lock the other holds
	deadlock bool
}

func newScheduler() *scheduler {
	s := &scheduler{ids: map[int]int{}}
	for i := 0; i < 2; i++ {
		s.req[i] = make(chan string)
		s.grant[i] = make(chan struct{})
		s.done[i] = make(chan struct{})
	}
	return s
}

func (s *scheduler) yield(desc string) {
	if !s.enabled {
		return
	}
	s.mu.Lock()
	t, ok := s.ids[goid()]
	s.mu.Unlock()
	if !ok {
		return // a call from outside the two threads (the harness itself)
	}
	s.req[t] <- desc
	<-s.grant[t]
}

func (s *scheduler) install(n *vnode) {
	n.st.hook = func(op, key string, value []byte) error {
		s.yield(op + " " + key)
		return nil
	}
	n.st.readHook = func(op string) { s.yield(op) }
	n.stg.hook = func(op string, msgs []storage.Message) error {
		s.yield("board " + op)
		return nil
	}
	n.stg.readHook = func(op string) { s.yield("board " + op) }
}

// execute runs the two activities under the plan: plan[i] = number of steps the running thread is granted
// before the i-th pre-emption; `first` runs first. After the plan is used up the running thread runs to its
// end, then the other one. A thread that does not show up within the timeout is blocked on a lock held by the
// other thread: the other thread is resumed instead.
func (s *scheduler) execute(first int, plan []int, fn [2]func()) (blocked int) {
	s.enabled = true
	finished := [2]bool{}
	for t := 0; t < 2; t++ {
		t := t
		go func() {
			s.mu.Lock()
			s.ids[goid()] = t
			s.mu.Unlock()
			s.yield("start")
			fn[t]()
			s.mu.Lock()
			delete(s.ids, goid())
			s.mu.Unlock()
			close(s.done[t])
		}()
	}
	pending := [2]bool{} // the thread has asked and is waiting for a grant
	// wait for thread t to ask (or finish); false = it is blocked
	await := func(t int) bool {
		if pending[t] || finished[t] {
			return true
		}
		select {
		case d := <-s.req[t]:
			pending[t] = true
			s.trace = append(s.trace, fmt.Sprintf("%d:%s", t, d))
			return true
		case <-s.done[t]:
			finished[t] = true
			return true
		case <-time.After(60 * time.Millisecond):
			return false
		}
	}
	step := func(t int) bool { // let t perform its pending call and come back; false if blocked
		if !await(t) {
			return false
		}
		if finished[t] {
			return true
		}
		pending[t] = false
		s.grant[t] <- struct{}{}
		return await(t)
	}
	cur := first
	await(0)
	await(1)
	// stuck: consecutive rounds in which neither thread could be moved (each round waits 60 ms per thread)
	stuck := 0
	progress := func(ok bool) {
		if ok {
			stuck = 0
		} else {
			stuck++
		}
	}
	const stuckLimit = 30
	for pi := 0; pi <= len(plan); pi++ {
		budget := 1 << 30
		if pi < len(plan) {
			budget = plan[pi]
		}
		for k := 0; k < budget && !finished[cur]; k++ {
			if !step(cur) {
				// cur is blocked on a lock the other thread holds: run the other one until cur comes back
				blocked++
				for !finished[1-cur] {
					moved := step(1 - cur)
					back := await(cur)
					progress(moved || back)
					if back {
						break
					}
					if stuck >= stuckLimit {
						s.deadlock = true
						s.enabled = false
						return blocked
					}
				}
				if !await(cur) {
					break
				}
			}
		}
		if finished[0] && finished[1] {
			break
		}
		cur = 1 - cur
		if finished[cur] {
			cur = 1 - cur
		}
	}
	for t := 0; t < 2; t++ {
		for !finished[t] {
			moved := step(t)
			if !moved && !finished[1-t] {
				moved = step(1 - t)
			}
			progress(moved)
			if stuck >= stuckLimit {
				s.deadlock = true
				s.enabled = false
				return blocked
			}
		}
	}
	s.enabled = false
	return blocked
}

// copyDir via cp -a (LevelDB directories; the databases are closed while copying)
func copyDir(src, dst string) error {
	os.RemoveAll(dst)
	return exec.Command("cp", "-a", src, dst).Run()
}

type schedScenario struct {
	name string
	// early: prepare is called right after the opening proposal was posted (it drives the key generation itself)
	early bool
	// prepare drives the cluster to the racing point and returns the API request of the observed node
	prepare func(c *cluster, obs *vnode, round string) (api func(n *vnode) error, pollMax int, err error)
}

func snapshotObs(c *cluster, obs *vnode, to string) error {
	obs.ldb.VerifClose()
	obs.stg.Close()
	if err := copyDir(filepath.Join(obs.dir, "state"), filepath.Join(to, "state")); err != nil {
		return err
	}
	bz, err := os.ReadFile(c.board)
	if err != nil {
		return err
	}
	if err := os.WriteFile(filepath.Join(to, "board.txt"), bz, 0o644); err != nil {
		return err
	}
	return c.buildNodeServices(obs)
}

func restoreObs(c *cluster, obs *vnode, from string) error {
	obs.ldb.VerifClose()
	obs.stg.Close()
	// state resets create sibling directories: remove them, restore the original
	matches, _ := filepath.Glob(filepath.Join(obs.dir, "state*"))
	for _, m := range matches {
		os.RemoveAll(m)
	}
	if err := copyDir(filepath.Join(from, "state"), filepath.Join(obs.dir, "state")); err != nil {
		return err
	}
	bz, err := os.ReadFile(filepath.Join(from, "board.txt"))
	if err != nil {
		return err
	}
	if err := os.WriteFile(c.board, bz, 0o644); err != nil {
		return err
	}
	return c.buildNodeServices(obs)
}

// finalState: everything the property talks about: pool, tombstones, rounds, signatures, offset, what was posted
// stripPubPoly: the log as version 0.1.4 wrote it: master-key announcements without PubPolyBz, signed by their senders
func stripPubPoly(c *cluster, dump []storage.Message) []storage.Message {
	keys := map[string]ed25519.PrivateKey{}
	for _, nd := range c.nodes {
		keys[nd.name] = nd.kp.Priv
	}
	out := make([]storage.Message, len(dump))
	copy(out, dump)
	for i, m := range out {
		if m.Event != "event_dkg_master_key_confirm_received" {
			continue
		}
		var req requests.DKGProposalMasterKeyConfirmationRequest
		if json.Unmarshal(m.Data, &req) != nil {
			continue
		}
		req.PubPolyBz = nil
		bz, err := json.Marshal(req)
		priv, ok := keys[m.SenderAddr]
		if err != nil || !ok {
			continue
		}
		// only what the sender really signed is re-signed in its old form (a forged announcement stays forged)
		if !ed25519.Verify(priv.Public().(ed25519.PublicKey), m.Data, m.Signature) {
			continue
		}
		out[i].Data = bz
		out[i].Signature = ed25519.Sign(priv, bz)
	}
	return out
}

func finalState(c *cluster, obs *vnode, boardFrom int) string {
	off, _ := obs.st.inner.LoadOffset()
	var posted []string
	for _, m := range c.boardMessages()[boardFrom:] {
		posted = append(posted, m.Event+"/"+m.SenderAddr+"/"+m.RecipientAddr)
	}
	return fmt.Sprintf("offset=%d posted=[%s] %s", off, strings.Join(posted, ","), longIntRe.ReplaceAllString(nodeRender(obs), "${1}T"))
}

func (r *schedRun) scenario(outDir string, sc schedScenario, n, t int) {
	dir, _ := os.MkdirTemp(outDir, "sched")
	defer os.RemoveAll(dir)
	c, err := newCluster(filepath.Join(dir, "c"), n, "pw")
	if err != nil {
		r.mon("harness: " + err.Error())
		return
	}
	defer c.close()
	c.cacheResults = true
	obs := c.nodes[0]
	round, err := c.startDKG(t)
	if err != nil {
		r.mon("harness: " + err.Error())
		return
	}
	if !sc.early {
		c.pump(60)
		for _, nd := range c.nodes {
			if st := c.roundState(nd, round); st != "stage_signing_idle" {
				r.mon("harness: key generation did not complete: " + st)
				return
			}
		}
	}
	api, pollMax, err := sc.prepare(c, obs, round)
	if err != nil {
		r.mon("harness: scenario " + sc.name + ": " + err.Error())
		return
	}
	snap := filepath.Join(dir, "snap")
	os.MkdirAll(snap, 0o755)
	if err := snapshotObs(c, obs, snap); err != nil {
		r.mon("harness: snapshot: " + err.Error())
		return
	}
	boardFrom := len(c.boardMessages())
	r.st.Scenarios++
	poll := func(nd *vnode) error {
		evs, err := c.pollOnce(nd, pollMax)
		if os.Getenv("VERIF_SCHED_DEBUG") != "" {
			fmt.Fprintf(os.Stderr, "poll: %+v %v\n", evs, err)
		}
		return err
	}
	// the two serial orders
	serial := func(order [2]func(*vnode) error) string {
		if err := restoreObs(c, obs, snap); err != nil {
			r.mon("harness: restore: " + err.Error())
			return ""
		}
		order[0](obs)
		order[1](obs)
		return finalState(c, obs, boardFrom)
	}
	s1 := serial([2]func(*vnode) error{api, poll})
	s2 := serial([2]func(*vnode) error{poll, api})
	// count the steps of each thread (serial run under the scheduler)
	count := func(first int) [2]int {
		restoreObs(c, obs, snap)
		s := newScheduler()
		s.install(obs)
		s.execute(first, nil, [2]func(){func() { api(obs) }, func() { poll(obs) }})
		var cnt [2]int
		for _, tl := range s.trace {
			cnt[int(tl[0]-'0')]++
		}
		return cnt
	}
	cnt := count(0)
	r.st.StepsPerThread[sc.name] = fmt.Sprintf("api=%d poll=%d", cnt[0], cnt[1])
	// plans with up to 3 pre-emptions
	type plan struct {
		first int
		steps []int
	}
	var plans []plan
	for first := 0; first < 2; first++ {
		a, b := cnt[first], cnt[1-first]
		for s1 := 1; s1 <= a; s1++ {
			plans = append(plans, plan{first, []int{s1}}) // one pre-emption: first runs s1 steps, other runs to its end, first finishes
			for s2 := 1; s2 < b; s2++ {
				plans = append(plans, plan{first, []int{s1, s2}})
				for s3 := 1; s3 <= a-s1; s3++ {
					plans = append(plans, plan{first, []int{s1, s2, s3}})
				}
			}
		}
	}
	limit := 60
	if r.tier == "thorough" {
		limit = 600
	}
	if len(plans) > limit {
		// all single pre-emptions, then a sample of the rest
		var singles, rest []plan
		for _, p := range plans {
			if len(p.steps) == 1 {
				singles = append(singles, p)
			} else {
				rest = append(rest, p)
			}
		}
		r.rng.Shuffle(len(rest), func(i, j int) { rest[i], rest[j] = rest[j], rest[i] })
		// every single pre-emption is run (up to 250 of them): the lost updates found so far all needed just one
		if len(singles) > 250 && len(singles) > limit {
			r.rng.Shuffle(len(singles), func(i, j int) { singles[i], singles[j] = singles[j], singles[i] })
			singles = singles[:250]
		}
		plans = append(singles, rest[:maxInt(0, limit-len(singles))]...)
	} else {
		r.st.Exhaustive = true
	}
	for _, p := range plans {
		if err := restoreObs(c, obs, snap); err != nil {
			r.mon("harness: restore: " + err.Error())
			return
		}
		s := newScheduler()
		s.install(obs)
		r.st.Blocked += s.execute(p.first, p.steps, [2]func(){func() { api(obs) }, func() { poll(obs) }})
		obs.st.hook, obs.st.readHook, obs.stg.hook, obs.stg.readHook = nil, nil, nil, nil
		r.st.Schedules++
		r.st.ScenarioHist[sc.name]++
		if s.deadlock {
			// neither serial order ends like this: the request never returns and the tick never finishes (the rest of the log is
			// never applied). The node's services are left behind with their locks held; the next plan restores a fresh node.
			r.st.OutcomeHist[sc.name+"/deadlock"]++
			r.st.Deadlocks++
			who := []string{"API request", "poller"}
			if r.st.Deadlocks <= 4 {
				r.mon(fmt.Sprintf("C14 serializable (n=%d,t=%d) %s: %s first, pre-empted after %v steps: the request and the poll tick block each other for good (neither came back within %d ms): the request never returns, the tick never ends and the rest of the log is never applied; interleaving so far: %s",
					n, t, sc.name, who[p.first], p.steps, 60*2*30, truncate(strings.Join(s.trace, " "), 700)))
			}
			if r.st.Deadlocks >= 12 {
				r.mon("C14 serializable: more than a dozen schedules ended in a deadlock: the run was cut short")
				return
			}
			continue
		}
		got := finalState(c, obs, boardFrom)
		if got != s1 && got != s2 {
			r.st.OutcomeHist[sc.name+"/differs"]++
			who := []string{"API request", "poller"}
			r.mon(fmt.Sprintf("C14 serializable (n=%d,t=%d) %s: %s first, pre-empted after %v steps: the final state is that of neither serial order; vs API-then-poll %s; vs poll-then-API %s; interleaving: %s",
				n, t, sc.name, who[p.first], p.steps, firstDiff(s1, got), firstDiff(s2, got), truncate(strings.Join(s.trace, " "), 700)))
		} else if got == s1 {
			r.st.OutcomeHist[sc.name+"/as API-then-poll"]++
		} else {
			r.st.OutcomeHist[sc.name+"/as poll-then-API"]++
		}
	}
}

func maxInt(a, b int) int {
	if a > b {
		return a
	}
	return b
}

func runSchedDiff(outDir string, seed int64, tier string) {
	os.MkdirAll(outDir, 0o755)
	airgapped.N = 1 << 10
	restore := silenceStdout()
	defer restore()
	fo, _ := os.Create(filepath.Join(outDir, "ops.txt"))
	fb, _ := os.Create(filepath.Join(outDir, "go_obs.txt"))
	bufio.NewWriter(fo).Flush()
	fo.Close()
	fb.Close()
	r := &schedRun{st: &schedStats{ScenarioHist: map[string]int{}, OutcomeHist: map[string]int{}, StepsPerThread: map[string]string{}}, rng: rand.New(rand.NewSource(seed)), tier: tier}

	// the observed node is slow: batch 1 is signed without it, its request stays pending; then batch 2 is proposed
	lateAnswer := schedScenario{name: "ProcessOperation(result of a pending signing request) || poll(next proposal -> new pending operation)",
		prepare: func(c *cluster, obs *vnode, round string) (func(n *vnode) error, int, error) {
			obs.silent = true
			if err := c.proposeData(c.nodes[1], round, map[string][]byte{"one": []byte("first batch")}); err != nil {
				return nil, 0, err
			}
			for i := 0; i < 6; i++ {
				for _, nd := range c.nodes {
					c.pollOnce(nd, 0)
				}
				for _, nd := range c.nodes[1:] {
					c.answerAll(nd)
				}
			}
			ops := obs.pendingOps()
			if len(ops) != 1 {
				return nil, 0, fmt.Errorf("observed node has %d pending operations, expected its unanswered signing request", len(ops))
			}
			// its airgapped result, computed now, submitted later
			cold := *ops[0]
			path, err := obs.air.ProcessOperation(cold, true)
			if err != nil {
				return nil, 0, err
			}
			rb, _ := os.ReadFile(path)
			os.Remove(path)
			var res types.Operation
			if err := json.Unmarshal(rb, &res); err != nil {
				return nil, 0, err
			}
			if err := c.proposeData(c.nodes[2%len(c.nodes)], round, map[string][]byte{"two": []byte("second batch")}); err != nil {
				return nil, 0, err
			}
			api := func(n *vnode) error { return n.svc.ProcessOperation(opToDTO(&res)) }
			return api, 3, nil
		}}
	// the client answers the very operation the tick is creating (an operator's tool that polls the pending operations and
	// answers at once; operation ids are derived from their content, so the answer can even be ready beforehand): before the
	// tick there is no such operation (the request is refused), after it the answer is posted and the operation retired - and
	// in between the operation is never lost with its answer unposted
	answerNew := schedScenario{name: "ProcessOperation(result of the operation the tick is creating) || poll(the proposal that creates it)",
		prepare: func(c *cluster, obs *vnode, round string) (func(n *vnode) error, int, error) {
			obs.silent = true
			for _, nd := range c.nodes {
				c.pollOnce(nd, 0)
			}
			if err := c.proposeData(c.nodes[1], round, map[string][]byte{"new": []byte("the batch whose request is answered at once")}); err != nil {
				return nil, 0, err
			}
			// a dry run to learn the operation and the machine's answer to it, then back to the state before it
			dry, _ := os.MkdirTemp(obs.dir, "dry")
			defer os.RemoveAll(dry)
			if err := snapshotObs(c, obs, dry); err != nil {
				return nil, 0, err
			}
			if _, err := c.pollOnce(obs, 1); err != nil {
				return nil, 0, err
			}
			ops := obs.pendingOps()
			if len(ops) != 1 {
				return nil, 0, fmt.Errorf("after the proposal the observed node has %d pending operations, expected the signing request", len(ops))
			}
			path, err := obs.air.ProcessOperation(*ops[0], true)
			if err != nil {
				return nil, 0, err
			}
			rb, _ := os.ReadFile(path)
			os.Remove(path)
			var res types.Operation
			if err := json.Unmarshal(rb, &res); err != nil {
				return nil, 0, err
			}
			if err := restoreObs(c, obs, dry); err != nil {
				return nil, 0, err
			}
			if n := len(obs.pendingOps()); n != 0 {
				return nil, 0, fmt.Errorf("after going back the observed node still has %d pending operations", n)
			}
			api := func(n *vnode) error { return n.svc.ProcessOperation(opToDTO(&res)) }
			return api, 1, nil
		}}
	// invitation of a second round arrives while the invitation of the first is being approved
	approve := schedScenario{name: "ApproveParticipation(invitation of round X) || poll(opening proposal of round Y -> new invitation)",
		prepare: func(c *cluster, obs *vnode, round string) (func(n *vnode) error, int, error) {
			if _, err := c.startDKG(2); err != nil {
				return nil, 0, err
			}
			c.pollOnce(obs, 0)
			ops := obs.pendingOps()
			if len(ops) != 1 {
				return nil, 0, fmt.Errorf("observed node has %d pending operations, expected one invitation", len(ops))
			}
			id := ops[0].ID
			if _, err := c.startDKG(2); err != nil {
				return nil, 0, err
			}
			api := func(n *vnode) error { return n.svc.ApproveParticipation(&dto.OperationIdDTO{OperationID: id}) }
			return api, 2, nil
		}}
	// reset_state while the poller is applying messages
	reset := schedScenario{name: "ResetFSMState || poll(two messages)",
		prepare: func(c *cluster, obs *vnode, round string) (func(n *vnode) error, int, error) {
			if err := c.proposeData(c.nodes[1], round, map[string][]byte{"one": []byte("a batch")}); err != nil {
				return nil, 0, err
			}
			for _, nd := range c.nodes[1:] {
				c.pollOnce(nd, 0)
				c.answerAll(nd)
			}
			k := 0
			api := func(n *vnode) error {
				k++
				_, err := n.fsmSvc.ResetFSMState(&dto.ResetStateDTO{NewStateDBDSN: filepath.Join(n.dir, fmt.Sprintf("state-reset-%d", k))})
				return err
			}
			return api, 2, nil
		}}
	// save_offset while the poller is applying messages: the operator moves the read offset (back to re-read, or forward to
	// skip) while a tick is under way
	mkSaveOffset := func(back bool) schedScenario {
		name := "SaveOffset(forward, past the pending messages) || poll(two messages)"
		if back {
			name = "SaveOffset(back by two) || poll(two messages)"
		}
		return schedScenario{name: name,
			prepare: func(c *cluster, obs *vnode, round string) (func(n *vnode) error, int, error) {
				if err := c.proposeData(c.nodes[1], round, map[string][]byte{"one": []byte("a batch")}); err != nil {
					return nil, 0, err
				}
				for _, nd := range c.nodes[1:] {
					c.pollOnce(nd, 0)
					c.answerAll(nd)
				}
				cur, err := obs.st.inner.LoadOffset()
				if err != nil {
					return nil, 0, err
				}
				target := uint64(len(c.boardMessages()))
				if back && cur >= 2 {
					target = cur - 2
				}
				api := func(n *vnode) error { return n.svc.SaveOffset(&dto.StateOffsetDTO{Offset: target}) }
				return api, 2, nil
			}}
	}
	// the observed node has lost its state and is being re-initialised: the operator submits the airgapped machine's answer to
	// the reinit operation (a read-modify-write of the stored round) while the poller opens another round
	// respelled: the answer's public polynomial in another spelling of the same JSON (a blank at its end): in a current-format
	// log the replay has already stored the polynomial, byte for byte what the machine answers - an update of the round that is
	// lost could not be told from one that was made; with the other spelling it can
	respelled := false
	mkFinishReinit := func(sameRound, oldFormat bool) schedScenario {
		respelled := respelled
		name := "ProcessOperation(result of the reinit operation) || poll(opening proposal of another round)"
		if sameRound {
			name = "ProcessOperation(result of the reinit operation) || poll(signing proposal and partial signatures for the re-initialised round)"
		}
		if oldFormat {
			// a 0.1.4 log: the master-key announcements carry no public polynomial, so the round gets it ONLY from the
			// answer to the reinit operation (in a current log the replay has already put the same value there)
			name += " [0.1.4-format log]"
		}
		if respelled {
			name += " [the answer's polynomial in another spelling]"
		}
		return schedScenario{name: name,
			prepare: func(c *cluster, obs *vnode, round string) (func(n *vnode) error, int, error) {
				dump := c.boardMessages()
				if oldFormat {
					dump = stripPubPoly(c, dump)
				}
				// a fresh node state and a fresh machine (same mnemonic) for the observed participant
				obs.ldb.VerifClose()
				obs.stg.Close()
				matches, _ := filepath.Glob(filepath.Join(obs.dir, "state*"))
				for _, m := range matches {
					os.RemoveAll(m)
				}
				if err := c.buildNodeServices(obs); err != nil {
					return nil, 0, err
				}
				if err := obs.st.inner.SaveOffset(uint64(len(dump))); err != nil {
					return nil, 0, err
				}
				obs.air.VerifCloseDB()
				os.RemoveAll(filepath.Join(obs.dir, "airgapped"))
				air, err := airgapped.NewMachine(filepath.Join(obs.dir, "airgapped"))
				if err != nil {
					return nil, 0, err
				}
				air.SetEncryptionKey([]byte("pw"))
				if err := air.SetBaseSeed(testMnemonics[obs.idx%len(testMnemonics)]); err != nil {
					return nil, 0, err
				}
				if err := air.InitKeys(); err != nil {
					return nil, 0, err
				}
				air.SetResultFolder(filepath.Join(obs.dir, "results"))
				obs.air = air
				newKeys := map[string][]byte{}
				for _, nd := range c.nodes {
					newKeys[nd.name] = nd.kp.Pub
				}
				re, err := types.GenerateReDKGMessage(dump, newKeys)
				if err != nil {
					return nil, 0, err
				}
				payload, _ := json.Marshal(re)
				if err := c.nodes[1].svc.ReInitDKG(&dto.ReInitDKGDTO{ID: re.DKGID, Payload: payload}); err != nil {
					return nil, 0, err
				}
				for _, nd := range c.nodes {
					c.pollOnce(nd, 0)
				}
				var reinitOp *types.Operation
				for _, op := range obs.pendingOps() {
					if string(op.Type) == "reinit_dkg" {
						reinitOp = op
					}
				}
				if reinitOp == nil {
					return nil, 0, fmt.Errorf("the observed node offers no reinit operation")
				}
				path, err := obs.air.ProcessOperation(*reinitOp, true)
				if err != nil {
					return nil, 0, err
				}
				rb, _ := os.ReadFile(path)
				os.Remove(path)
				var res types.Operation
				if err := json.Unmarshal(rb, &res); err != nil {
					return nil, 0, err
				}
				if string(res.Event) != string(types.OperationProcessed) {
					return nil, 0, fmt.Errorf("the machine answered the reinit operation with event %q", res.Event)
				}
				pollMax := 1
				if sameRound {
					if err := c.proposeData(c.nodes[1], round, map[string][]byte{"after": []byte("a batch proposed while the reinitialisation is finished")}); err != nil {
						return nil, 0, err
					}
					// the others answer the proposal: the tick of the observed node brings SEVERAL messages of the round the
					// request updates (the proposal and the others' partial signatures), and the request can fall between any two
					for _, nd := range c.nodes[1:] {
						c.pollOnce(nd, 0)
						c.answerAll(nd)
					}
					pollMax = 3
				} else if _, err := c.startDKG(2); err != nil {
					return nil, 0, err
				}
				if respelled {
					res.ExtraData = append(append([]byte{}, res.ExtraData...), ' ')
				}
				api := func(n *vnode) error { return n.svc.ProcessOperation(opToDTO(&res)) }
				return api, pollMax, nil
			}}
	}
	respelled = true
	finishRespelled := mkFinishReinit(true, false)
	respelled = false
	// two rounds are being re-initialised: the operator finishes round A (the machine's answer to its reinit operation)
	// while the poller handles the reinit message of round B - both rewrite the one stored value that holds all rounds
	finishVsOtherReinit := schedScenario{name: "ProcessOperation(result of the reinit operation of round A) || poll(reinit message of round B)",
		prepare: func(c *cluster, obs *vnode, roundA string) (func(n *vnode) error, int, error) {
			roundB, err := c.startDKG(2)
			if err != nil {
				return nil, 0, err
			}
			c.pump(60)
			for _, nd := range c.nodes {
				if st := c.roundState(nd, roundB); st != "stage_signing_idle" {
					return nil, 0, fmt.Errorf("second key generation ended in %s", st)
				}
			}
			all := c.boardMessages()
			var dumpA, dumpB []storage.Message
			for _, m := range all {
				if m.DkgRoundID == roundA {
					dumpA = append(dumpA, m)
				} else if m.DkgRoundID == roundB {
					dumpB = append(dumpB, m)
				}
			}
			obs.ldb.VerifClose()
			obs.stg.Close()
			matches, _ := filepath.Glob(filepath.Join(obs.dir, "state*"))
			for _, m := range matches {
				os.RemoveAll(m)
			}
			if err := c.buildNodeServices(obs); err != nil {
				return nil, 0, err
			}
			if err := obs.st.inner.SaveOffset(uint64(len(all))); err != nil {
				return nil, 0, err
			}
			obs.air.VerifCloseDB()
			os.RemoveAll(filepath.Join(obs.dir, "airgapped"))
			air, err := airgapped.NewMachine(filepath.Join(obs.dir, "airgapped"))
			if err != nil {
				return nil, 0, err
			}
			air.SetEncryptionKey([]byte("pw"))
			if err := air.SetBaseSeed(testMnemonics[obs.idx%len(testMnemonics)]); err != nil {
				return nil, 0, err
			}
			if err := air.InitKeys(); err != nil {
				return nil, 0, err
			}
			air.SetResultFolder(filepath.Join(obs.dir, "results"))
			obs.air = air
			newKeys := map[string][]byte{}
			for _, nd := range c.nodes {
				newKeys[nd.name] = nd.kp.Pub
			}
			post := func(dump []storage.Message) error {
				re, err := types.GenerateReDKGMessage(dump, newKeys)
				if err != nil {
					return err
				}
				payload, _ := json.Marshal(re)
				return c.nodes[1].svc.ReInitDKG(&dto.ReInitDKGDTO{ID: re.DKGID, Payload: payload})
			}
			// (round A in the 0.1.4 form: its public polynomial comes from the answer only, so losing that write shows)
			if err := post(stripPubPoly(c, dumpA)); err != nil {
				return nil, 0, err
			}
			for _, nd := range c.nodes {
				c.pollOnce(nd, 0)
			}
			var reinitOp *types.Operation
			for _, op := range obs.pendingOps() {
				if string(op.Type) == "reinit_dkg" {
					reinitOp = op
				}
			}
			if reinitOp == nil {
				return nil, 0, fmt.Errorf("the observed node offers no reinit operation")
			}
			path, err := obs.air.ProcessOperation(*reinitOp, true)
			if err != nil {
				return nil, 0, err
			}
			rb, _ := os.ReadFile(path)
			os.Remove(path)
			var res types.Operation
			if err := json.Unmarshal(rb, &res); err != nil {
				return nil, 0, err
			}
			if string(res.Event) != string(types.OperationProcessed) {
				return nil, 0, fmt.Errorf("the machine answered the reinit operation with event %q", res.Event)
			}
			if err := post(dumpB); err != nil {
				return nil, 0, err
			}
			api := func(n *vnode) error { return n.svc.ProcessOperation(opToDTO(&res)) }
			return api, 1, nil
		}}
	// in the middle of the key generation: the observed node submits its machine's answer to one step while the poller
	// applies the other participants' messages of that step (its own round, the very value the answer path does not touch)
	mkMidDKG := func(step string) schedScenario {
		return schedScenario{name: "ProcessOperation(result of " + step + ") || poll(the other participants' messages of that step)", early: true,
			prepare: func(c *cluster, obs *vnode, round string) (func(n *vnode) error, int, error) {
				obs.silent = true
				for i := 0; i < 40; i++ {
					for _, nd := range c.nodes {
						c.pollOnce(nd, 0)
					}
					var mine *types.Operation
					for _, op := range obs.pendingOps() {
						if string(op.Type) == step {
							mine = op
						}
					}
					if mine != nil {
						// the others answer this step (their messages reach the board, the observed node has not polled them)
						for _, nd := range c.nodes[1:] {
							c.answerAll(nd)
						}
						path, err := obs.air.ProcessOperation(*mine, true)
						if err != nil {
							return nil, 0, err
						}
						rb, _ := os.ReadFile(path)
						os.Remove(path)
						var res types.Operation
						if err := json.Unmarshal(rb, &res); err != nil {
							return nil, 0, err
						}
						api := func(n *vnode) error { return n.svc.ProcessOperation(opToDTO(&res)) }
						return api, 2, nil
					}
					// not there yet: everybody answers what is pending, the observed node included
					for _, nd := range c.nodes {
						c.answerAll(nd)
					}
				}
				return nil, 0, fmt.Errorf("the observed node never got a %s operation", step)
			}}
	}
	scs := []schedScenario{lateAnswer, answerNew, approve, reset, mkSaveOffset(true), mkSaveOffset(false), mkFinishReinit(false, false), mkFinishReinit(true, false), mkFinishReinit(true, true), finishRespelled, finishVsOtherReinit,
		mkMidDKG("state_dkg_commits_await_confirmations"), mkMidDKG("state_dkg_deals_await_confirmations"),
		mkMidDKG("state_dkg_responses_await_confirmations"), mkMidDKG("state_dkg_master_key_await_confirmations")}
	for _, sc := range scs {
		if only := os.Getenv("VERIF_SCHED_ONLY"); only != "" && !strings.Contains(sc.name, only) {
			continue
		}
		r.scenario(outDir, sc, 3, 2)
	}
	writeJSON(filepath.Join(outDir, "stats.json"), r.st)
	restore()
	fmt.Printf("scheddiff: scenarios=%d schedules=%d blocked=%d monitors=%d\n", r.st.Scenarios, r.st.Schedules, r.st.Blocked, len(r.st.Monitors))
	_ = bytes.Equal
}
