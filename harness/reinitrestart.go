package main

// C20: "… gives every airgapped machine the same share as the original ceremony, so signatures produced afterwards verify
// under the original group key" - afterwards includes the ordinary life of an airgapped laptop: the re-initialised machine
// is switched off, started again on its database and its operations log replayed (the log of a re-initialised round is
// the one reinit_dkg operation); and the machine that died while it handled the reinit operation (key ring saved, operation
// not yet logged), was started again and given the operation a second time.

import (
	"encoding/json"
	"fmt"
	"os"
	"path/filepath"

	prysmBLS "github.com/prysmaticlabs/prysm/v3/crypto/bls"

	"github.com/lidofinance/dc4bc/airgapped"
	"github.com/lidofinance/dc4bc/client/api/dto"
	"github.com/lidofinance/dc4bc/client/types"
)

// openClusterMachine: the airgapped process of a cluster participant started on the given database directory and unlocked
func openClusterMachine(nd *vnode, dbDir, password string) (*airgapped.Machine, error) {
	m, err := airgapped.NewMachine(dbDir)
	if err != nil {
		return nil, err
	}
	m.SetEncryptionKey([]byte(password))
	if err := m.InitKeys(); err != nil {
		m.VerifCloseDB()
		return nil, err
	}
	m.SetResultFolder(filepath.Join(nd.dir, "results"))
	return m, nil
}

// signsUnderGroupKey: a batch with one message is proposed and carried through by the real nodes and machines; every node
// must end with a reconstructed signature for it that verifies under the ORIGINAL group key
func (r *reinitRun) signsUnderGroupKey(b *cluster, round string, pk prysmBLS.PublicKey, file string, msg []byte, what string) {
	// whatever is still pending from before is handed to the machines now in place first
	if pend := b.pump(20); b.roundState(b.nodes[len(b.nodes)-1], round) != "stage_signing_idle" {
		why := ""
		for _, e := range pend {
			if e != "pump: no quiescence" {
				why = "; " + truncate(e, 220)
				break
			}
		}
		r.mon(fmt.Sprintf("C20 signs_after_reinit %s: the batch that is pending cannot be signed by these machines (round state %s)%s", what, b.roundState(b.nodes[len(b.nodes)-1], round), why))
		return
	}
	if err := b.proposeData(b.nodes[len(b.nodes)-1], round, map[string][]byte{file: msg}); err != nil {
		r.mon(fmt.Sprintf("C20 signs_after_reinit %s: proposing a batch fails: %v", what, err))
		return
	}
	errs := b.pump(20)
	for i, nd := range b.nodes {
		stor, _ := nd.sigSvc.GetSignatures(&dto.DkgIdDTO{DkgID: round})
		ok := false
		for _, mm := range stor {
			for _, entries := range mm {
				for _, e := range entries {
					if e.File == file && len(e.Signature) > 0 {
						if s, err := prysmBLS.SignatureFromBytes(e.Signature); err == nil && s.Verify(pk, msg) {
							ok = true
						} else {
							r.mon(fmt.Sprintf("C20 signs_after_reinit %s: node %d holds a signature for the batch proposed afterwards that does not verify under the original group key", what, i))
							return
						}
					}
				}
			}
		}
		if !ok {
			why := ""
			for _, e := range errs {
				if e != "pump: no quiescence" {
					why = "; " + truncate(e, 220)
					break
				}
			}
			r.mon(fmt.Sprintf("C20 signs_after_reinit %s: node %d holds no signature for the batch proposed afterwards (round state %s)%s", what, i, b.roundState(nd, round), why))
			return
		}
	}
	r.st.SignedAfterRestart++
}

// signsAfterRestart runs on the re-initialised installation `b` (every node signing-ready, every machine holding its share).
func (r *reinitRun) signsAfterRestart(b *cluster, round string, groupKey []byte, tag string) {
	pk, err := prysmBLS.PublicKeyFromBytes(groupKey)
	if err != nil {
		return
	}
	shares := make([]string, len(b.nodes))
	for i, nd := range b.nodes {
		shares[i], _ = keyringOf(nd.air, round)
	}
	// (1) every machine is stopped, started again on its database, unlocked, and the round's operations log replayed
	for i, nd := range b.nodes {
		old := nd.air
		nd.air.VerifCloseDB()
		m, err := openClusterMachine(nd, filepath.Join(nd.dir, "airgapped"), b.password)
		if err != nil {
			r.mon(fmt.Sprintf("harness: %s: re-initialised machine %d does not start again: %v", tag, i, err))
			return
		}
		nd.air = m
		if err := m.ReplayOperationsLog(round); err != nil {
			r.note(fmt.Sprintf("%s: machine %d restarted after the re-initialisation: ReplayOperationsLog: %v", tag, i, err))
		}
		if r.air != nil && r.air.stopped(old, m) {
			r.air.reinitReplayed(m, round)
		}
		r.st.ReinitRestarts++
		if got, _ := keyringOf(m, round); got != shares[i] {
			r.mon(fmt.Sprintf("C20 shares_reproduced %s: machine %d restarted and replayed after the re-initialisation holds %s, before the restart %s", tag, i, truncate(got, 80), truncate(shares[i], 80)))
		}
	}
	r.signsUnderGroupKey(b, round, pk, "after-restart", []byte("signed after the reinitialisation, a restart and a replay"),
		tag+" every re-initialised machine stopped, started again on its database and its operations log replayed")
	// (2) the machine dies while it handles the reinit operation: the contained key generation has run and the key ring is
	// saved, the operation is not logged and no result file written. Started again (nothing to replay), it is handed the
	// operation a second time. Played on fresh databases with the participants' mnemonics, which then take the place of the
	// participants' machines.
	for i, nd := range b.nodes {
		var reinitOp *types.Operation
		for k := range nd.coldLog {
			if string(nd.coldLog[k].Type) == "reinit_dkg" && nd.coldLog[k].DKGIdentifier == round {
				reinitOp = &nd.coldLog[k]
			}
		}
		if reinitOp == nil {
			r.note(fmt.Sprintf("%s: machine %d was handed no reinit operation", tag, i))
			return
		}
		dbDir := filepath.Join(nd.dir, "airgapped-died-in-reinit")
		os.RemoveAll(dbDir)
		m, err := airgapped.NewMachine(dbDir)
		if err != nil {
			r.mon("harness: " + err.Error())
			return
		}
		m.SetEncryptionKey([]byte(b.password))
		if err := m.SetBaseSeed(testMnemonics[i%len(testMnemonics)]); err != nil {
			m.VerifCloseDB()
			r.mon("harness: " + err.Error())
			return
		}
		if err := m.InitKeys(); err != nil {
			m.VerifCloseDB()
			r.mon("harness: " + err.Error())
			return
		}
		var first types.Operation
		var ferr error = fmt.Errorf("panic")
		func() {
			defer func() { recover() }()
			first, ferr = m.GetOperationResult(*reinitOp) // handled, not logged: the process dies here
		}()
		if r.air != nil {
			fb, _ := json.Marshal(first)
			r.air.recordReinit(b, &vnode{air: m, idx: i, name: nd.name}, *reinitOp, fb, ferr)
		}
		died := m
		_, saved := keyringOf(m, round)
		m.VerifCloseDB()
		if !saved {
			r.note(fmt.Sprintf("%s: machine %d: the reinit operation handled without logging left no key ring", tag, i))
			return
		}
		m, err = openClusterMachine(nd, dbDir, b.password)
		if err != nil {
			r.mon(fmt.Sprintf("harness: %s: machine %d that died in the reinit operation does not start again: %v", tag, i, err))
			return
		}
		m.ReplayOperationsLog(round) // the operator's routine after a start; the log has nothing for the round
		nd.air.VerifCloseDB()
		nd.air = m
		r.st.ReinitRestarts++
		out := tryOperation(m, *reinitOp, true)
		if r.air != nil && r.air.stopped(died, m) {
			switch out.kind {
			case "result", "error-result":
				ob, _ := json.Marshal(out.result)
				r.air.recordReinit(b, nd, *reinitOp, ob, nil)
			case "fatal":
				r.air.recordReinit(b, nd, *reinitOp, nil, fmt.Errorf("%s", out.err))
			}
		}
		if out.kind != "result" {
			r.note(fmt.Sprintf("%s: machine %d handed the reinit operation a second time after dying in it answers %s %s", tag, i, out.kind, truncate(out.err, 160)))
		}
		if got, _ := keyringOf(m, round); got != shares[i] {
			r.mon(fmt.Sprintf("C20 shares_reproduced %s: machine %d that died inside the reinit operation, was started again and handed the operation again holds %s, the re-initialised machine %s", tag, i, truncate(got, 80), truncate(shares[i], 80)))
		}
	}
	r.signsUnderGroupKey(b, round, pk, "after-refeed", []byte("signed after the reinit operation was handed over a second time"),
		tag+" every machine died inside the reinit operation (key ring saved, operation not logged), was started again and handed the operation a second time")
}
