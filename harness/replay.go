package main

// C08 checks on the real node: agreement of nodes that consumed the same log, rebuild by replay
// (fresh process and in-process state reset) under arbitrary poll batching, prefix agreement,
// ignore lists, non-interference of rounds interleaved on one board (also of two rounds that bind the
// same names to different communication keys, each one's signed lines posted again under the other's id).

import (
	"bytes"
	"crypto/ed25519"
	"crypto/sha256"
	"encoding/hex"
	"encoding/json"
	"fmt"
	"os"
	"path/filepath"
	"regexp"
	"strings"
	"time"

	"github.com/lidofinance/dc4bc/client/api/dto"
	"github.com/lidofinance/dc4bc/client/modules/keystore"
	spf "github.com/lidofinance/dc4bc/fsm/state_machines/signature_proposal_fsm"
	"github.com/lidofinance/dc4bc/fsm/types/requests"
	"github.com/lidofinance/dc4bc/storage"
)

var stampRe = regexp.MustCompile(`"[0-9]{4}-[0-9]{2}-[0-9]{2}T[0-9:.]+(Z|[+-][0-9]{2}:[0-9]{2})"`)

var longIntRe = regexp.MustCompile(`([=:])-?[0-9]{16,}`)

// publicProj: rounds and signature store of a node, time-free (every nanosecond timestamp masked),
// optionally restricted to one round.
func publicProj(n *vnode, onlyRound string) string {
	s := nodeRender(n)
	i := strings.Index(s, "rounds=(")
	j := strings.Index(s, ") ops=(")
	k := strings.Index(s, ") sigs=(")
	if i < 0 || j < 0 || k < 0 {
		return s
	}
	rounds := strings.Split(s[i+8:j], " ; ")
	sigs := strings.Split(strings.TrimSuffix(s[k+8:], ")}"), " ; ")
	if onlyRound != "" {
		var kr, ks []string
		for _, x := range rounds {
			if strings.HasPrefix(x, hexOf(onlyRound)+"=") {
				kr = append(kr, x)
			}
		}
		for _, x := range sigs {
			if strings.HasPrefix(x, hexOf(onlyRound)+"/") {
				ks = append(ks, x)
			}
		}
		rounds, sigs = kr, ks
	}
	out := "rounds=(" + strings.Join(rounds, " ; ") + ") sigs=(" + strings.Join(sigs, " ; ") + ")"
	return longIntRe.ReplaceAllString(out, "${1}T")
}

func hexOf(s string) string { return fmt.Sprintf("%x", s) }

// maskDeals: deals are encrypted point-to-point messages (addressed to one participant), so the deal
// recorded for a participant legitimately differs from node to node; everything else is public
func maskDeals(s string) string {
	var b strings.Builder
	for {
		i := strings.Index(s, " dkg=[")
		if i < 0 {
			break
		}
		q := strings.Index(s[i:], " q=(")
		if q < 0 {
			break
		}
		start := i + q + 4
		end := strings.Index(s[start:], ")]")
		if end < 0 {
			break
		}
		parts := strings.Split(s[start:start+end], ";")
		for k, p := range parts {
			f := strings.Split(p, ":")
			if len(f) > 5 {
				if f[5] != "x" {
					f[5] = "DEAL"
				}
				parts[k] = strings.Join(f, ":")
			}
		}
		b.WriteString(s[:start])
		b.WriteString(strings.Join(parts, ";"))
		s = s[start+end:]
	}
	b.WriteString(s)
	return b.String()
}

// replica: what a freshly installed process of participant j would be: same name and communication
// keys, empty state, own handle on the same board. Its sends are swallowed (mute) so that the log
// the other checks look at stays the one the ceremony produced.
func (c *cluster) replica(j int, tag string, filter func(storage.Message) bool) (*vnode, error) {
	src := c.nodes[j]
	v := &vnode{idx: j, name: src.name, dir: filepath.Join(c.dir, "rep-"+tag)}
	os.RemoveAll(v.dir)
	os.MkdirAll(v.dir, 0o755)
	v.lg = &memLogger{name: v.name}
	var err error
	v.ks, err = keystore.NewLevelDBKeyStore(v.name, filepath.Join(v.dir, "keystore"))
	if err != nil {
		return nil, err
	}
	v.kp = src.kp
	if err := v.ks.PutKeys(v.name, v.kp); err != nil {
		return nil, err
	}
	if err := c.buildNodeServices(v); err != nil {
		return nil, err
	}
	v.stg.mute = true
	v.stg.filter = filter
	return v, nil
}

func (v *vnode) closeReplica() {
	if v.ldb != nil {
		v.ldb.VerifClose()
	}
	if v.stg != nil {
		v.stg.Close()
	}
	if ks, ok := v.ks.(interface{ Close() error }); ok {
		ks.Close()
	}
	os.RemoveAll(v.dir)
}

// consume polls until nothing is left (or upto messages were consumed when upto > 0), splitting
// the consumption into polls of random size; every restartEvery-th poll all services of the node
// are rebuilt on the same directories (process restart).
func (r *nodeRun) consume(c *cluster, n *vnode, upto int, restarts bool) int {
	total := 0
	var seenOff map[uint64]bool
	for iter := 0; iter < 10000; iter++ {
		max := 0
		switch r.rng.Intn(4) {
		case 0:
			max = 1
		case 1:
			max = 1 + r.rng.Intn(4)
		case 2:
			max = 1 + r.rng.Intn(12)
		}
		if upto > 0 && (max == 0 || total+max > upto) {
			max = upto - total
			if max == 0 {
				return total
			}
		}
		evs, err := c.pollOnce(n, max)
		if err != nil {
			r.mon("harness: poll: " + err.Error())
			return total
		}
		if len(evs) == 0 {
			return total
		}
		total += len(evs)
		// a reader moves forward: the poll loop hands every line of the log to the node once (what it saves as its position
		// is the position after the last line it was handed - whatever lines the storage left out on the way)
		for _, e := range evs {
			if seenOff == nil {
				seenOff = map[uint64]bool{}
			}
			if seenOff[e.Offset] {
				r.mon(fmt.Sprintf("C08 each_line_once: the poll loop of %s handed it the message at offset %d (%s) a second time, with no restart and no reset in between", n.name, e.Offset, e.Event))
			}
			seenOff[e.Offset] = true
		}
		if restarts && r.rng.Intn(5) == 0 {
			mute, filter, rewrite := n.stg.mute, n.stg.filter, n.stg.rewrite
			n.ldb.VerifClose()
			n.stg.Close()
			if err := c.buildNodeServices(n); err != nil {
				r.mon("harness: restart: " + err.Error())
				return total
			}
			n.stg.mute, n.stg.filter, n.stg.rewrite = mute, filter, rewrite
		}
	}
	return total
}

func firstDiff(a, b string) string {
	k := 0
	for k < len(a) && k < len(b) && a[k] == b[k] {
		k++
	}
	lo := k - 60
	if lo < 0 {
		lo = 0
	}
	cut := func(s string) string {
		hi := k + 80
		if hi > len(s) {
			hi = len(s)
		}
		if lo > len(s) {
			return ""
		}
		return s[lo:hi]
	}
	return fmt.Sprintf("at %d: …%s… vs …%s…", k, cut(a), cut(b))
}

// c08Checks runs after a scenario has become quiet. obs is excluded wherever the comparison needs
// a node that consumed nothing but the board (obs was fed mutated messages that are not on it).
func (r *nodeRun) c08Checks(c *cluster, obs *vnode, rounds []string) {
	st := r.st
	var honest []*vnode
	for _, nd := range c.nodes {
		if nd != obs {
			// make sure everybody is at the end of the log
			r.consume(c, nd, 0, false)
			honest = append(honest, nd)
		}
	}
	if len(honest) == 0 {
		return
	}
	logLen := len(c.boardMessages())
	// (1) nodes that consumed the same log agree on everything public
	ref := publicProj(honest[0], "")
	for _, nd := range honest[1:] {
		st.C08Compared++
		if p := publicProj(nd, ""); maskDeals(p) != maskDeals(ref) {
			r.mon(fmt.Sprintf("C08 nodes_agree: %s and %s consumed the same %d messages and differ %s", honest[0].name, nd.name, logLen, firstDiff(ref, p)))
		}
	}
	j := honest[r.rng.Intn(len(honest))]
	live := publicProj(j, "")
	// (2) a fresh process replaying the log, polls split at random, restarts in between
	for k := 0; k < 2; k++ {
		rep, err := c.replica(j.idx, fmt.Sprintf("fresh%d", k), nil)
		if err != nil {
			r.mon("harness: replica: " + err.Error())
			return
		}
		r.consume(c, rep, 0, k == 1)
		st.C08Compared++
		if p := publicProj(rep, ""); p != live {
			r.mon(fmt.Sprintf("C08 replay_eq_live: %s rebuilt from an empty state by replaying %d messages differs from the live node %s", j.name, logLen, firstDiff(live, p)))
		}
		rep.closeReplica()
	}
	// (2a) the id of a board message is no input of the round state (ids are assigned by the board; a Kafka export carries
	// none): a replica shown the log with ONE id on every message, in one poll and message by message, agrees with the live node
	for k := 0; k < 2; k++ {
		rep, err := c.replica(j.idx, fmt.Sprintf("sameid%d", k), nil)
		if err != nil {
			break
		}
		rep.stg.rewrite = func(m storage.Message) storage.Message {
			m.ID = "one-id-for-every-message"
			return m
		}
		if k == 0 {
			for {
				evs, err := c.pollOnce(rep, 0)
				if err != nil || len(evs) == 0 {
					break
				}
			}
		} else {
			for {
				evs, err := c.pollOnce(rep, 1)
				if err != nil || len(evs) == 0 {
					break
				}
			}
		}
		st.C08Compared++
		if p := publicProj(rep, ""); p != live {
			r.mon(fmt.Sprintf("C08 replay_eq_live: %s rebuilt by replaying the %d messages, all shown with the same id (%s), differs from the live node %s", j.name, logLen, []string{"whole log in one poll", "one message per poll"}[k], firstDiff(live, p)))
		}
		rep.closeReplica()
	}
	// (2b) the node's OWN loop: everywhere else the harness plays the poller (read the offset, read the board, hand the
	// messages over one by one, save the offset after each); here a fresh process runs the real Poll() until it has consumed
	// the log (its ticker fires once a second) and must end where the live node is
	{
		rep, err := c.replica(j.idx, "realloop", nil)
		if err == nil {
			done := make(chan error, 1)
			go func() { done <- rep.svc.Poll() }()
			deadline := time.Now().Add(20 * time.Second)
			for time.Now().Before(deadline) {
				if off, err := rep.st.LoadOffset(); err == nil && int(off) >= logLen {
					break
				}
				time.Sleep(50 * time.Millisecond)
			}
			rep.cancel()
			select {
			case <-done:
			case <-time.After(5 * time.Second):
				r.mon("harness: the real Poll loop did not return after its context was cancelled")
			}
			st.C08Compared++
			st.C08RealLoop++
			if off, _ := rep.st.LoadOffset(); int(off) != logLen {
				r.mon(fmt.Sprintf("C08 replay_eq_live: the node's own Poll loop, started on an empty state, stopped at offset %d of %d within 20 s", off, logLen))
			} else if p := publicProj(rep, ""); p != live {
				r.mon(fmt.Sprintf("C08 replay_eq_live: %s rebuilt from an empty state by its own Poll loop (%d messages) differs from the live node %s", j.name, logLen, firstDiff(live, p)))
			}
			rep.closeReplica()
		}
	}
	// (3) prefix agreement: two different participants, two different batchings, same prefix
	if len(honest) >= 2 && logLen > 2 {
		k := 1 + r.rng.Intn(logLen-1)
		a, err1 := c.replica(honest[0].idx, "pfxa", nil)
		b, err2 := c.replica(honest[1].idx, "pfxb", nil)
		if err1 == nil && err2 == nil {
			r.consume(c, a, k, false)
			r.consume(c, b, k, true)
			st.C08Compared++
			pa, pb := maskDeals(publicProj(a, "")), maskDeals(publicProj(b, ""))
			// deals are addressed to one participant each: while a node is still collecting the deals addressed
			// to it, its statuses (and the moment it leaves that phase) are its own, not public
			if inDeals := "st=state_dkg_deals_await_confirmations "; strings.Contains(pa, inDeals) || strings.Contains(pb, inDeals) {
				st.C08InDealsWindow++
			} else if pa != pb {
				r.mon(fmt.Sprintf("C08 prefix_agree: %s and %s consumed the same prefix of %d messages and differ %s", a.name, b.name, k, firstDiff(pa, pb)))
			}
		}
		if a != nil {
			a.closeReplica()
		}
		if b != nil {
			b.closeReplica()
		}
	}
	// (4) rounds interleaved on the board change nothing: a replica that is shown only round R's
	// messages holds for R what the live node holds for R
	if len(rounds) > 1 {
		for _, R := range rounds {
			R := R
			rep, err := c.replica(j.idx, "solo", func(m storage.Message) bool { return m.DkgRoundID == R })
			if err != nil {
				break
			}
			r.consume(c, rep, 0, false)
			st.C08Compared++
			if p, q := publicProj(rep, R), publicProj(j, R); p != q {
				r.mon(fmt.Sprintf("C08 round_noninterference: round %s… on %s differs between the interleaved board and the board without the other rounds %s", R[:8], j.name, firstDiff(q, p)))
			}
			rep.closeReplica()
		}
	}
	// (4b) the clock of the replaying node is not an input: the same log with every stamp in it moved back by the same
	// 30 days (each message re-signed by its sender's key, as the sender would have signed it then) is, to the node, the
	// log replayed a month later; every distance inside the log is unchanged, so the time-free projection must be too
	{
		keys := map[string]ed25519.PrivateKey{}
		for _, nd := range c.nodes {
			keys[nd.name] = nd.kp.Priv
		}
		shifted := 0
		rep, err := c.replica(j.idx, "late", nil)
		if err == nil {
			rep.stg.rewrite = func(m storage.Message) storage.Message {
				moved := stampRe.ReplaceAllFunc(m.Data, func(b []byte) []byte {
					t, err := time.Parse(time.RFC3339Nano, string(b[1:len(b)-1]))
					if err != nil || t.Year() < 2000 {
						return b
					}
					shifted++
					return []byte(`"` + t.Add(-30*24*time.Hour).Format(time.RFC3339Nano) + `"`)
				})
				// only what its sender really signed is signed again in its moved form: a forged message stays forged
				if priv, ok := keys[m.SenderAddr]; ok && !bytes.Equal(moved, m.Data) && ed25519.Verify(priv.Public().(ed25519.PublicKey), m.Data, m.Signature) {
					m.Data = moved
					m.Signature = ed25519.Sign(priv, m.Data)
				}
				return m
			}
			r.consume(c, rep, 0, false)
			st.C08Compared++
			st.C08Late++
			st.C08StampsMoved += shifted
			if p := publicProj(rep, ""); p != live {
				r.mon(fmt.Sprintf("C08 clock_independent: %s rebuilt by replaying the %d messages with every stamp in them moved 30 days back (the log read a month later) differs from the live node %s", j.name, logLen, firstDiff(live, p)))
			}
			rep.closeReplica()
		}
	}
	// (5) state reset inside the running process (reset_state), then replay
	newDSN := filepath.Join(j.dir, "state-reset")
	if _, err := j.fsmSvc.ResetFSMState(&dto.ResetStateDTO{NewStateDBDSN: newDSN}); err != nil {
		r.mon("harness: reset: " + err.Error())
	} else {
		st.C08Resets++
		if off, _ := j.st.LoadOffset(); off != 0 {
			r.mon(fmt.Sprintf("C08 reset_replay: offset is %d after a state reset", off))
		}
		if p := publicProj(j, ""); p != "rounds=() sigs=()" {
			r.mon("C08 reset_replay: rounds or signatures are still visible right after a state reset, before anything was replayed: " + truncate(p, 160))
		}
		// proper prefix first, then the rest
		k := 1 + r.rng.Intn(logLen)
		r.consume(c, j, k, false)
		rep, err := c.replica(j.idx, "pfxr", nil)
		if err == nil {
			r.consume(c, rep, k, false)
			st.C08Compared++
			if p, q := publicProj(j, ""), publicProj(rep, ""); p != q {
				r.mon(fmt.Sprintf("C08 reset_replay: after a reset and a replay of %d messages the node differs from a fresh node that consumed the same prefix %s", k, firstDiff(q, p)))
			}
			rep.closeReplica()
		}
		r.consume(c, j, 0, false)
		st.C08Compared++
		if p := publicProj(j, ""); p != live {
			r.mon(fmt.Sprintf("C08 reset_replay: after a state reset and a full replay the node differs from its state before the reset %s", firstDiff(live, p)))
		}
		// the replay re-posted this node's broadcasts; consuming the duplicates changes nobody
		for _, nd := range honest {
			r.consume(c, nd, 0, false)
			st.C08Compared++
			if nd != j {
				if p := publicProj(nd, ""); maskDeals(p) != maskDeals(ref) {
					r.mon(fmt.Sprintf("C08 duplicates_idempotent: %s changed after consuming the messages re-posted by a replaying node %s", nd.name, firstDiff(ref, p)))
				}
			}
		}
	}
	// (6) reset with an ignore list: the node equals a fresh node with the same ignore list
	msgs := c.boardMessages()
	var ignore []string
	for _, m := range msgs {
		if m.Event == "event_signing_start" && len(ignore) == 0 {
			ignore = append(ignore, m.ID)
		}
	}
	if len(ignore) > 0 && len(honest) >= 2 {
		g := honest[0]
		if g == j {
			g = honest[1]
		}
		if _, err := g.fsmSvc.ResetFSMState(&dto.ResetStateDTO{NewStateDBDSN: filepath.Join(g.dir, "state-reset-ign"), Messages: ignore}); err == nil {
			st.C08Resets++
			r.consume(c, g, 0, false)
			rep, err := c.replica(g.idx, "ign", nil)
			if err == nil {
				rep.stg.inner.IgnoreMessages(ignore, false)
				r.consume(c, rep, 0, false)
				st.C08Compared++
				if p, q := publicProj(g, ""), publicProj(rep, ""); p != q {
					r.mon(fmt.Sprintf("C08 reset_replay: reset with an ignore list differs from a fresh node with the same ignore list %s", firstDiff(q, p)))
				}
				// ... and both have read the whole log: their position is the one after its last line
				r.consume(c, g, 0, false)
				if now := c.boardMessages(); len(now) > 0 {
					last := now[len(now)-1].Offset + 1
					for _, nd := range []*vnode{g, rep} {
						if off, err := nd.st.LoadOffset(); err != nil || off != last {
							r.mon(fmt.Sprintf("C08 reset_replay: after reading the whole log of %d lines with an ignore list %s has saved position %d (%v)", last, nd.name, off, err))
						}
					}
				}
				rep.closeReplica()
			}
		}
	}
}

// resetObserved: the model/code tie for the reset path: `reset` empties the model state; the whole
// log is then fed again through feed() (every step compared with the Lean model).
func (r *nodeRun) resetObserved(c *cluster, obs *vnode) {
	if _, err := obs.fsmSvc.ResetFSMState(&dto.ResetStateDTO{NewStateDBDSN: filepath.Join(obs.dir, "state-reset-obs")}); err != nil {
		r.mon("harness: reset: " + err.Error())
		return
	}
	r.emit("reset", "ok "+nodeRender(obs))
	for _, m := range c.boardMessages() {
		if m.RecipientAddr == "" || m.RecipientAddr == obs.name {
			r.feed(c, obs, m, "replayed")
		}
		obs.st.SaveOffset(m.Offset + 1)
	}
}

// restartNode: the process of a node ends and is started again on the same directories (what consume does between polls)
func (c *cluster) restartNode(n *vnode) error {
	mute, filter, rewrite := n.stg.mute, n.stg.filter, n.stg.rewrite
	n.ldb.VerifClose()
	n.stg.Close()
	if err := c.buildNodeServices(n); err != nil {
		return err
	}
	n.stg.mute, n.stg.filter, n.stg.rewrite = mute, filter, rewrite
	return nil
}

// rekeyedRounds (C08, outside the model's history): two rounds on one board that bind the SAME user names to DIFFERENT
// communication keys - round A is a real key generation of the cluster, round B is opened for the same names (same order,
// hence the same participant ids) with fresh keys, as after a rotation of the communication keys. B's own messages are the
// confirmations signed with the fresh keys; in between, every signed message of A is posted again under B's id, byte for
// byte, right after the original (and B's confirmations under A's id). What a node holds for B may depend on the lines that
// carry B's id only: a process that read the whole board, one that was restarted after every line, and one that was shown
// B's lines alone must hold the same for B (and likewise for A).
func (r *nodeRun) rekeyedRounds(outDir string) {
	n := 2
	if r.tier == "thorough" {
		n = 3
	}
	dir, _ := os.MkdirTemp(outDir, "rekeyed")
	defer os.RemoveAll(dir)
	c, err := newCluster(dir, n, "pw")
	if err != nil {
		r.mon("harness: " + err.Error())
		return
	}
	defer c.close()
	roundA, err := c.startDKG(n)
	if err != nil {
		r.mon("harness: " + err.Error())
		return
	}
	fresh := make([]*keystore.KeyPair, n)
	var parts []*requests.SignatureProposalParticipantsEntry
	for i, nd := range c.nodes {
		fresh[i] = keystore.NewKeyPair()
		pk, err := nd.air.GetPubKey().MarshalBinary()
		if err != nil {
			r.mon("harness: " + err.Error())
			return
		}
		parts = append(parts, &requests.SignatureProposalParticipantsEntry{Username: nd.name, PubKey: fresh[i].Pub, DkgPubKey: pk})
	}
	bz, _ := json.Marshal(requests.SignatureProposalParticipantsListRequest{Participants: parts, SigningThreshold: n, CreatedAt: time.Now()})
	h := sha256.Sum256(bz)
	roundB := hex.EncodeToString(h[:])
	if err := c.nodes[0].svc.StartDKG(&dto.StartDkgDTO{Payload: bz}); err != nil {
		r.mon("harness: " + err.Error())
		return
	}
	r.st.RekeyedRoundBoards++
	post := func(m storage.Message) {
		m.ID, m.Offset = "", 0
		c.nodes[r.rng.Intn(n)].stg.Send(m)
	}
	confirmB := func(i int) {
		data, _ := json.Marshal(requests.SignatureProposalParticipantRequest{ParticipantId: i, CreatedAt: time.Now()})
		m := storage.Message{DkgRoundID: roundB, Event: string(spf.EventConfirmSignatureProposal), Data: data, Signature: ed25519.Sign(fresh[i].Priv, data), SenderAddr: c.nodes[i].name}
		post(m)
		// … and B's line under A's id
		m.DkgRoundID = roundA
		post(m)
		r.st.RekeyedRoundCopies++
	}
	// B's own confirmations: all but the last participant's now, the last one after A's confirmations went by
	for i := 0; i < n-1; i++ {
		confirmB(i)
	}
	copied := 0
	copyA := func() {
		msgs := c.boardMessages()
		for _, m := range msgs[copied:] {
			if m.DkgRoundID == roundA && m.Event != string(spf.EventInitProposal) && len(m.Signature) > 0 {
				if ed25519.Verify(c.nodeByName(m.SenderAddr), m.Data, m.Signature) {
					x := m
					x.DkgRoundID = roundB
					post(x)
					r.st.RekeyedRoundCopies++
				}
			}
		}
		copied = len(c.boardMessages())
	}
	lastConfirmed := false
	for iter := 0; iter < 30; iter++ {
		moved := 0
		for _, nd := range c.nodes {
			evs, _ := c.pollOnce(nd, 0)
			moved += len(evs)
		}
		for _, nd := range c.nodes {
			for _, op := range nd.pendingOps() {
				if op.DKGIdentifier != roundA {
					continue // (B's invitations stay unanswered: nobody holds B's keys but this function)
				}
				if err := c.answerOp(nd, op); err == nil {
					moved++
				}
			}
		}
		copyA()
		if !lastConfirmed && iter >= 1 {
			confirmB(n - 1)
			lastConfirmed = true
			moved++
		}
		if moved == 0 {
			break
		}
	}
	if st := c.roundState(c.nodes[0], roundA); st != "stage_signing_idle" && len(r.st.Notes) < 30 {
		r.st.Notes = append(r.st.Notes, "rekeyedRounds: round A ended in "+st)
	}
	logLen := len(c.boardMessages())
	j := r.rng.Intn(n)
	reader := func(tag string, filter func(storage.Message) bool, restart bool) *vnode {
		rep, err := c.replica(j, tag, filter)
		if err != nil {
			r.mon("harness: replica: " + err.Error())
			return nil
		}
		for k := 0; k < 10*logLen+10; k++ {
			max := 0
			if restart {
				max = 1
			}
			evs, err := c.pollOnce(rep, max)
			if err != nil || len(evs) == 0 {
				break
			}
			if restart {
				if err := c.restartNode(rep); err != nil {
					r.mon("harness: restart: " + err.Error())
					break
				}
			}
		}
		return rep
	}
	whole := reader("rk-whole", nil, false)
	restarted := reader("rk-restarted", nil, true)
	for _, rd := range []struct{ id, name, other string }{{roundB, "B (fresh keys for the same names)", "A"}, {roundA, "A (the cluster's keys)", "B"}} {
		rd := rd
		alone := reader("rk-alone", func(m storage.Message) bool { return m.DkgRoundID == rd.id }, false)
		if whole != nil && restarted != nil && alone != nil {
			pw, pr, pa := publicProj(whole, rd.id), publicProj(restarted, rd.id), publicProj(alone, rd.id)
			r.st.C08Compared += 2
			setup := fmt.Sprintf("board of %d lines with two rounds binding the names of the %d participants to different communication keys, every signed line of the one posted again under the id of the other", logLen, n)
			if pw != pa {
				r.mon(fmt.Sprintf("C08 round_noninterference: round %s on %s differs between the process that read the whole board (phase %s) and the one shown this round's lines alone (phase %s): the lines carrying round %s's id changed it (%s) %s", rd.name, c.nodes[j].name, phaseOf(pw), phaseOf(pa), rd.other, setup, firstDiff(pa, pw)))
			}
			if pw != pr {
				r.mon(fmt.Sprintf("C08 replay_eq_live: round %s on %s differs between the process that read the whole board in one life (phase %s) and the one restarted after every line (phase %s) (%s) %s", rd.name, c.nodes[j].name, phaseOf(pw), phaseOf(pr), setup, firstDiff(pr, pw)))
			}
		}
		if alone != nil {
			alone.closeReplica()
		}
	}
	if whole != nil {
		whole.closeReplica()
	}
	if restarted != nil {
		restarted.closeReplica()
	}
}

// nodeByName: the communication key of the participant of that name (nil: nobody)
func (c *cluster) nodeByName(name string) ed25519.PublicKey {
	for _, nd := range c.nodes {
		if nd.name == name {
			return nd.kp.Pub
		}
	}
	return make(ed25519.PublicKey, ed25519.PublicKeySize)
}

// phaseOf: the state name in a one-round projection
func phaseOf(proj string) string {
	i := strings.Index(proj, "D{st=")
	if i < 0 {
		return "no such round"
	}
	rest := proj[i+5:]
	if j := strings.IndexByte(rest, ' '); j > 0 {
		return rest[:j]
	}
	return rest
}
