package main

// secretdiff (C04): what leaves an airgapped machine, what lies in its database, what a wrong password opens,
// who can open a deal, and what two rounds on the same machines have in common.

import (
	"bufio"
	"bytes"
	"encoding/base64"
	"encoding/hex"
	"encoding/json"
	"fmt"
	"math/big"
	"math/rand"
	"os"
	"path/filepath"
	"sort"
	"strings"

	"github.com/corestario/kyber"
	"github.com/corestario/kyber/encrypt/ecies"
	"github.com/corestario/kyber/pairing/bls12381"

	"github.com/lidofinance/dc4bc/airgapped"
	"github.com/lidofinance/dc4bc/client/api/dto"
	"github.com/lidofinance/dc4bc/client/types"
	"github.com/lidofinance/dc4bc/fsm/types/requests"
	"github.com/lidofinance/dc4bc/storage"
)

type secretStats struct {
	Ops, Scenarios, Secrets, Haystacks, Searches, DealPairs, WrongPasswords, Relocks, RoundPairs, NoncesSeen, SealedValues, RotatedRounds, LookAlikeRounds, VerifyCommands, FaultyAnswers int
	OutcomeHist                                                                                                                                                                           map[string]int
	Monitors, Notes, Samples                                                                                                                                                              []string
}

type secretRun struct {
	st   *secretStats
	ops  *bufio.Writer
	obs  *bufio.Writer
	rng  *rand.Rand
	tier string
}

func (r *secretRun) mon(s string) {
	addMonitor(&r.st.Monitors, s)
}

type secret struct {
	name string
	raw  []byte
}

// encodings of a secret an honest or careless implementation could emit
func encodings(raw []byte) map[string][]byte {
	out := map[string][]byte{"raw": raw}
	out["hex"] = []byte(hex.EncodeToString(raw))
	out["HEX"] = []byte(strings.ToUpper(hex.EncodeToString(raw)))
	out["base64"] = []byte(base64.StdEncoding.EncodeToString(raw))
	out["base64-nopad"] = []byte(base64.RawStdEncoding.EncodeToString(raw))
	out["base64url"] = []byte(base64.URLEncoding.EncodeToString(raw))
	out["base64url-nopad"] = []byte(base64.RawURLEncoding.EncodeToString(raw))
	// reversed byte order (little/big endian scalars)
	rev := make([]byte, len(raw))
	for i := range raw {
		rev[len(raw)-1-i] = raw[i]
	}
	out["raw-reversed"] = rev
	out["hex-reversed"] = []byte(hex.EncodeToString(rev))
	// a number printed as a number: leading zero bytes are not printed (%x / String() of a big integer), or it is decimal
	if len(raw) >= 24 {
		out["hex-inner"] = []byte(hex.EncodeToString(raw[4:]))
		out["HEX-inner"] = []byte(strings.ToUpper(hex.EncodeToString(raw[4:])))
		out["hex-reversed-inner"] = []byte(hex.EncodeToString(rev[4:]))
		out["decimal"] = []byte(new(big.Int).SetBytes(raw).String())
		out["decimal-reversed"] = []byte(new(big.Int).SetBytes(rev).String())
	}
	out["base64-reversed"] = []byte(base64.StdEncoding.EncodeToString(rev))
	return out
}

// unnest: the haystack plus everything found by decoding base64 strings inside JSON, recursively
func unnest(hay []byte, depth int) [][]byte {
	out := [][]byte{hay}
	if depth == 0 {
		return out
	}
	var v interface{}
	if json.Unmarshal(hay, &v) != nil {
		return out
	}
	var walk func(x interface{})
	walk = func(x interface{}) {
		switch t := x.(type) {
		case map[string]interface{}:
			for _, y := range t {
				walk(y)
			}
		case []interface{}:
			for _, y := range t {
				walk(y)
			}
		case string:
			if len(t) >= 8 {
				if raw, err := base64.StdEncoding.DecodeString(t); err == nil {
					out = append(out, unnest(raw, depth-1)...)
				}
			}
		}
	}
	walk(v)
	return out
}

func (r *secretRun) scan(where string, hay []byte, secrets []secret) {
	r.st.Haystacks++
	for _, h := range unnest(hay, 4) {
		for _, s := range secrets {
			if len(s.raw) < 16 {
				continue
			}
			for enc, needle := range encodings(s.raw) {
				r.st.Searches++
				if bytes.Contains(h, needle) {
					r.mon(fmt.Sprintf("C04 no_secret_leaves: %s contains %s (%s encoding)", where, s.name, enc))
				}
			}
		}
	}
}

func scalarBytes(s kyber.Scalar) []byte {
	b, _ := s.MarshalBinary()
	return b
}

func (r *secretRun) scenario(outDir string, n, t int) {
	tag := fmt.Sprintf("(n=%d,t=%d)", n, t)
	dir, _ := os.MkdirTemp(outDir, "sec")
	defer os.RemoveAll(dir)
	c, err := newCluster(dir, n, "right-password")
	if err != nil {
		r.mon("harness: " + err.Error())
		return
	}
	closed := false
	defer func() {
		if !closed {
			c.close()
		}
	}()
	r.st.Scenarios++
	// every result file the machines produce
	var results [][]byte
	c.resultHook = nil
	c.rawResultHook = func(n *vnode, rb []byte) { results = append(results, append([]byte(nil), rb...)) }
	round1, err := c.startDKG(t)
	if err != nil {
		r.mon("harness: " + err.Error())
		return
	}
	c.pump(60)
	// a second round on the same machines, same participants
	round2, _ := c.startDKG(t)
	c.pump(60)
	// a third one with another threshold when possible
	round3 := ""
	if t+1 <= n {
		round3, _ = c.startDKG(t + 1)
		c.pump(60)
	}
	for _, rd := range []string{round1, round2, round3} {
		if rd == "" {
			continue
		}
		for i, nd := range c.nodes {
			if st := c.roundState(nd, rd); st != "stage_signing_idle" {
				r.mon(fmt.Sprintf("harness: %s round %.8s: node %d ended in %s", tag, rd, i, st))
				return
			}
		}
	}
	// a fourth round after the last participant replaced its machine (another mnemonic, hence another long-term key) while
	// the other machines kept running: what they deal to that participant now must be sealed for its NEW key
	rot := c.nodes[n-1]
	retiredKey := rot.air.VerifSecKey()
	round4 := ""
	rot.air.VerifCloseDB()
	if fresh, err := airgapped.NewMachine(filepath.Join(rot.dir, "airgapped-rotated")); err == nil {
		fresh.SetEncryptionKey([]byte("right-password"))
		if err := fresh.SetBaseSeed(testMnemonics[(rot.idx+len(testMnemonics)/2)%len(testMnemonics)]); err != nil {
			r.mon("harness: rotated machine: " + err.Error())
			return
		}
		if err := fresh.InitKeys(); err != nil {
			r.mon("harness: rotated machine: " + err.Error())
			return
		}
		fresh.SetResultFolder(filepath.Join(rot.dir, "results"))
		rot.air = fresh
		round4, _ = c.startDKG(t)
		c.pump(60)
		r.st.RotatedRounds++
		for i, nd := range c.nodes {
			if st := c.roundState(nd, round4); st != "stage_signing_idle" {
				r.mon(fmt.Sprintf("C04 deal_only_for_addressee: %s round %.8s after participant %s replaced its machine: node %d ended in %s (what was dealt to the new machine did not open with its key)", tag, round4, rot.name, i, st))
				break
			}
		}
	} else {
		r.mon("harness: rotated machine: " + err.Error())
		return
	}
	c.proposeData(c.nodes[0], round1, map[string][]byte{"m": []byte("message")})
	c.pump(20)
	c.proposeRange(c.nodes[n-1], round2, 7, 9)
	c.pump(20)
	// the secrets
	var secrets []secret
	keyrings := map[string][]string{}
	for i, nd := range c.nodes {
		secrets = append(secrets, secret{fmt.Sprintf("the long-term private key of machine %d", i), scalarBytes(nd.air.VerifSecKey())})
		secrets = append(secrets, secret{fmt.Sprintf("the seed of machine %d", i), nd.air.VerifBaseSeed()})
		for _, rd := range []string{round1, round2, round3} {
			if rd == "" {
				continue
			}
			if cs, err := nd.air.VerifDealerCoefficients(rd); err == nil {
				for k, s := range cs {
					secrets = append(secrets, secret{fmt.Sprintf("coefficient %d of machine %d's secret polynomial in round %.8s", k, i, rd), scalarBytes(s)})
				}
			}
			if ks, err := nd.air.GetBLSKeyrings(); err == nil && ks[rd] != nil {
				secrets = append(secrets, secret{fmt.Sprintf("the BLS share of machine %d in round %.8s", i, rd), scalarBytes(ks[rd].Share.V)})
				kr, _ := keyringOf(nd.air, rd)
				keyrings[rd] = append(keyrings[rd], kr)
			}
		}
	}
	secrets = append(secrets, secret{fmt.Sprintf("the retired long-term private key of machine %d", rot.idx), scalarBytes(retiredKey)})
	r.st.Secrets += len(secrets)
	// (a) nothing that leaves a machine contains a secret
	for k, rb := range results {
		r.scan(fmt.Sprintf("%s result file #%d", tag, k), rb, secrets)
	}
	board := c.boardMessages()
	for _, m := range board {
		bz, _ := json.Marshal(m)
		r.scan(fmt.Sprintf("%s board message %d (%s)", tag, m.Offset, m.Event), bz, secrets)
	}
	// (a') what a machine answers to a faulty operation leaves it too ("all operation types including error results"):
	// a machine with a participant's mnemonic is fed mutated variants of every operation that participant received,
	// then the genuine one; every answer (result file or refusal text) is searched like the genuine results
	{
		vs := []*vnode{c.nodes[r.rng.Intn(n-1)]}
		lim := 25
		if r.tier == "thorough" {
			vs, lim = c.nodes[:n-1], 1<<30
		}
		types6 := []string{"state_dkg_commits_await_confirmations", "state_dkg_deals_await_confirmations", "state_dkg_responses_await_confirmations",
			"state_dkg_master_key_await_confirmations", "state_signing_await_partial_signs", "reinit_dkg"}
		for _, v := range vs {
			clone, err := newMachine(filepath.Join(dir, "faulty-"+v.name), "right-password", testMnemonics[v.idx%len(testMnemonics)])
			if err != nil {
				r.mon("harness: clone: " + err.Error())
				continue
			}
			if !clone.VerifSecKey().Equal(v.air.VerifSecKey()) {
				r.mon("harness: the clone of " + v.name + " has another long-term key")
				clone.VerifCloseDB()
				continue
			}
			ar := &airRun{st: &airStats{MutationHist: map[string]int{}, OutcomeHist: map[string]int{}}, rng: r.rng, tier: r.tier}
			for _, op := range v.coldLog {
				muts := ar.operationMutations(op, types6)
				r.rng.Shuffle(len(muts), func(i, j int) { muts[i], muts[j] = muts[j], muts[i] })
				for i, mu := range muts {
					if i >= lim && !strings.Contains(mu.name, "sibling-field") {
						continue
					}
					o := tryOperation(clone, mu.op, true)
					r.st.FaultyAnswers++
					r.st.OutcomeHist["faulty "+string(op.Type)+"/"+o.kind]++
					hay := []byte(o.err)
					if o.result != nil {
						bz, _ := json.Marshal(o.result)
						hay = append(append(hay, '\n'), bz...)
					}
					r.scan(fmt.Sprintf("%s the answer of %s's machine (%s) to a %s operation mutated by %s", tag, v.name, o.kind, op.Type, mutClass(mu.name)), hay, secrets)
				}
				tryOperation(clone, op, true)
			}
			clone.VerifCloseDB()
		}
	}
	// (b) a deal opens with its addressee's key only
	suite := bls12381.NewBLS12381Suite(nil)
	for _, m := range board {
		if m.Event != "event_dkg_deal_confirm_received" || m.RecipientAddr == m.SenderAddr {
			continue
		}
		var req requests.DKGProposalDealConfirmationRequest
		if json.Unmarshal(m.Data, &req) != nil {
			continue
		}
		for i, nd := range c.nodes {
			r.st.DealPairs++
			key := nd.air.VerifSecKey()
			if nd == rot && m.DkgRoundID != round4 {
				key = retiredKey // the rounds before the replacement were dealt to the machine it had then
			}
			if nd == rot && m.DkgRoundID == round4 {
				// … and the retired key opens nothing that was dealt afterwards
				if pt, err := ecies.Decrypt(suite, retiredKey, req.Deal, suite.Hash); err == nil && len(pt) > 0 {
					r.mon(fmt.Sprintf("C04 deal_only_for_addressee: %s the deal at offset %d for %s (round %.8s, dealt after %s replaced its machine) opens with the RETIRED key of that participant", tag, m.Offset, m.RecipientAddr, m.DkgRoundID, rot.name))
				}
			}
			pt, err := ecies.Decrypt(suite, key, req.Deal, suite.Hash)
			opened := err == nil && len(pt) > 0
			if nd.name == m.RecipientAddr {
				if !opened {
					r.mon(fmt.Sprintf("harness: %s deal %d does not open with its addressee's key", tag, m.Offset))
				}
			} else if opened {
				r.mon(fmt.Sprintf("C04 deal_only_for_addressee: %s the deal at offset %d for %s opens with the key of machine %d", tag, m.Offset, m.RecipientAddr, i))
			}
		}
	}
	// (d) different rounds share nothing
	pairs := [][2]string{{round1, round2}}
	if round3 != "" {
		pairs = append(pairs, [2]string{round1, round3}, [2]string{round2, round3})
	}
	for _, p := range pairs {
		r.st.RoundPairs++
		ka, kb := keyrings[p[0]], keyrings[p[1]]
		for i := range ka {
			if i < len(kb) && ka[i] == kb[i] && ka[i] != "none" {
				r.mon(fmt.Sprintf("C04 rounds_unrelated: %s rounds %.8s and %.8s give machine %d the same share and public polynomial", tag, p[0], p[1], i))
				break
			}
		}
		for i, nd := range c.nodes {
			ca, err1 := nd.air.VerifDealerCoefficients(p[0])
			cb, err2 := nd.air.VerifDealerCoefficients(p[1])
			if err1 != nil || err2 != nil {
				continue
			}
			same := 0
			for k := 0; k < len(ca) && k < len(cb); k++ {
				if ca[k].Equal(cb[k]) {
					same++
				}
			}
			if same > 0 {
				r.mon(fmt.Sprintf("C04 rounds_unrelated: %s machine %d deals in rounds %.8s and %.8s from secret polynomials that share %d of %d coefficients (constant term %v)", tag, i, p[0], p[1], same, len(ca), ca[0].Equal(cb[0])))
				break
			}
		}
	}
	// (d') the Schnorr signatures a machine makes with its long-term key inside the broadcast responses must not reuse a
	// nonce across rounds (same R with two different challenges gives the long-term private key away)
	noncesOf := map[string]map[string]map[string]bool{} // round -> sender -> R (hex)
	for _, m := range board {
		if m.Event != "event_dkg_response_confirm_received" {
			continue
		}
		var req requests.DKGProposalResponseConfirmationRequest
		if json.Unmarshal(m.Data, &req) != nil {
			continue
		}
		var rs []struct {
			Response *struct{ Signature []byte }
		}
		if json.Unmarshal(req.Response, &rs) != nil {
			continue
		}
		for _, x := range rs {
			if x.Response == nil || len(x.Response.Signature) < 48 {
				continue
			}
			if noncesOf[m.DkgRoundID] == nil {
				noncesOf[m.DkgRoundID] = map[string]map[string]bool{}
			}
			if noncesOf[m.DkgRoundID][m.SenderAddr] == nil {
				noncesOf[m.DkgRoundID][m.SenderAddr] = map[string]bool{}
			}
			noncesOf[m.DkgRoundID][m.SenderAddr][fmt.Sprintf("%x", x.Response.Signature[:48])] = true
			r.st.NoncesSeen++
		}
	}
	for _, p := range pairs {
		for sender, na := range noncesOf[p[0]] {
			shared := 0
			for R := range na {
				if noncesOf[p[1]][sender][R] {
					shared++
				}
			}
			if shared > 0 {
				r.mon(fmt.Sprintf("C04 nonce_reuse: %s %s signs its responses in rounds %.8s and %.8s with %d identical nonce commitments (R): two such signatures give its long-term key away", tag, sender, p[0], p[1], shared))
			}
		}
	}
	// (c) at rest: plaintext of private key and shares is not in the database files; a wrong password opens nothing
	var atRest []secret
	for _, s := range secrets {
		if strings.Contains(s.name, "private key") || strings.Contains(s.name, "BLS share") {
			atRest = append(atRest, s)
		}
	}
	dbDirs := make([]string, n)
	for i, nd := range c.nodes {
		dbDirs[i] = filepath.Join(nd.dir, "airgapped")
	}
	dbDirs = append(dbDirs, filepath.Join(rot.dir, "airgapped-rotated"))
	// (c') the operator's verify command on every machine (it loads the keyring; whatever it leaves behind is in the database
	// from then on), then every VALUE of every database, decoded through nested JSON and base64 like the outputs: no private
	// key, no share
	if stor, err := c.nodes[0].sigSvc.GetSignatures(&dto.DkgIdDTO{DkgID: round1}); err == nil {
		for _, nd := range c.nodes {
			for _, byID := range stor {
				for _, entries := range byID {
					for _, e := range entries {
						if len(e.Signature) > 0 {
							nd.air.VerifySign(e.SrcPayload, e.Signature, round1)
							r.st.VerifyCommands++
						}
					}
				}
			}
		}
	}
	for i, nd := range c.nodes {
		snap := nd.air.VerifDBSnapshot()
		var names []string
		for k := range snap {
			names = append(names, k)
		}
		sort.Strings(names)
		for _, k := range names {
			found := len(r.st.Monitors)
			r.scan(fmt.Sprintf("%s the value stored under %q in the database of machine %d", tag, k, i), snap[k], atRest)
			for j := found; j < len(r.st.Monitors); j++ {
				r.st.Monitors[j] = strings.Replace(r.st.Monitors[j], "C04 no_secret_leaves:", "C04 encrypted_at_rest:", 1)
			}
		}
	}
	// (c0) what is sealed under the password (the long-term key pair, one keyring per round) is sealed with AES-GCM under ONE
	// key per machine (one salt, one password): every stored value must have its own nonce (its first 12 bytes), otherwise
	// two values share a keystream and a known plaintext (the public key, a broadcast public polynomial) opens the others
	for i, nd := range c.nodes {
		snap := nd.air.VerifDBSnapshot()
		nonceOf := map[string]string{}
		var names []string
		for k := range snap {
			names = append(names, k)
		}
		sort.Strings(names)
		for _, k := range names {
			v := snap[k]
			if (k == "public_key" || k == "private_key" || strings.HasPrefix(k, "bls_keyring")) && len(v) >= 12 {
				r.st.SealedValues++
				nc := hex.EncodeToString(v[:12])
				if prev, dup := nonceOf[nc]; dup {
					r.mon(fmt.Sprintf("C04 at_rest_nonce: %s machine %d: the stored values %q and %q are sealed under the same key with the same nonce %s", tag, i, prev, k, nc))
				}
				nonceOf[nc] = k
			}
		}
	}
	// (c1) a LIVE machine that has been unlocked with the right password and has worked (key generations, signing): the idle
	// timer drops the sensitive data, then nobody types a password / somebody types wrong ones, one after the other, on the
	// same Machine value: neither the long-term key nor a share may load, nothing may be signed; the right password at the end
	// opens everything again
	for i, nd := range c.nodes {
		var signOps []types.Operation
		for _, op := range nd.coldLog {
			if string(op.Type) == "state_signing_await_partial_signs" {
				signOps = append(signOps, op)
			}
		}
		r.relock(fmt.Sprintf("%s the running machine %d (after its key generations and signing)", tag, i), nd.air, "right-password", r.wrongPasswords("right-password", 3), signOps)
	}
	c.close()
	closed = true
	for i, d := range dbDirs {
		files, _ := filepath.Glob(filepath.Join(d, "*"))
		for _, f := range files {
			bz, err := os.ReadFile(f)
			if err != nil {
				continue
			}
			r.st.Haystacks++
			for _, s := range atRest {
				for enc, needle := range encodings(s.raw) {
					r.st.Searches++
					if bytes.Contains(bz, needle) {
						r.mon(fmt.Sprintf("C04 encrypted_at_rest: %s database file %s of machine %d contains %s in the clear (%s)", tag, filepath.Base(f), i, s.name, enc))
					}
				}
			}
		}
	}
	for i, d := range dbDirs {
		for _, pw := range []string{"wrong-password", "", "right-passwor", "right-password ", "RIGHT-PASSWORD"} {
			r.st.WrongPasswords++
			// first the right password in this process (an operator unlocks, the session expires, somebody else tries)
			if m, err := airgapped.NewMachine(d); err == nil {
				m.SetEncryptionKey([]byte("right-password"))
				if err := m.InitKeys(); err != nil {
					r.mon(fmt.Sprintf("harness: %s machine %d does not open with the right password: %v", tag, i, err))
				}
				m.GetBLSKeyrings()
				m.VerifCloseDB()
			}
			m, err := airgapped.NewMachine(d)
			if err != nil {
				r.mon("harness: reopen: " + err.Error())
				continue
			}
			m.SetEncryptionKey([]byte(pw))
			if err := m.LoadKeysFromDB(); err == nil {
				r.mon(fmt.Sprintf("C04 wrong_password: %s machine %d: LoadKeysFromDB succeeds with the wrong password %q", tag, i, pw))
			}
			if ks, err := m.GetBLSKeyrings(); err == nil && len(ks) > 0 {
				r.mon(fmt.Sprintf("C04 wrong_password: %s machine %d: GetBLSKeyrings returns %d keyrings with the wrong password %q", tag, i, len(ks), pw))
			}
			m.VerifCloseDB()
		}
		// the same on ONE Machine value: started, unlocked with the right password, keys and keyrings read, idle timer, wrong ones
		if m, err := airgapped.NewMachine(d); err == nil {
			m.SetEncryptionKey([]byte("right-password"))
			if err := m.InitKeys(); err != nil {
				r.mon(fmt.Sprintf("harness: %s machine %d does not open with the right password: %v", tag, i, err))
			} else {
				r.relock(fmt.Sprintf("%s machine %d (restarted on its database, unlocked with the right password)", tag, i), m, "right-password", r.wrongPasswords("right-password", 2), nil)
			}
			m.VerifCloseDB()
		} else {
			r.mon("harness: reopen: " + err.Error())
		}
	}
	_ = storage.Message{}
}

// wrongPasswords: near misses of the right one, the empty one and k random ones
func (r *secretRun) wrongPasswords(right string, k int) []string {
	out := []string{"wrong-password", "", right[:len(right)-1], right + " ", strings.ToUpper(right)}
	for i := 0; i < k; i++ {
		bz := make([]byte, 1+r.rng.Intn(24))
		r.rng.Read(bz)
		if r.rng.Intn(2) == 0 {
			out = append(out, hex.EncodeToString(bz))
		} else {
			out = append(out, base64.StdEncoding.EncodeToString(bz))
		}
	}
	r.rng.Shuffle(len(out), func(i, j int) { out[i], out[j] = out[j], out[i] })
	return out
}

// relock (C04: "stored only encrypted under the operator's password: with a wrong password they cannot be loaded"): m is
// unlocked with the right password and has loaded its key and its keyrings. What cmd/airgapped does from then on, on this
// very Machine value: the idle timer calls DropSensitiveData(); the next command asks for the password again
// (SetEncryptionKey, then InitKeys -> LoadKeysFromDB; the commands then read the keyrings / sign). So: drop, try to load
// with no password at all, set a wrong password, try to load; again for every wrong password (no right one in between);
// at the end the right password must open the same key and the same shares.
func (r *secretRun) relock(who string, m *airgapped.Machine, right string, wrongs []string, signOps []types.Operation) {
	r.st.Relocks++
	if err := m.LoadKeysFromDB(); err != nil {
		r.mon(fmt.Sprintf("harness: %s: the right password does not load the keys: %v", who, err))
		return
	}
	wantKey := scalarBytes(m.VerifSecKey())
	wantRings, err := m.GetBLSKeyrings()
	if err != nil {
		r.mon(fmt.Sprintf("harness: %s: the right password does not load the keyrings: %v", who, err))
		return
	}
	shareOf := map[string][]byte{}
	for rd, k := range wantRings {
		if k != nil && k.Share != nil {
			shareOf[rd] = scalarBytes(k.Share.V)
		}
	}
	loads := func(how string) {
		r.st.WrongPasswords++
		if err := m.LoadKeysFromDB(); err == nil {
			same := m.VerifSecKey() != nil && bytes.Equal(scalarBytes(m.VerifSecKey()), wantKey)
			r.mon(fmt.Sprintf("C04 wrong_password: %s: unlocked with the right password, then DropSensitiveData(); %s: LoadKeysFromDB succeeds (it loads the machine's long-term private key: %v)", who, how, same))
		}
		if ks, err := m.GetBLSKeyrings(); err == nil && len(ks) > 0 {
			same := 0
			for rd, k := range ks {
				if k != nil && k.Share != nil && shareOf[rd] != nil && bytes.Equal(scalarBytes(k.Share.V), shareOf[rd]) {
					same++
				}
			}
			r.mon(fmt.Sprintf("C04 wrong_password: %s: unlocked with the right password, then DropSensitiveData(); %s: GetBLSKeyrings returns %d keyrings (%d of them with the machine's BLS share of that round)", who, how, len(ks), same))
		}
		for _, op := range signOps {
			signed := 0
			func() {
				defer func() { recover() }()
				res, err := m.GetOperationResult(op)
				if err != nil {
					return
				}
				for _, rm := range res.ResultMsgs {
					var req requests.SigningProposalBatchPartialSignRequests
					if rm.Event == "event_signing_partial_sign_received" && json.Unmarshal(rm.Data, &req) == nil {
						signed += len(req.PartialSigns)
					}
				}
			}()
			if signed > 0 {
				r.mon(fmt.Sprintf("C04 wrong_password: %s: unlocked with the right password, then DropSensitiveData(); %s: the signing operation of round %.8s is answered with %d partial signatures (the BLS share of the round was loaded)", who, how, op.DKGIdentifier, signed))
			}
		}
	}
	for k, pw := range wrongs {
		m.DropSensitiveData()
		loads(fmt.Sprintf("attempt %d, locked, no password entered", k))
		m.SetEncryptionKey([]byte(pw))
		loads(fmt.Sprintf("attempt %d, SetEncryptionKey(%q) - a wrong password", k, pw))
	}
	m.DropSensitiveData()
	m.SetEncryptionKey([]byte(right))
	if err := m.LoadKeysFromDB(); err != nil {
		r.mon(fmt.Sprintf("harness: %s: after %d wrong passwords the right one does not load the keys any more: %v", who, len(wrongs), err))
		return
	}
	if !bytes.Equal(scalarBytes(m.VerifSecKey()), wantKey) {
		r.mon(fmt.Sprintf("harness: %s: after %d wrong passwords the right one loads another long-term key", who, len(wrongs)))
	}
	ks, err := m.GetBLSKeyrings()
	if err != nil || len(ks) != len(wantRings) {
		r.mon(fmt.Sprintf("harness: %s: after %d wrong passwords the right one loads %d of %d keyrings (%v)", who, len(wrongs), len(ks), len(wantRings), err))
		return
	}
	for rd, k := range ks {
		if k == nil || k.Share == nil || !bytes.Equal(scalarBytes(k.Share.V), shareOf[rd]) {
			r.mon(fmt.Sprintf("harness: %s: after %d wrong passwords the right one loads another share for round %.8s", who, len(wrongs), rd))
		}
	}
}

// prefixWrongs: wrong passwords that share a beginning with the right one (of 31, 32, 33 bytes, all but the last 1 / 7
// bytes), differ from it in the last byte only, are the right one cut short or the right one with something appended
func prefixWrongs(right string) []string {
	seen := map[string]bool{right: true}
	var out []string
	add := func(w string) {
		if !seen[w] {
			seen[w] = true
			out = append(out, w)
		}
	}
	for _, k := range []int{16, 31, 32, 33, 39, len(right) - 7, len(right) - 1} {
		if k > 0 && k < len(right) {
			add(right[:k])                                     // the right one cut short
			add(right[:k] + strings.Repeat("#", len(right)-k)) // same length, same first k bytes
			add(right[:k] + "!")                               // the first k bytes and one other byte
		}
	}
	last := []byte(right)
	last[len(last)-1] ^= 1
	add(string(last))
	add(right + "x")
	add(right + right)
	return out
}

// longPasswords (C04 "stored only encrypted under the operator's password: with a wrong password they cannot be loaded" -
// the password, all of it): machines set up under pass phrases of 40 and 64 bytes, one of them after a key generation (it
// holds a BLS share); every wrong pass phrase that has a beginning in common with the right one must open nothing - neither
// on the machine that was unlocked and has dropped its sensitive data, nor on a machine started on the database
func (r *secretRun) longPasswords(outDir string) {
	dir, _ := os.MkdirTemp(outDir, "longpw")
	defer os.RemoveAll(dir)
	pw40 := "correct horse battery staple 40 bytes ok"
	pw64 := "a pass phrase of exactly sixty-four bytes, typed by the operator"
	// (a) a 2-of-2 key generation under the 40-byte pass phrase
	c, err := newCluster(filepath.Join(dir, "c40"), 2, pw40)
	if err != nil {
		r.mon("harness: " + err.Error())
		return
	}
	closed := false
	defer func() {
		if !closed {
			c.close()
		}
	}()
	if _, err := c.startDKG(2); err != nil {
		r.mon("harness: " + err.Error())
		return
	}
	c.pump(60)
	tag := fmt.Sprintf("(n=2,t=2, pass phrase of %d bytes)", len(pw40))
	nd := c.nodes[0]
	if ks, err := nd.air.GetBLSKeyrings(); err != nil || len(ks) == 0 {
		r.mon(fmt.Sprintf("harness: %s machine 0 holds no keyring after the key generation (%v)", tag, err))
	}
	r.relock(fmt.Sprintf("%s the running machine 0 (after its key generation)", tag), nd.air, pw40, prefixWrongs(pw40), nil)
	db := filepath.Join(nd.dir, "airgapped")
	c.close()
	closed = true
	r.coldWrongs(tag+" machine 0", db, pw40, prefixWrongs(pw40))
	// (b) a machine set up under the 64-byte pass phrase (long-term key only)
	m, err := newMachine(filepath.Join(dir, "m64"), pw64, testMnemonics[0])
	if err != nil {
		r.mon("harness: " + err.Error())
		return
	}
	tag = fmt.Sprintf("(a machine set up under a pass phrase of %d bytes)", len(pw64))
	r.relock(tag+" the running machine", m, pw64, prefixWrongs(pw64), nil)
	m.VerifCloseDB()
	r.coldWrongs(tag, filepath.Join(dir, "m64", "db"), pw64, prefixWrongs(pw64))
}

// coldWrongs: a process started on the database directory; the right password must open it, every wrong one nothing
func (r *secretRun) coldWrongs(who, db, right string, wrongs []string) {
	for _, pw := range append([]string{right}, wrongs...) {
		m, err := airgapped.NewMachine(db)
		if err != nil {
			r.mon("harness: reopen: " + err.Error())
			return
		}
		m.SetEncryptionKey([]byte(pw))
		err = m.LoadKeysFromDB()
		ks, kerr := m.GetBLSKeyrings()
		m.VerifCloseDB()
		if pw == right {
			if err != nil || kerr != nil {
				r.mon(fmt.Sprintf("harness: %s does not open with the right password: %v %v", who, err, kerr))
				return
			}
			continue
		}
		r.st.WrongPasswords++
		if err == nil {
			r.mon(fmt.Sprintf("C04 wrong_password: %s, started on its database: LoadKeysFromDB succeeds with the wrong password %q (the right one is %q, %d bytes)", who, pw, right, len(right)))
		}
		if kerr == nil && len(ks) > 0 {
			r.mon(fmt.Sprintf("C04 wrong_password: %s, started on its database: GetBLSKeyrings returns %d keyrings with the wrong password %q (the right one is %q, %d bytes)", who, len(ks), pw, right, len(right)))
		}
	}
}

// lookAlikes: a key generation among participants whose names differ only in the case of a letter: what is dealt to "Bob"
// opens with Bob's key, not with bob's
func (r *secretRun) lookAlikes(outDir string) {
	clusterNames = []string{"bob", "Bob", "carol"}
	defer func() { clusterNames = nil }()
	dir, _ := os.MkdirTemp(outDir, "alike")
	defer os.RemoveAll(dir)
	c, err := newCluster(dir, 3, "right-password")
	if err != nil {
		r.mon("harness: " + err.Error())
		return
	}
	defer c.close()
	tag := "(n=3,t=2, participants bob, Bob, carol)"
	round, err := c.startDKG(2)
	if err != nil {
		r.mon("harness: " + err.Error())
		return
	}
	c.pump(60)
	r.st.LookAlikeRounds++
	suite := bls12381.NewBLS12381Suite(nil)
	for _, m := range c.boardMessages() {
		if m.Event != "event_dkg_deal_confirm_received" || m.RecipientAddr == m.SenderAddr || m.DkgRoundID != round {
			continue
		}
		var req requests.DKGProposalDealConfirmationRequest
		if json.Unmarshal(m.Data, &req) != nil {
			continue
		}
		for i, nd := range c.nodes {
			r.st.DealPairs++
			pt, err := ecies.Decrypt(suite, nd.air.VerifSecKey(), req.Deal, suite.Hash)
			opened := err == nil && len(pt) > 0
			if nd.name == m.RecipientAddr && !opened {
				r.mon(fmt.Sprintf("C04 deal_only_for_addressee: %s the deal at offset %d for %q does not open with that participant's key", tag, m.Offset, m.RecipientAddr))
			} else if nd.name != m.RecipientAddr && opened {
				r.mon(fmt.Sprintf("C04 deal_only_for_addressee: %s the deal at offset %d for %q opens with the key of %q (machine %d)", tag, m.Offset, m.RecipientAddr, nd.name, i))
			}
		}
	}
	for i, nd := range c.nodes {
		if st := c.roundState(nd, round); st != "stage_signing_idle" {
			r.mon(fmt.Sprintf("C04 deal_only_for_addressee: %s node %d (%s) ended the key generation in %s", tag, i, nd.name, st))
			break
		}
	}
}

func runSecretDiff(outDir string, seed int64, tier string) {
	os.MkdirAll(outDir, 0o755)
	airgapped.N = 1 << 10
	restore := silenceStdout()
	defer restore()
	fo, _ := os.Create(filepath.Join(outDir, "ops.txt"))
	fb, _ := os.Create(filepath.Join(outDir, "go_obs.txt"))
	r := &secretRun{st: &secretStats{OutcomeHist: map[string]int{}}, ops: bufio.NewWriter(fo), obs: bufio.NewWriter(fb), rng: rand.New(rand.NewSource(seed)), tier: tier}
	cfgs := [][2]int{{3, 2}}
	if tier == "thorough" {
		cfgs = [][2]int{{3, 2}, {2, 2}, {4, 3}, {4, 2}}
	}
	for _, cf := range cfgs {
		r.scenario(outDir, cf[0], cf[1])
	}
	r.lookAlikes(outDir)
	r.longPasswords(outDir)
	r.ops.Flush()
	r.obs.Flush()
	fo.Close()
	fb.Close()
	writeJSON(filepath.Join(outDir, "stats.json"), r.st)
	restore()
	fmt.Printf("secretdiff: scenarios=%d secrets=%d haystacks=%d searches=%d deal pairs=%d monitors=%d\n", r.st.Scenarios, r.st.Secrets, r.st.Haystacks, r.st.Searches, r.st.DealPairs, len(r.st.Monitors))
}
