package main

// Addition of wave 24 (d) to the node driver (nodediff):
//
//   - C10 w24dDroppedParticipant: ONE round id, four users. An opening proposal for three of them; the genuine decline of one
//     of them (the round is cancelled); a second opening proposal under the same round id (opening proposals are unsigned, anybody
//     who writes to the board can post one) whose roster has the fourth user, with its own key, in the position k of one of the
//     first three; then the confirmation and the decline of the user that was dropped from the roster, signed by it with its own
//     key under its own name, carrying the participant id k it had in the first roster. Every node of the four reads these
//     messages. C10: from the decline on, the record (status and data) of a participant of that round changes only in response
//     to a message signed with the key registered for the participant the record belongs to.

import (
	"crypto/ed25519"
	"crypto/sha256"
	"encoding/hex"
	"encoding/json"
	"fmt"
	"os"
	"sort"
	"strings"
	"time"

	"github.com/lidofinance/dc4bc/client/api/dto"
	"github.com/lidofinance/dc4bc/fsm/types/requests"
	"github.com/lidofinance/dc4bc/storage"
)

// w24dRecord: one participant record of a round as a node has stored it.
type w24dRecord struct {
	owner string // Username inside the record
	raw   string // the whole record (status and data), JSON
}

// w24dRecords: every participant record the node holds for the round (proposal, key-generation and signing stage), keyed by
// stage and participant id, and the communication keys registered in the round.
func w24dRecords(n *vnode, round string) (map[string]w24dRecord, map[string][]byte) {
	out := map[string]w24dRecord{}
	d, err := n.fsmSvc.GetFSMDump(&dto.DkgIdDTO{DkgID: round})
	if err != nil || d == nil || d.Payload == nil {
		return out, nil
	}
	keys := map[string][]byte{}
	for u, k := range d.Payload.PubKeys {
		keys[u] = k
	}
	bz, err := json.Marshal(d.Payload)
	if err != nil {
		return out, keys
	}
	var stages map[string]json.RawMessage
	if json.Unmarshal(bz, &stages) != nil {
		return out, keys
	}
	for _, stage := range []string{"SignatureProposalPayload", "DKGProposalPayload", "SigningProposalPayload"} {
		var s struct {
			Quorum map[string]json.RawMessage
		}
		if len(stages[stage]) == 0 || json.Unmarshal(stages[stage], &s) != nil {
			continue
		}
		for id, rec := range s.Quorum {
			var who struct{ Username string }
			json.Unmarshal(rec, &who)
			out[stage+"["+id+"]"] = w24dRecord{owner: who.Username, raw: string(rec)}
		}
	}
	return out, keys
}

// w24dDiff: what changed between two versions of a record, field by field (the status of the proposal stage by its name).
func w24dDiff(slot string, b, a w24dRecord) string {
	var fb, fa map[string]interface{}
	json.Unmarshal([]byte(b.raw), &fb)
	json.Unmarshal([]byte(a.raw), &fa)
	show := func(k string, v interface{}) string {
		if f, ok := v.(float64); ok && k == "Status" && strings.HasPrefix(slot, "SignatureProposalPayload") {
			names := []string{"SigConfirmationAwaitConfirmation", "SigConfirmationConfirmed", "SigConfirmationDeclined", "SigConfirmationError"}
			if int(f) >= 0 && int(f) < len(names) {
				return names[int(f)]
			}
		}
		return truncate(fmt.Sprint(v), 24)
	}
	if b.raw == "" {
		return fmt.Sprintf("appeared (Username %s, Status %s)", a.owner, show("Status", fa["Status"]))
	}
	if a.raw == "" {
		return fmt.Sprintf("disappeared (was Username %s, Status %s)", b.owner, show("Status", fb["Status"]))
	}
	var keys []string
	for k := range fb {
		keys = append(keys, k)
	}
	for k := range fa {
		if _, ok := fb[k]; !ok {
			keys = append(keys, k)
		}
	}
	sort.Strings(keys)
	var parts []string
	for _, k := range keys {
		if fmt.Sprint(fb[k]) != fmt.Sprint(fa[k]) {
			parts = append(parts, fmt.Sprintf("%s %s -> %s", k, show(k, fb[k]), show(k, fa[k])))
		}
	}
	return strings.Join(parts, ", ")
}

// w24dChanged: the records that differ between two snapshots and whose owner's registered key did NOT sign the message.
func w24dChanged(before, after map[string]w24dRecord, keysBefore, keysAfter map[string][]byte, m storage.Message) []string {
	var slots []string
	seen := map[string]bool{}
	for s := range before {
		seen[s] = true
	}
	for s := range after {
		seen[s] = true
	}
	for s := range seen {
		slots = append(slots, s)
	}
	sort.Strings(slots)
	signedBy := func(owner string) bool {
		for _, ks := range []map[string][]byte{keysBefore, keysAfter} {
			if k := ks[owner]; len(k) == ed25519.PublicKeySize && len(m.Signature) > 0 && ed25519.Verify(k, m.Bytes(), m.Signature) {
				return true
			}
		}
		return false
	}
	var out []string
	for _, s := range slots {
		b, a := before[s], after[s]
		if b.raw == a.raw {
			continue
		}
		// the record belongs to whoever it names (before and after): each of them must have signed
		owners := []string{}
		if b.raw != "" {
			owners = append(owners, b.owner)
		}
		if a.raw != "" && (b.raw == "" || a.owner != b.owner) {
			owners = append(owners, a.owner)
		}
		for _, o := range owners {
			if !signedBy(o) {
				out = append(out, fmt.Sprintf("%s of %s: %s (message not signed with the key registered for %q)", s, o, w24dDiff(s, b, a), o))
				break
			}
		}
	}
	return out
}

func (r *nodeRun) w24dDroppedParticipant(outDir string) {
	dir, _ := os.MkdirTemp(outDir, "w24d")
	defer os.RemoveAll(dir)
	c, err := newCluster(dir, 4, "pw")
	if err != nil {
		r.mon("harness: " + err.Error())
		return
	}
	defer c.close()
	fresh := c.nodes[3] // the user that takes a position in the second roster
	entry := func(n *vnode) *requests.SignatureProposalParticipantsEntry {
		pk, _ := n.air.GetPubKey().MarshalBinary()
		return &requests.SignatureProposalParticipantsEntry{Username: n.name, PubKey: n.kp.Pub, DkgPubKey: pk}
	}
	signed := func(id, round, event string, sender *vnode, payload interface{}) storage.Message {
		bz, _ := json.Marshal(payload)
		m := storage.Message{ID: id, DkgRoundID: round, Event: event, Data: bz, SenderAddr: sender.name}
		m.Signature = ed25519.Sign(sender.kp.Priv, m.Bytes())
		return m
	}
	var late []string // reports about the second proposal itself, kept behind those about the dropped user's messages
	now := time.Now()
	for k := 0; k < 3; k++ { // the position that changes hands
		for dcl := 0; dcl < 3; dcl++ { // who declines the first proposal
			dropped := c.nodes[k]
			decliner := c.nodes[dcl]
			first := requests.SignatureProposalParticipantsListRequest{SigningThreshold: 2, CreatedAt: now.Add(time.Duration(3*k+dcl) * time.Second)}
			second := requests.SignatureProposalParticipantsListRequest{SigningThreshold: 2, CreatedAt: first.CreatedAt.Add(time.Minute)}
			for i := 0; i < 3; i++ {
				first.Participants = append(first.Participants, entry(c.nodes[i]))
				if i == k {
					second.Participants = append(second.Participants, entry(fresh))
				} else {
					second.Participants = append(second.Participants, entry(c.nodes[i]))
				}
			}
			fbz, _ := json.Marshal(first)
			sbz, _ := json.Marshal(second)
			h := sha256.Sum256(fbz)
			round := hex.EncodeToString(h[:])
			tag := fmt.Sprintf("w24d-%d-%d", k, dcl)
			msgs := []struct {
				what string
				m    storage.Message
			}{
				{"the opening proposal", storage.Message{ID: tag + "-open", DkgRoundID: round, Event: "event_sig_proposal_init", Data: fbz, SenderAddr: c.nodes[0].name}},
				{"the genuine decline", signed(tag+"-decline", round, "event_sig_proposal_decline_by_participant", decliner,
					requests.SignatureProposalParticipantRequest{ParticipantId: dcl, CreatedAt: first.CreatedAt.Add(time.Second)})},
				{fmt.Sprintf("a second opening proposal under the same round id (unsigned, from a stranger; roster: %s with its own key in position %d instead of %s)", fresh.name, k, dropped.name),
					storage.Message{ID: tag + "-reopen", DkgRoundID: round, Event: "event_sig_proposal_init", Data: sbz, SenderAddr: "stranger"}},
				{fmt.Sprintf("event_sig_proposal_confirm_by_participant sent by %s, signed with the key of %s, ParticipantId=%d (its id in the first roster)", dropped.name, dropped.name, k),
					signed(tag+"-late-confirm", round, "event_sig_proposal_confirm_by_participant", dropped,
						requests.SignatureProposalParticipantRequest{ParticipantId: k, CreatedAt: second.CreatedAt.Add(time.Second)})},
				{fmt.Sprintf("event_sig_proposal_decline_by_participant sent by %s, signed with the key of %s, ParticipantId=%d (its id in the first roster)", dropped.name, dropped.name, k),
					signed(tag+"-late-decline", round, "event_sig_proposal_decline_by_participant", dropped,
						requests.SignatureProposalParticipantRequest{ParticipantId: k, CreatedAt: second.CreatedAt.Add(2 * time.Second)})},
			}
			history := fmt.Sprintf("one round id %.8s…, users %s,%s,%s,%s: opening proposal for [%s %s %s] (t=2); genuine decline of %s (participant %d)",
				round, c.nodes[0].name, c.nodes[1].name, c.nodes[2].name, fresh.name, c.nodes[0].name, c.nodes[1].name, c.nodes[2].name, decliner.name, dcl)
			for _, nd := range c.nodes {
				ok := true
				answers := ""
				for i, sm := range msgs {
					before, keysBefore := w24dRecords(nd, round)
					perr := w24Process(r, nd, sm.m, sm.what)
					after, keysAfter := w24dRecords(nd, round)
					answer := "accepted"
					if perr != nil {
						answer = "refused: " + truncate(perr.Error(), 70)
					}
					switch i {
					case 0:
						if perr != nil || len(after) != 3 {
							ok = false
						}
					case 1:
						st := c.roundState(nd, round)
						if perr != nil || !strings.Contains(st, "canceled") {
							ok = false
							if len(r.st.Notes) < 30 {
								r.st.Notes = append(r.st.Notes, truncate(fmt.Sprintf("w24d: %s on %s: the decline left the round in %s (%v)", tag, nd.name, st, perr), 200))
							}
						}
					default:
						r.st.W24DroppedUserMsgs++
						bad := w24dChanged(before, after, keysBefore, keysAfter, sm.m)
						if len(bad) > 0 {
							line := fmt.Sprintf("C10 only_own_key: a participant record changed on a message that its owner's registered key did not sign: %s%s; then %s (%s) changed participant records of the round on node %s: %s - the status and data recorded for a participant changed without a message signed with that participant's own registered key",
								history, answers, sm.what, answer, nd.name, truncate(strings.Join(bad, "; "), 600))
							if i == 2 {
								late = append(late, "C10 only_own_key: a second opening proposal replaced participant records of a cancelled round: "+strings.TrimPrefix(line, "C10 only_own_key: "))
							} else {
								r.mon(line)
							}
						}
						answers += fmt.Sprintf("; %s (%s)", sm.what, answer)
					}
					if !ok {
						break
					}
				}
			}
			r.st.W24DroppedRounds++
		}
	}
	for _, l := range late {
		r.mon(l)
	}
}
