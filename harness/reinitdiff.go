package main

// reinitdiff (C20): a completed ceremony is re-initialised from a dump of its board on a fresh set of hot
// nodes (new communication keys) and fresh airgapped databases (same mnemonics), by the real procedure:
// GenerateReDKGMessage (+ GetAdaptedReDKG), ReInitDKG, reinit_dkg operations, airgapped replay.

import (
	"bufio"
	"bytes"
	"crypto/ed25519"
	"crypto/sha1"
	"encoding/json"
	"fmt"
	"math/rand"
	"os"
	"path/filepath"
	"sort"
	"strings"
	"time"

	prysmBLS "github.com/prysmaticlabs/prysm/v3/crypto/bls"

	"github.com/lidofinance/dc4bc/airgapped"
	"github.com/lidofinance/dc4bc/client/api/dto"
	"github.com/lidofinance/dc4bc/client/modules/keystore"
	"github.com/lidofinance/dc4bc/client/services/node"
	"github.com/lidofinance/dc4bc/client/types"
	"github.com/lidofinance/dc4bc/fsm/types/requests"
	"github.com/lidofinance/dc4bc/storage"
)

type reinitStats struct {
	Ops, Scenarios, Reinits, HashEdits, HashEditKinds               int
	ReinitCrashEffects, ReinitCrashRuns, LateForged, RogueProposals, EarlyProposals int
	OutcomeHist                                                     map[string]int
	Monitors, Notes, Samples                                        []string
	// machines restarted after the re-initialisation, batches signed by restarted machines (reinitrestart.go)
	ReinitRestarts, SignedAfterRestart int
	AirDkg                             airTraceStats
	OldDumps                           int
}

type reinitRun struct {
	st   *reinitStats
	ops  *bufio.Writer
	obs  *bufio.Writer
	rng  *rand.Rand
	tier string
	// the key-generation operations of the original ceremonies and the reinit_dkg operations of the new installations, as
	// lines for the Lean model of the handlers (airdkg.go)
	air *airTrace
	// the next scenario re-initialises from a dump whose stamps lie 30 days before the nodes' clock
	oldDump bool
}

func (r *reinitRun) mon(s string) {
	addMonitor(&r.st.Monitors, s)
}

func (r *reinitRun) note(s string) {
	if len(r.st.Notes) < 40 {
		r.st.Notes = append(r.st.Notes, truncate(s, 260))
	}
}

func (r *reinitRun) emit(op, ob string) {
	fmt.Fprintln(r.ops, op)
	fmt.Fprintln(r.obs, ob)
	r.st.Ops++
}

// roundPublic: what must be reproduced: participants (names, DKG keys), threshold, public polynomial, state
func roundPublic(n *vnode, round string) string {
	d, err := n.fsmSvc.GetFSMDump(&dto.DkgIdDTO{DkgID: round})
	if err != nil || d.Payload == nil || d.Payload.DKGProposalPayload == nil {
		return "none"
	}
	var parts []string
	ids := make([]int, 0)
	for id := range d.Payload.DKGProposalPayload.Quorum {
		ids = append(ids, id)
	}
	sort.Ints(ids)
	for _, id := range ids {
		q := d.Payload.DKGProposalPayload.Quorum[id]
		parts = append(parts, fmt.Sprintf("%d:%s:%x", id, q.Username, q.DkgPubKey))
	}
	thr := 0
	if d.Payload.SignatureProposalPayload != nil {
		for _, q := range d.Payload.SignatureProposalPayload.Quorum {
			thr = q.Threshold
		}
	}
	return fmt.Sprintf("state=%s thr=%d/%d poly=%x parts=[%s]", d.State, d.Payload.Threshold, thr, d.Payload.DKGProposalPayload.PubPolyBz, strings.Join(parts, ","))
}

// genuinelySigned: the message carries a signature of its sender's key
func genuinelySigned(c *cluster, m storage.Message) bool {
	for _, nd := range c.nodes {
		if nd.name == m.SenderAddr {
			return ed25519.Verify(nd.kp.Pub, m.Data, m.Signature)
		}
	}
	return false
}

func (r *reinitRun) scenario(outDir string, n, t int, interleave, junk, adapt, blankIDs bool) {
	r.scenarioE(outDir, n, t, interleave, junk, adapt, blankIDs, false)
}

// scenarioE: early = the junk also holds a signing proposal posted while the key generation has hardly begun
func (r *reinitRun) scenarioE(outDir string, n, t int, interleave, junk, adapt, blankIDs, early bool) {
	tag := fmt.Sprintf("(n=%d,t=%d interleaved=%v junk=%v adapt=%v blank-ids=%v)", n, t, interleave, junk, adapt, blankIDs)
	if early {
		tag = fmt.Sprintf("(n=%d,t=%d interleaved=%v junk=%v adapt=%v blank-ids=%v early-signing-proposal=true)", n, t, interleave, junk, adapt, blankIDs)
	}
	dir, _ := os.MkdirTemp(outDir, "reinit")
	defer os.RemoveAll(dir)
	// the original ceremony
	a, err := newCluster(filepath.Join(dir, "A"), n, "pw")
	if err != nil {
		r.mon("harness: " + err.Error())
		return
	}
	a.airTrace = r.air
	round, err := a.startDKG(t)
	if err != nil {
		r.mon("harness: " + err.Error())
		a.close()
		return
	}
	// `interleave`: signing batches before and between the junk (the dump is cut at the first signing proposal). Two KEY
	// GENERATION rounds interleaved in one dump are outside C20's quantifier (GenerateReDKGMessage would take the id of
	// the last opening proposal and the participants of both; noted in DESIGN.md) and are not generated here.
	other := ""
	if junk {
		// a forged message early in the log: a "decline" in the name of participant 1 with a signature that does not
		// verify; every node of the original ceremony rejects it
		forged, _ := json.Marshal(map[string]interface{}{"ParticipantId": 1 % n, "CreatedAt": "2023-01-01T00:00:00Z"})
		a.nodes[0].stg.Send(storage.Message{ID: "forged-1", DkgRoundID: round, Event: "event_sig_proposal_decline_by_participant", Data: forged,
			Signature: bytes.Repeat([]byte{7}, 64), SenderAddr: a.nodes[1%n].name})
		// … and a second opening proposal under the SAME round id, from an outsider, naming only the first participant and
		// a stranger (opening proposals are not signed; every node refuses it: the round is open already). The participants
		// of the re-initialised round are those of the proposal that opened it
		// (not in every junk log: the file made from a dump lists the participants of every opening proposal it holds, and
		// what depends on their number must also be seen with the true number)
		if pk0, err := a.nodes[0].air.GetPubKey().MarshalBinary(); err == nil && !interleave {
			stranger := keystore.NewKeyPair()
			rogue := requests.SignatureProposalParticipantsListRequest{SigningThreshold: 2, CreatedAt: time.Now(), Participants: []*requests.SignatureProposalParticipantsEntry{
				{Username: a.nodes[0].name, PubKey: a.nodes[0].kp.Pub, DkgPubKey: pk0},
				{Username: "somebody_else", PubKey: stranger.Pub, DkgPubKey: pk0}}}
			if bz, err := json.Marshal(rogue); err == nil {
				a.nodes[0].stg.Send(storage.Message{ID: "rogue-proposal", DkgRoundID: round, Event: "event_sig_proposal_init", Data: bz, SenderAddr: "somebody_else"})
				r.st.RogueProposals++
			}
		}
	}
	if early {
		// … and a signing proposal for this round posted while its key generation has hardly begun (by a participant, with a
		// signature that does not verify): every node of the original ceremony refuses it - the round is nowhere near idle
		early, _ := json.Marshal(map[string]interface{}{"BatchID": "too-early", "ParticipantId": 0, "SrcPayload": []byte("[]"), "CreatedAt": "2023-01-01T00:00:00Z"})
		a.nodes[0].stg.Send(storage.Message{ID: "early-signing-start", DkgRoundID: round, Event: "event_signing_start", Data: early,
			Signature: bytes.Repeat([]byte{9}, 64), SenderAddr: a.nodes[0].name})
		r.st.EarlyProposals++
	}
	rngPump := rand.New(rand.NewSource(r.rng.Int63()))
	if !junk {
		a.pumpShuffled(rngPump, 80)
	} else {
		// with junk: a second forged message LATE in the key generation - when every node waits for the master-key
		// announcements (after the point where a 0.1.4 adaptation puts its unsigned self-confirmations): an announcement of a
		// made-up key in the name of participant 1 with a signature that does not verify. The original nodes reject it; a
		// re-initialisation must reject it too, whatever was replayed before it
		lateForged, dealForged := false, false
		for rd := 0; rd < 80; rd++ {
			moved := 0
			for _, i := range rngPump.Perm(n) {
				evs, _ := a.pollOnce(a.nodes[i], 0)
				moved += len(evs)
			}
			if !dealForged {
				// … and one in the deals phase: a deal confirmation a participant "sends to itself" (what the 0.1.4 adaptation
				// synthesises for logs that lack them) with a signature that does not verify. Rejected by everybody then, it must
				// not count as that participant's self-confirmation now
				all := true
				for _, nd := range a.nodes {
					if a.roundState(nd, round) != "state_dkg_deals_await_confirmations" {
						all = false
					}
				}
				if all {
					dealForged = true
					r.st.LateForged++
					who := a.nodes[1%n]
					forged, _ := json.Marshal(map[string]interface{}{"ParticipantId": 1 % n, "Deal": []byte("self-confirm"), "CreatedAt": time.Now().UTC().Format(time.RFC3339Nano)})
					a.nodes[0].stg.Send(storage.Message{ID: "forged-3", DkgRoundID: round, Event: "event_dkg_deal_confirm_received", Data: forged,
						Signature: bytes.Repeat([]byte{5}, 64), SenderAddr: who.name, RecipientAddr: who.name})
				}
			}
			if !lateForged {
				all := true
				for _, nd := range a.nodes {
					if a.roundState(nd, round) != "state_dkg_master_key_await_confirmations" {
						all = false
					}
				}
				if all {
					lateForged = true
					r.st.LateForged++
					forged, _ := json.Marshal(map[string]interface{}{"ParticipantId": 1 % n, "MasterKey": []byte("a made-up group key, 48 bytes long, never derived"), "CreatedAt": time.Now().UTC().Format(time.RFC3339Nano)})
					a.nodes[0].stg.Send(storage.Message{ID: "forged-2", DkgRoundID: round, Event: "event_dkg_master_key_confirm_received", Data: forged,
						Signature: bytes.Repeat([]byte{9}, 64), SenderAddr: a.nodes[1%n].name})
				}
			}
			for _, i := range rngPump.Perm(n) {
				k, _ := a.answerAll(a.nodes[i])
				moved += k
			}
			if moved == 0 {
				break
			}
		}
	}
	if junk {
		// junk on the board: unsigned, unknown events, another round id
		a.nodes[0].stg.Send(storage.Message{ID: "junk-1", DkgRoundID: round, Event: "event_bogus", Data: []byte("{}"), SenderAddr: "nobody"})
		a.nodes[0].stg.Send(storage.Message{ID: "junk-2", DkgRoundID: "no-such-round", Event: "event_dkg_commit_confirm_received", Data: []byte("garbage"), SenderAddr: a.nodes[0].name})
		a.pump(5)
	}
	for i, nd := range a.nodes {
		if st := a.roundState(nd, round); st != "stage_signing_idle" {
			r.mon(fmt.Sprintf("harness: original ceremony %s: node %d ended in %s", tag, i, st))
			a.close()
			return
		}
	}
	// a signing batch in the original (the dump is cut at the first signing proposal)
	a.proposeData(a.nodes[0], round, map[string][]byte{"orig": []byte("signed before the reinitialisation")})
	a.pump(20)
	if interleave {
		a.proposeRange(a.nodes[n-1], round, 10, 12)
		a.pump(20)
		a.nodes[0].stg.Send(storage.Message{ID: "junk-3", DkgRoundID: round, Event: "event_signing_partial_sign_received", Data: []byte("{}"), SenderAddr: a.nodes[0].name})
		a.pump(3)
	}
	origPublic := roundPublic(a.nodes[0], round)
	origKeys := make([]string, n)
	for i, nd := range a.nodes {
		origKeys[i], _ = keyringOf(nd.air, round)
	}
	var groupKey []byte
	if ks, err := a.nodes[0].air.GetBLSKeyrings(); err == nil && ks[round] != nil {
		groupKey, _ = ks[round].PubPoly.Commit().MarshalBinary()
	}
	dump := a.boardMessages()
	if r.oldDump {
		// the dump of a ceremony held 30 days ago (dumps are re-initialised months after the ceremony, never within the
		// confirmation deadlines): every stamp in every message moved back by 30 days, each message its sender really signed
		// signed again in that form by the sender's key (a forged one stays forged). Every distance inside the log is
		// unchanged; only the replaying node's clock is a month ahead of it
		keys := map[string]ed25519.PrivateKey{}
		for _, nd := range a.nodes {
			keys[nd.name] = nd.kp.Priv
		}
		for i, m := range dump {
			moved := stampRe.ReplaceAllFunc(m.Data, func(b []byte) []byte {
				t, err := time.Parse(time.RFC3339Nano, string(b[1:len(b)-1]))
				if err != nil || t.Year() < 2000 {
					return b
				}
				return []byte(`"` + t.Add(-30*24*time.Hour).Format(time.RFC3339Nano) + `"`)
			})
			if bytes.Equal(moved, m.Data) {
				continue
			}
			if len(m.Signature) == 0 {
				dump[i].Data = moved // the opening proposal: nobody signs it
			} else if priv, ok := keys[m.SenderAddr]; ok && ed25519.Verify(priv.Public().(ed25519.PublicKey), m.Data, m.Signature) {
				dump[i].Data = moved
				dump[i].Signature = ed25519.Sign(priv, moved)
			}
		}
		r.st.OldDumps++
	}
	a.close()
	if !adapt {
		// nothing: the log has self-confirmations
	} else {
		// a 0.1.4 log: no self-confirmation deals; the adaptation has to put them back
		var stripped []storage.Message
		for _, m := range dump {
			if m.Event == "event_dkg_deal_confirm_received" && m.RecipientAddr == m.SenderAddr && genuinelySigned(a, m) {
				continue // (the forged one stays: it sat on the board of the 0.1.4 ceremony like any other junk)
			}
			stripped = append(stripped, m)
		}
		// … and its master-key announcements carried no public polynomial: the re-initialised round gets it from the
		// machine's answer to the reinit operation only
		dump = stripPubPoly(a, stripped)
	}
	if blankIDs {
		// a dump exported from a Kafka board: messages posted from airgapped results carry no id there
		for i := range dump {
			dump[i].ID = ""
		}
	}
	// the new installation
	b, err := newCluster(filepath.Join(dir, "B"), n, "pw")
	if err != nil {
		r.mon("harness: " + err.Error())
		return
	}
	b.airTrace = r.air
	defer b.close()
	newKeys := map[string][]byte{}
	for _, nd := range b.nodes {
		newKeys[nd.name] = nd.kp.Pub
	}
	re, err := types.GenerateReDKGMessage(dump, newKeys)
	if err != nil {
		r.mon(fmt.Sprintf("C20 reinit_message %s: GenerateReDKGMessage failed: %v", tag, err))
		return
	}
	if adapt {
		re, err = node.GetAdaptedReDKG(re)
		if err != nil {
			r.mon(fmt.Sprintf("C20 reinit_message %s: GetAdaptedReDKG failed: %v", tag, err))
			return
		}
	}
	payload, _ := json.Marshal(re)
	r.st.Scenarios++
	if err := b.nodes[0].svc.ReInitDKG(&dto.ReInitDKGDTO{ID: re.DKGID, Payload: payload}); err != nil {
		r.mon(fmt.Sprintf("C20 reinit_message %s: ReInitDKG failed: %v", tag, err))
		return
	}
	for _, nd := range b.nodes {
		b.pollOnce(nd, 0)
	}
	// the confirmation hash shown to the operators
	var hashes []string
	for i, nd := range b.nodes {
		ops := nd.pendingOps()
		found := false
		for _, op := range ops {
			if string(op.Type) == "reinit_dkg" {
				hashes = append(hashes, fmt.Sprintf("%x", op.ExtraData))
				found = true
			}
		}
		if !found {
			r.mon(fmt.Sprintf("C20 reinit_operation %s: node %d offers no reinit operation after the reinit message", tag, i))
		}
	}
	for _, h := range hashes {
		if h != hashes[0] {
			r.mon(fmt.Sprintf("C20 hash_same_everywhere %s: confirmation hashes differ between nodes: %v", tag, hashes))
			break
		}
	}
	if want, _ := types.CalcStartReInitDKGMessageHash(payload); len(hashes) > 0 && fmt.Sprintf("%x", want) != hashes[0] {
		r.mon(fmt.Sprintf("C20 hash_same_everywhere %s: node shows %s, the file hashes to %x", tag, hashes[0], want))
	}
	errs := b.pump(20)
	for _, e := range errs {
		r.note(tag + ": " + e)
	}
	r.st.Reinits++
	// hand-made variants of the first participant's reinit operation, for the Lean model of handleReinitDKG (airdkg stream)
	if r.air != nil {
		for k := range b.nodes[0].coldLog {
			if string(b.nodes[0].coldLog[k].Type) == "reinit_dkg" && b.nodes[0].coldLog[k].DKGIdentifier == round {
				r.air.craftedReinits(b, b.nodes[0], b.nodes[0].coldLog[k])
				break
			}
		}
	}
	// every node signing-ready with the same public data as the original
	for i, nd := range b.nodes {
		got := roundPublic(nd, round)
		if got != origPublic {
			r.mon(fmt.Sprintf("C20 state_reproduced %s: node %d after the reinitialisation: %s; original: %s", tag, i, truncate(got, 300), truncate(origPublic, 300)))
			if os.Getenv("VERIF_DEBUG") != "" {
				for _, l := range tailStr(nd.lg.lines, 40) {
					fmt.Fprintf(os.Stderr, "   %s\n", truncate(l, 400))
				}
			}
			break
		}
	}
	for i, nd := range b.nodes {
		got, _ := keyringOf(nd.air, round)
		if got != origKeys[i] {
			r.mon(fmt.Sprintf("C20 shares_reproduced %s: machine %d holds %s after the reinitialisation, originally %s", tag, i, truncate(got, 80), truncate(origKeys[i], 80)))
			break
		}
	}
	if early {
		// (what follows - forged messages after the re-initialisation, signing, restarts, hash edits - is the business of the
		// other scenarios; here only: is the round there again)
		return
	}
	if other != "" {
		for i, nd := range b.nodes {
			if st := b.roundState(nd, other); !strings.HasPrefix(st, "?") {
				r.note(fmt.Sprintf("%s: the interleaved round exists on node %d after the reinitialisation of the first one (state %s)", tag, i, st))
				break
			}
		}
	}
	// verification is on again after the re-initialisation (the replay switches it off for the unsigned 0.1.4 patches only)
	for i, nd := range b.nodes {
		if g, ok := nd.svc.(interface{ GetSkipCommKeysVerification() bool }); ok && g.GetSkipCommKeysVerification() {
			r.mon(fmt.Sprintf("C09 verification_on: %s node %d: signature verification is still switched off after the re-initialisation", tag, i))
		}
		before := nodeRender(nd)
		forged, _ := json.Marshal(map[string]interface{}{"ParticipantId": (i + 1) % n, "Error": map[string]string{"ErrorMsg": "forged"}, "CreatedAt": "2023-01-01T00:00:00Z"})
		oldKeyProposal := []byte(fmt.Sprintf(`{"BatchID":"signed-with-the-replaced-key","ParticipantId":%d,"SigningTasks":[{"MessageID":"m","File":"f","Payload":"AA=="}],"CreatedAt":"2023-01-01T00:00:00Z"}`, (i+1)%n))
		for k, fm := range []storage.Message{
			{ID: "f1", DkgRoundID: round, Event: "event_signing_partial_sign_error_received", Data: forged, Signature: bytes.Repeat([]byte{9}, 64), SenderAddr: b.nodes[(i+1)%n].name},
			{ID: "f2", DkgRoundID: round, Event: "event_signing_partial_sign_error_received", Data: forged, SenderAddr: b.nodes[(i+1)%n].name},
			{ID: "f3", DkgRoundID: round, Event: "event_signing_start", Data: []byte(`{"BatchID":"x","ParticipantId":0,"SigningTasks":[{"MessageID":"m","File":"f","Payload":"AA=="}],"CreatedAt":"2023-01-01T00:00:00Z"}`), Signature: bytes.Repeat([]byte{1}, 64), SenderAddr: b.nodes[0].name},
			// signed with the sender's OLD communication key, the one the re-initialisation replaced
			// (a proposal, which the idle round would accept from that participant if the signature counted)
			{ID: "f4", DkgRoundID: round, Event: "event_signing_start", Data: oldKeyProposal, Signature: ed25519.Sign(a.nodes[(i+1)%n].kp.Priv, oldKeyProposal), SenderAddr: b.nodes[(i+1)%n].name},
		} {
			err := nd.svc.ProcessMessage(fm)
			if err == nil || nodeRender(nd) != before {
				r.mon(fmt.Sprintf("C09 unsigned_noop: %s node %d accepts forged message #%d (%s; #1-#3: bad or missing signature, #4: signed with the sender's replaced key) after the re-initialisation", tag, i, k+1, fm.Event))
				break
			}
		}
	}
	// signatures made afterwards verify under the ORIGINAL group key
	msg := []byte("signed after the reinitialisation")
	if err := b.proposeData(b.nodes[n-1], round, map[string][]byte{"after": msg}); err != nil {
		r.mon(fmt.Sprintf("C20 signs_afterwards %s: proposing a batch fails: %v", tag, err))
		return
	}
	for _, nd := range b.nodes {
		evs, _ := b.pollOnce(nd, 0)
		for _, e := range evs {
			if e.Err != "" {
				r.note(fmt.Sprintf("%s: %s rejects %s after the reinitialisation: %s", tag, nd.name, e.Event, e.Err))
			}
		}
	}
	b.pump(20)
	pk, err := prysmBLS.PublicKeyFromBytes(groupKey)
	if err != nil {
		r.mon("harness: group key: " + err.Error())
		return
	}
	for i, nd := range b.nodes {
		stor, _ := nd.sigSvc.GetSignatures(&dto.DkgIdDTO{DkgID: round})
		ok := false
		for _, mm := range stor {
			for _, entries := range mm {
				for _, e := range entries {
					if e.File == "after" && len(e.Signature) > 0 {
						if s, err := prysmBLS.SignatureFromBytes(e.Signature); err == nil && s.Verify(pk, msg) {
							ok = true
						} else {
							r.mon(fmt.Sprintf("C20 signs_afterwards %s: node %d holds a signature that does not verify under the original group key", tag, i))
						}
					}
				}
			}
		}
		if !ok {
			r.mon(fmt.Sprintf("C20 signs_afterwards %s: node %d holds no valid signature for the batch proposed after the reinitialisation", tag, i))
			if os.Getenv("VERIF_DEBUG") != "" {
				bm := b.boardMessages()
				for _, m := range bm {
					fmt.Fprintf(os.Stderr, "BOARD %d %s from=%s to=%s round=%.8s\n", m.Offset, m.Event, m.SenderAddr, m.RecipientAddr, m.DkgRoundID)
				}
				for _, x := range b.nodes {
					off, _ := x.st.LoadOffset()
					fmt.Fprintf(os.Stderr, "DEBUG %s state=%s pending=%d offset=%d\n", x.name, b.roundState(x, round), len(x.pendingOps()), off)
					for _, l := range tailStr(x.lg.lines, 8) {
						fmt.Fprintf(os.Stderr, "    %s\n", truncate(l, 260))
					}
				}
			}
			break
		}
	}
	// … also after the re-initialised machines were stopped and started again (reinitrestart.go)
	r.signsAfterRestart(b, round, groupKey, tag)
	// single-field edits of the reinit file change the hash
	r.hashEdits(re, tag)
}

// hashEdits: every single-field edit of a reinit file (each field of the header, of every participant, of sampled
// messages incl. messages of other rounds and junk) must change the confirmation hash.
func (r *reinitRun) hashEdits(re *types.ReDKG, tag string) {
	base, _ := json.Marshal(re)
	h0, err := types.CalcStartReInitDKGMessageHash(base)
	if err != nil {
		r.mon("C20 hash: " + err.Error())
		return
	}
	kinds := map[string]bool{}
	try := func(kind string, edit func(x *types.ReDKG)) {
		var x types.ReDKG
		json.Unmarshal(base, &x)
		edit(&x)
		bz, _ := json.Marshal(&x)
		if bytes.Equal(bz, base) {
			return
		}
		h, err := types.CalcStartReInitDKGMessageHash(bz)
		r.st.HashEdits++
		kinds[kind] = true
		ob := "differs"
		if err == nil && bytes.Equal(h, h0) {
			ob = "same"
			r.mon(fmt.Sprintf("C20 hash_differs %s: the confirmation hash is unchanged after editing %s", tag, kind))
		}
		// the model's prediction: the hash input of the edited file differs from the original's
		r.emit("hashedit "+reToks(re)+" || "+reToks(&x), ob)
	}
	flip := func(b []byte) []byte {
		c := append([]byte(nil), b...)
		if len(c) == 0 {
			return []byte{1}
		}
		c[r.rng.Intn(len(c))] ^= 1 << uint(r.rng.Intn(8))
		return c
	}
	try("dkg_id", func(x *types.ReDKG) { x.DKGID += "0" })
	try("threshold", func(x *types.ReDKG) { x.Threshold++ })
	for i := range re.Participants {
		i := i
		try("participant.name", func(x *types.ReDKG) { x.Participants[i].Name += "x" })
		try("participant.dkg_pub_key", func(x *types.ReDKG) { x.Participants[i].DKGPubKey = flip(x.Participants[i].DKGPubKey) })
		try("participant.old_comm_pub_key", func(x *types.ReDKG) { x.Participants[i].OldCommPubKey = flip(x.Participants[i].OldCommPubKey) })
		try("participant.new_comm_pub_key", func(x *types.ReDKG) { x.Participants[i].NewCommPubKey = flip(x.Participants[i].NewCommPubKey) })
	}
	idx := r.rng.Perm(len(re.Messages))
	lim := 12
	if r.tier == "thorough" {
		lim = len(idx)
	}
	// messages of other rounds first: they are part of the file the operators confirm
	sort.SliceStable(idx, func(i, j int) bool {
		return re.Messages[idx[i]].DkgRoundID != re.DKGID && re.Messages[idx[j]].DkgRoundID == re.DKGID
	})
	for k, i := range idx {
		if k >= lim {
			break
		}
		i := i
		where := "message"
		if re.Messages[i].DkgRoundID != re.DKGID {
			where = "message of another round"
		}
		try(where+".data", func(x *types.ReDKG) { x.Messages[i].Data = flip(x.Messages[i].Data) })
		try(where+".signature", func(x *types.ReDKG) { x.Messages[i].Signature = flip(x.Messages[i].Signature) })
		try(where+".sender", func(x *types.ReDKG) { x.Messages[i].SenderAddr += "x" })
		try(where+".recipient", func(x *types.ReDKG) { x.Messages[i].RecipientAddr += "x" })
		try(where+".event", func(x *types.ReDKG) { x.Messages[i].Event += "x" })
		try(where+".offset", func(x *types.ReDKG) { x.Messages[i].Offset += 1 })
		try(where+".round", func(x *types.ReDKG) { x.Messages[i].DkgRoundID += "0" })
	}
	r.st.HashEditKinds += len(kinds)
	_ = sha1.Size
}

// reToks: a reinit file for the Lean model (`hashInput`): header, participants, messages
func reToks(re *types.ReDKG) string {
	t := []string{hs(re.DKGID), fmt.Sprint(re.Threshold), fmt.Sprint(len(re.Participants))}
	for _, p := range re.Participants {
		t = append(t, hx(p.NewCommPubKey), hx(p.OldCommPubKey), hx(p.DKGPubKey), hs(p.Name))
	}
	t = append(t, fmt.Sprint(len(re.Messages)))
	for _, m := range re.Messages {
		t = append(t, hx(m.Data), hx(m.Signature), hs(m.RecipientAddr), hs(m.Event), hs(m.SenderAddr), hs(m.DkgRoundID), fmt.Sprint(m.Offset))
	}
	return strings.Join(t, " ")
}

func runReinitDiff(outDir string, seed int64, tier string) {
	os.MkdirAll(outDir, 0o755)
	airgapped.N = 1 << 10
	restore := silenceStdout()
	defer restore()
	fo, _ := os.Create(filepath.Join(outDir, "ops.txt"))
	fb, _ := os.Create(filepath.Join(outDir, "go_obs.txt"))
	r := &reinitRun{st: &reinitStats{OutcomeHist: map[string]int{}}, ops: bufio.NewWriterSize(fo, 1<<20), obs: bufio.NewWriterSize(fb, 1<<20),
		rng: rand.New(rand.NewSource(seed)), tier: tier}
	type cfg struct {
		n, t                              int
		interleave, junk, adapt, blankIDs bool
	}
	fao, _ := os.Create(filepath.Join(outDir, "airdkg_ops.txt"))
	fab, _ := os.Create(filepath.Join(outDir, "airdkg_obs.txt"))
	r.air = newAirTrace(bufio.NewWriter(fao), bufio.NewWriter(fab))
	cfgs := []cfg{{3, 2, false, false, false, true}, {2, 2, true, true, false, false}, {3, 2, false, true, true, false}}
	if tier == "thorough" {
		cfgs = append(cfgs, cfg{4, 3, true, true, false, false}, cfg{3, 3, true, false, true, true}, cfg{5, 2, false, false, false, false}, cfg{4, 2, true, true, true, false}, cfg{3, 2, false, false, false, false})
	}
	for ci, c := range cfgs {
		r.oldDump = ci%2 == 0
		r.scenario(outDir, c.n, c.t, c.interleave, c.junk, c.adapt, c.blankIDs)
	}
	r.oldDump = false
	// a junk log with a signing proposal in the middle of the key generation (known finding C20-early-signing-proposal)
	r.scenarioE(outDir, 2, 2, false, true, false, false, true)
	r.crashInReinit(outDir, 2, 2, tier == "thorough")
	if tier == "thorough" {
		r.crashInReinit(outDir, 3, 2, true)
	}
	r.ops.Flush()
	r.obs.Flush()
	fo.Close()
	fb.Close()
	r.air.flush()
	fao.Close()
	fab.Close()
	r.st.AirDkg = r.air.st
	writeJSON(filepath.Join(outDir, "stats.json"), r.st)
	restore()
	fmt.Printf("reinitdiff: scenarios=%d reinits=%d hash edits=%d monitors=%d notes=%d\n", r.st.Scenarios, r.st.Reinits, r.st.HashEdits, len(r.st.Monitors), len(r.st.Notes))
}
