package main

// Go-side property monitors for the FSM layer: direct executable checks of C05/C06/C02/C19
// clauses on every transition the explorer performs on the REAL code. They are used to find a
// concrete failing input when a proof obligation or the correspondence breaks (DESIGN.md §5);
// they are not the claim.

import (
	"bytes"
	"encoding/json"
	"fmt"
	"sort"
	"strings"
	"time"

	fsmconfig "github.com/lidofinance/dc4bc/fsm/config"
	sm "github.com/lidofinance/dc4bc/fsm/state_machines"
	"github.com/lidofinance/dc4bc/fsm/types/requests"
)

type fsmMonitor struct {
	st   *fsmStats
	seen map[string]bool
}

func (m *fsmMonitor) report(prop, kind, detail string, idx int, ev string, args []string) {
	key := prop + "/" + kind
	if m.st.MonitorChecks == nil {
		m.st.MonitorChecks = map[string]int{}
	}
	m.st.MonitorChecks["viol:"+key]++
	if m.seen[key+detail] || m.st.MonitorChecks["viol:"+key] > 5 {
		return
	}
	m.seen[key+detail] = true
	m.st.Monitors = append(m.st.Monitors, fmt.Sprintf("%s %s: %s [state %d, %s %s]", prop, kind, detail, idx, ev, strings.Join(args, " ")))
}

func (m *fsmMonitor) count(k string) {
	if m.st.MonitorChecks == nil {
		m.st.MonitorChecks = map[string]int{}
	}
	m.st.MonitorChecks[k]++
}

var rankOf = map[string]int{
	"__idle": 0,
	"state_sig_proposal_await_participants_confirmations": 1, "state_sig_proposal_canceled_by_participant": 1, "state_sig_proposal_canceled_by_timeout": 1,
	"state_sig_proposal_collected":          2,
	"state_dkg_commits_await_confirmations": 3, "state_dkg_commits_await_canceled_by_error": 3, "state_dkg_commits_await_canceled_by_timeout": 3,
	"state_dkg_deals_await_confirmations": 4, "state_dkg_deals_await_canceled_by_error": 4, "state_dkg_deals_await_canceled_by_timeout": 4,
	"state_dkg_responses_await_confirmations": 5, "state_dkg_responses_await_canceled_by_error": 5, "state_dkg_responses_sending_canceled_by_timeout": 5,
	"state_dkg_master_key_await_confirmations": 6, "state_dkg_master_key_await_canceled_by_error": 6, "state_dkg_master_key_await_canceled_by_timeout": 6,
	"state_dkg_master_key_collected": 7,
}

func rank(s string) int {
	if r, ok := rankOf[s]; ok {
		return r
	}
	return 8
}

func isCancelledDkg(s string) bool {
	return strings.Contains(s, "canceled") && !strings.HasPrefix(s, "state_signing")
}

func stripState(rendered string) string {
	i := strings.Index(rendered, " id=")
	if i < 0 {
		return rendered
	}
	return rendered[i:]
}

func (m *fsmMonitor) check(preBz []byte, inst *sm.FSMInstance, ev string, args []string, ok, route, panicked bool, idx int) {
	var pre, post mDump
	if err := json.Unmarshal(preBz, &pre); err != nil {
		return
	}
	postBz, err := inst.Dump()
	if err != nil {
		return
	}
	if err := json.Unmarshal(postBz, &post); err != nil {
		return
	}
	if panicked {
		m.report("C18", "panic", "Do panicked", idx, ev, args)
		return
	}
	// C05(4) reject is a no-op
	m.count("C05.reject_noop")
	if !ok {
		if stripState(rDump(&pre)) != stripState(rDump(&post)) {
			m.report("C05", "reject_noop", "rejected event changed the payload", idx, ev, args)
		}
		cur, _ := inst.State()
		if string(cur) != pre.State {
			m.report("C05", "reject_noop", fmt.Sprintf("rejected event moved the machine %s -> %s", pre.State, cur), idx, ev, args)
		}
		// C06 "exactly when t distinct participants have delivered": a well-formed answer to the current batch (its batch id,
		// a stamp, at least one partial signature, each with an identifier and a value) from a participant who is in the quorum
		// and still awaited IS a delivery: it is counted, whoever the participant is
		if sp := pre.Payload.SigningProposalPayload; sp != nil && pre.State == "state_signing_await_partial_signs" &&
			ev == "event_signing_partial_sign_received" && len(args) > 4 && args[0] == "partialSigns" {
			m.count("C06.delivery_refused")
			wellFormed := string(unhexTok(args[1])) == sp.BatchID && sp.BatchID != "" && !parseTimeTok(args[3]).IsZero() && atoi(args[4]) > 0 && len(args) >= 5+2*atoi(args[4])
			for i := 0; wellFormed && i < atoi(args[4]); i++ {
				if len(unhexTok(args[5+2*i])) == 0 || len(unhexTok(args[6+2*i])) == 0 {
					wellFormed = false
				}
			}
			if part, in := sp.Quorum[atoi(args[2])]; wellFormed && in && part.Status == 0 {
				m.report("C06", "delivery_counts", fmt.Sprintf("a well-formed answer to the current batch from participant %s, who is awaited, was refused", args[2]), idx, ev, args)
			}
		}
		return
	}
	// from here: accepted
	// C05 "each of the n invited participants ...; an event that is not acceptable in the current state is rejected without
	// changing anything": an answer, a contribution or an error report naming a participant that was not invited is acceptable
	// in no state - whatever else it carries (stamp, content)
	if pre.Payload != nil && pre.Payload.SignatureProposalPayload != nil && len(args) > 1 {
		switch args[0] {
		case "sigPart", "commit", "deal", "response", "masterKey", "dkgErr":
			m.count("C05.unknown_participant")
			q := pre.Payload.SignatureProposalPayload.Quorum
			if _, in := q[atoi(args[1])]; !in && len(q) > 0 {
				what := "the round stays in " + post.State
				if post.State != pre.State {
					what = "the round went " + pre.State + " -> " + post.State
				}
				m.report("C05", "unknown_participant", fmt.Sprintf("%s naming participant %s, who is not among the invited %s, stamped %s, was accepted: %s (deadline of the invitations %s)",
					ev, args[1], invitedShort(q), stampText(args), what, relT(pre.Payload.SignatureProposalPayload.ExpiresAt)), idx, ev, args)
			}
		}
	}
	// C05 cancel absorbing, phase order
	m.count("C05.phase_order")
	if isCancelledDkg(pre.State) && !isCancelledDkg(post.State) {
		m.report("C05", "cancel_absorbing", pre.State+" -> "+post.State, idx, ev, args)
	}
	if d := rank(post.State) - rank(pre.State); d < 0 || d > 1 {
		m.report("C05", "phase_order", pre.State+" -> "+post.State, idx, ev, args)
	}
	// C05 unanimity: a forward move out of an await phase needs every participant confirmed, the
	// sender being the last one missing
	type phase struct {
		state   string
		evOK    string
		await   uint8
		ok      uint8
		evErr   string
		errSt   uint8
		argKind string
	}
	phases := []phase{
		{"state_dkg_commits_await_confirmations", "event_dkg_commit_confirm_received", 0, 1, "event_dkg_commit_confirm_canceled_by_error", 2, "commit"},
		{"state_dkg_deals_await_confirmations", "event_dkg_deal_confirm_received", 3, 4, "event_dkg_deal_confirm_canceled_by_error", 5, "deal"},
		{"state_dkg_responses_await_confirmations", "event_dkg_response_confirm_received", 6, 7, "event_dkg_response_confirm_canceled_by_error", 8, "response"},
		{"state_dkg_master_key_await_confirmations", "event_dkg_master_key_confirm_received", 9, 10, "event_dkg_master_key_confirm_canceled_by_error", 11, "masterKey"},
	}
	for _, ph := range phases {
		if pre.State != ph.state || pre.Payload.DKGProposalPayload == nil {
			continue
		}
		q := pre.Payload.DKGProposalPayload.Quorum
		m.count("C05.unanimous")
		if rank(post.State) > rank(pre.State) {
			if ev != ph.evOK || args[0] != ph.argKind {
				m.report("C05", "unanimous", "phase advanced by "+ev, idx, ev, args)
			} else {
				pid := atoi(args[1])
				for id, part := range q {
					if id == pid && part.Status != ph.await {
						m.report("C05", "unanimous", "phase advanced by a participant not awaited", idx, ev, args)
					}
					if id != pid && part.Status != ph.ok {
						m.report("C05", "unanimous", fmt.Sprintf("phase advanced while participant %d has status %d", id, part.Status), idx, ev, args)
					}
				}
				if _, in := q[pid]; !in {
					m.report("C05", "unanimous", "phase advanced by an unknown participant", idx, ev, args)
				}
			}
		}
		if ev == ph.evOK && args[0] == ph.argKind {
			pid := atoi(args[1])
			if part, in := q[pid]; !in || part.Status != ph.await {
				m.report("C05", "exactly_once", "contribution accepted from a participant that is not awaited", idx, ev, args)
			}
			// a phase's contribution is its content: an accepted request without any is no delivery
			if len(unhexTok(args[2])) == 0 {
				m.report("C05", "exactly_once", "a "+ph.argKind+" contribution without content was accepted as the participant's delivery", idx, ev, args)
			}
			// late timestamp must cancel
			ts := parseTimeTok(args[3])
			if pre.Payload.DKGProposalPayload.ExpiresAt.Before(ts) && !isCancelledDkg(post.State) {
				m.report("C05", "deadline", "contribution stamped after the deadline did not cancel the round", idx, ev, args)
			}
		}
		if ev == ph.evErr && !isCancelledDkg(post.State) {
			m.report("C05", "error_cancels", "accepted error report did not cancel the round: "+post.State, idx, ev, args)
		}
		if ph.argKind == "masterKey" && ev == ph.evOK && args[0] == "masterKey" {
			pid := atoi(args[1])
			key := unhexTok(args[2])
			poly := unhexTok(args[4])
			for id, part := range q {
				if id != pid && part.Status == ph.ok && !bytes.Equal(part.DkgMasterKey, key) && !isCancelledDkg(post.State) {
					m.report("C05", "key_mismatch_cancels", "differing master keys did not cancel the round", idx, ev, args)
				}
			}
			m.count("C02.retained_poly")
			if old := pre.Payload.DKGProposalPayload.PubPolyBz; len(old) > 0 && !bytes.Equal(old, poly) && !isCancelledDkg(post.State) {
				m.report("C02", "retained_poly", "announcement with a different public polynomial was accepted", idx, ev, args)
			}
			// … and the polynomial of an accepted announcement IS the one the round retains from then on (every announcement is
			// compared with the ones before it only through this field)
			if post.Payload != nil && post.Payload.DKGProposalPayload != nil && !isCancelledDkg(post.State) && !bytes.Equal(post.Payload.DKGProposalPayload.PubPolyBz, poly) {
				m.report("C02", "retained_poly", fmt.Sprintf("the round retains a polynomial of %d bytes after accepting an announcement with one of %d bytes", len(post.Payload.DKGProposalPayload.PubPolyBz), len(poly)), idx, ev, args)
			}
		}
	}
	// invitation phase
	if pre.State == "state_sig_proposal_await_participants_confirmations" && pre.Payload.SignatureProposalPayload != nil {
		q := pre.Payload.SignatureProposalPayload.Quorum
		m.count("C05.unanimous")
		if rank(post.State) > rank(pre.State) {
			if ev != "event_sig_proposal_confirm_by_participant" {
				m.report("C05", "unanimous", "invitation phase advanced by "+ev, idx, ev, args)
			} else {
				pid := atoi(args[1])
				for id, part := range q {
					if (id == pid && part.Status != 0) || (id != pid && part.Status != 1) {
						m.report("C05", "unanimous", "invitation phase advanced without unanimous confirmation", idx, ev, args)
					}
				}
			}
		}
		if ev == "event_sig_proposal_decline_by_participant" && !isCancelledDkg(post.State) {
			m.report("C05", "decline_cancels", "accepted decline did not cancel the round", idx, ev, args)
		}
		// whatever is accepted while the invitations are being answered (an answer, or an opening proposal that reaches a
		// round which is open already): the phase is not begun again. "each of the n invited participants ... exactly once,
		// ... no phase repeated; an expired deadline cancels for good"
		sp := pre.Payload.SignatureProposalPayload
		m.count("C05.invitation_kept")
		var answered []int
		for id, part := range q {
			if part.Status != 0 {
				answered = append(answered, id)
			}
		}
		sort.Ints(answered)
		hist := fmt.Sprintf("a round opened at %s for %s (deadline %s), answered so far by %v, accepted %s stamped %s",
			relT(sp.CreatedAt), invitedShort(q), relT(sp.ExpiresAt), answered, ev, stampText(args))
		var pq map[int]*mSigPart
		if post.Payload != nil && post.Payload.SignatureProposalPayload != nil {
			pq = post.Payload.SignatureProposalPayload.Quorum
		}
		for _, id := range answered {
			if now, in := pq[id]; !in || now.Status != q[id].Status {
				m.report("C05", "exactly_once", hist+": the answer recorded for participant "+fmt.Sprint(id)+" is gone, the invitation phase has begun again and the participant's contribution is taken a second time", idx, ev, args)
				break
			}
		}
		if a, b := invitedNames(q), invitedNames(pq); a != b {
			now := invitedShort(pq)
			if now == invitedShort(q) {
				now += " with other keys"
			}
			m.report("C05", "invited_set", hist+": the invited set is now "+now+", the round no longer waits for exactly the participants it invited", idx, ev, args)
		}
		if ts, has := stampOf(args); has && sp.ExpiresAt.Before(ts) && !isCancelledDkg(post.State) {
			m.report("C05", "deadline", hist+": the invitation deadline had passed and the round is not cancelled but "+post.State, idx, ev, args)
		}
	}
	// C06: signing machine
	if pre.State == "state_signing_await_partial_signs" && pre.Payload.SigningProposalPayload != nil {
		sp := pre.Payload.SigningProposalPayload
		n, t := len(sp.Quorum), pre.Payload.Threshold
		confirmed, failed := 0, 0
		for _, part := range sp.Quorum {
			if part.Status == 1 {
				confirmed++
			}
			if part.Status == 2 {
				failed++
			}
		}
		m.count("C06.await_step")
		if confirmed >= t || failed > n-t {
			m.report("C06", "await_invariant", fmt.Sprintf("await state with confirmed=%d failed=%d n=%d t=%d", confirmed, failed, n, t), idx, ev, args)
		}
		switch ev {
		case "event_signing_partial_sign_received":
			if args[0] == "partialSigns" {
				if string(unhexTok(args[1])) != sp.BatchID {
					m.report("C06", "batch_bound", "contribution for batch "+string(unhexTok(args[1]))+" counted for batch "+sp.BatchID, idx, ev, args)
				}
				pid := atoi(args[2])
				if part, in := sp.Quorum[pid]; !in || part.Status != 0 {
					m.report("C06", "no_double_count", "contribution accepted from a participant that is not awaited", idx, ev, args)
				}
				// a contribution is at least one partial signature: an answer without any is not one
				if len(args) > 4 && args[4] == "0" {
					m.report("C06", "no_double_count", "an answer without a single partial signature was counted as a contribution", idx, ev, args)
				}
				// C07: "however late": a correct answer of an awaited participant is counted whatever its stamp; it never ends the
				// batch by a deadline
				if strings.Contains(post.State, "timeout") {
					m.report("C07", "however_late", "a correct answer to the current batch ended it with "+post.State, idx, ev, args)
				}
				wantCollected := confirmed+1 == t
				isCollected := post.State == "state_signing_partial_signs_collected"
				if wantCollected != isCollected {
					what := "reconstruction started although fewer than t distinct participants have delivered"
					if wantCollected {
						what = "the t-th distinct contribution to the current batch did not start reconstruction"
					}
					m.report("C06", "collected_iff_t", fmt.Sprintf("%s: confirmed=%d t=%d n=%d -> %s (batch proposed at %s, this answer stamped %s, key generation ended at %s)",
						what, confirmed+1, t, n, post.State, relT(sp.CreatedAt), stampText(args), relT(signingInitOf(sp))), idx, ev, args)
				} else if !wantCollected && post.State != pre.State {
					// fewer than t have delivered and no more than n-t have failed: the batch stays open for the others
					m.report("C06", "batch_open", fmt.Sprintf("an accepted answer (the %d. of t=%d, %d failure reports, n=%d) ended the batch with %s: the contributions of the other participants can no longer bring it to t (batch proposed at %s, this answer stamped %s, key generation ended at %s)",
						confirmed+1, t, failed, n, post.State, relT(sp.CreatedAt), stampText(args), relT(signingInitOf(sp))), idx, ev, args)
				}
			}
		case "event_signing_partial_sign_error_received":
			if len(args) > 1 && args[0] == "signErr" {
				if part, in := sp.Quorum[atoi(args[1])]; !in || part.Status != 0 {
					m.report("C06", "no_double_count", "error report accepted from a participant that is not awaited (it has delivered or failed already): a delivered contribution is taken back", idx, ev, args)
				}
			}
			wantCancel := failed+1 > n-t
			isCancel := post.State == "state_signing_partial_signs_await_cancelled_by_error"
			if wantCancel != isCancel {
				m.report("C06", "cancel_iff", fmt.Sprintf("failed=%d n-t=%d -> %s", failed+1, n-t, post.State), idx, ev, args)
			} else if !wantCancel && post.State != pre.State {
				m.report("C06", "batch_open", fmt.Sprintf("an accepted failure report (the %d., n-t=%d, %d of t=%d contributions) ended the batch with %s (this report stamped %s, key generation ended at %s)",
					failed+1, n-t, confirmed, t, post.State, stampText(args), relT(signingInitOf(sp))), idx, ev, args)
			}
		default:
			m.report("C06", "await_alphabet", "unexpected event accepted in await: "+ev, idx, ev, args)
		}
	} else if post.State == "state_signing_partial_signs_collected" || post.State == "state_signing_partial_signs_await_cancelled_by_error" {
		if pre.State != "stage_signing_idle" {
			m.report("C06", "collected_iff_t", "entered "+post.State+" from "+pre.State, idx, ev, args)
		}
	}
	if ev == "event_signing_restart" {
		m.count("C06.restart")
		if post.State != "stage_signing_idle" {
			m.report("C06", "returns_to_idle", "restart led to "+post.State, idx, ev, args)
		}
	}
	if pre.State == "stage_signing_idle" && ev == "event_signing_start" && args[0] == "signStart" {
		// C03: the proposal kept in the round (and handed to signer and reconstruction) is the proposal
		if sp := post.Payload.SigningProposalPayload; sp != nil {
			req := buildReq(args).(requests.SigningBatchProposalStartRequest)
			m.count("C03.srcpayload")
			if want, got := rTasks(req.SigningTasks), rTasksJSON(sp.SrcPayload); want != got {
				m.report("C03", "srcpayload_exact", "proposed tasks "+want+" kept as "+got, idx, ev, args)
			}
			w1, e1 := requests.TasksToMessages(req.SigningTasks)
			var kept []requests.SigningTask
			json.Unmarshal(sp.SrcPayload, &kept)
			w2, e2 := requests.TasksToMessages(kept)
			if (e1 == nil) != (e2 == nil) || fmt.Sprint(w1) != fmt.Sprint(w2) {
				m.report("C03", "same_expansion", "the kept proposal expands differently from the proposal on the board", idx, ev, args)
			}
		}
	}
	if pre.State == "stage_signing_idle" && ev == "event_signing_start" {
		// "the round returns to idle and accepts the next proposal": an accepted proposal opens its batch - nobody has
		// answered or failed yet, so the round is waiting for the partial signatures (t >= 1, n >= t)
		m.count("C06.accepts_next")
		if sp := post.Payload.SigningProposalPayload; sp != nil && pre.Payload.Threshold >= 1 && len(sp.Quorum) >= pre.Payload.Threshold &&
			post.State != "state_signing_await_partial_signs" {
			m.report("C06", "accepts_next", fmt.Sprintf("a proposal (stamped %s) accepted by the idle round left it in %s before anyone has answered or reported a failure: no batch can be collected (key generation ended at %s, latest stamp the signing machine keeps %s)",
				stampText(args), post.State, relT(signingInitOf(sp)), relT(sp.UpdatedAt)), idx, ev, args)
		}
		// the collected response must only carry contributions of the new batch
		if sp := post.Payload.SigningProposalPayload; sp != nil {
			for id, part := range sp.Quorum {
				if len(part.PartialSigns) > 0 {
					m.report("C06", "batch_bound", fmt.Sprintf("new batch starts with stale partial signatures of participant %d", id), idx, ev, args)
				}
			}
		}
	}
}

// stampOf: the CreatedAt a request carries (by argument kind)
func stampOf(args []string) (time.Time, bool) {
	if len(args) == 0 {
		return time.Time{}, false
	}
	i := 3
	switch args[0] {
	case "sigInit", "sigPart":
		i = 2
	case "default":
		i = 1
	case "commit", "deal", "response", "masterKey", "dkgErr", "signErr", "signStart", "partialSigns":
		i = 3
	default:
		return time.Time{}, false
	}
	if len(args) <= i {
		return time.Time{}, false
	}
	return parseTimeTok(args[i]), true
}

func stampText(args []string) string {
	if ts, ok := stampOf(args); ok {
		return relT(ts)
	}
	return "(no stamp)"
}

// relT renders a stamp relative to the time base of the scripts (T0): T0+8d, T0+7ns, T0+8d+1ns
func relT(t time.Time) string {
	if t.IsZero() {
		return "(zero time)"
	}
	d := t.UnixNano() - baseT
	if d == 0 {
		return "T0"
	}
	if d < 0 {
		return fmt.Sprintf("T0%dns", d)
	}
	s := "T0"
	if d/day > 0 {
		s += fmt.Sprintf("+%dd", d/day)
	}
	if d%day > 0 {
		s += fmt.Sprintf("+%dns", d%day)
	}
	return s
}

// signingInitOf: when the key generation of the round ended (the signing machine was initialised): its deadline minus the
// signing deadline of the configuration
func signingInitOf(sp *mSign) time.Time {
	if sp == nil || sp.ExpiresAt.IsZero() {
		return time.Time{}
	}
	return sp.ExpiresAt.Add(-fsmconfig.SigningConfirmationDeadline)
}

func invitedNames(q map[int]*mSigPart) string {
	ids := make([]int, 0, len(q))
	for id := range q {
		ids = append(ids, id)
	}
	sort.Ints(ids)
	var b strings.Builder
	b.WriteString("{")
	for i, id := range ids {
		if i > 0 {
			b.WriteString(" ")
		}
		if q[id] == nil {
			fmt.Fprintf(&b, "%d:nil", id)
			continue
		}
		fmt.Fprintf(&b, "%d:%s/%x/%x", id, q[id].Username, q[id].PubKey, q[id].DkgPubKey)
	}
	b.WriteString("}")
	return b.String()
}

func invitedShort(q map[int]*mSigPart) string {
	ids := make([]int, 0, len(q))
	for id := range q {
		ids = append(ids, id)
	}
	sort.Ints(ids)
	var parts []string
	for _, id := range ids {
		if q[id] == nil {
			parts = append(parts, fmt.Sprintf("%d:nil", id))
		} else {
			parts = append(parts, fmt.Sprintf("%d:%s", id, q[id].Username))
		}
	}
	return "{" + strings.Join(parts, " ") + "}"
}
