package main

// nodediff: one real BaseNodeService ("observer") inside a real ceremony is fed every board
// message addressed to it through ProcessMessage — plus, in between, structure-aware mutations of
// genuine messages (altered payload, broken/empty/foreign signatures, renamed senders, foreign
// participant ids, replays under another event or round, junk; an unsigned payload under the signature
// bytes of an earlier accepted message of the same sender; forged announcements of reconstructed
// signatures for the round and for a round id the node holds no round for) — while the Lean node model is fed
// the same messages together with the oracle answers about their opaque parts (JSON decoding,
// ed25519 verification, threshold reconstruction), computed here with the real functions.
// After every message both sides print outcome + canonical node state.

import (
	"bufio"
	"bytes"
	"crypto/ed25519"
	"encoding/json"
	"fmt"
	"math"
	"math/rand"
	"os"
	"path/filepath"
	"sort"
	"strings"
	"time"

	"github.com/lidofinance/dc4bc/airgapped"
	"github.com/lidofinance/dc4bc/client/api/dto"
	"github.com/lidofinance/dc4bc/client/modules/keystore"
	"github.com/lidofinance/dc4bc/client/services/node"
	ctypes "github.com/lidofinance/dc4bc/client/types"
	fsmtypes "github.com/lidofinance/dc4bc/fsm/types"
	"github.com/lidofinance/dc4bc/fsm/types/requests"
	"github.com/lidofinance/dc4bc/fsm/types/responses"
	"github.com/lidofinance/dc4bc/storage"
)

type nodeStats struct {
	Ops, Genuine, Mutated, Accepted, Rejected, Panics, Execs                                                                                                                            int
	Duplicates, LookAlikeCeremonies                                                                                                                                                     int
	DuplicateHist                                                                                                                                                                       map[string]int
	MutationHist                                                                                                                                                                        map[string]int
	OutcomeHist                                                                                                                                                                         map[string]int
	Monitors                                                                                                                                                                            []string
	Samples                                                                                                                                                                             []string
	Notes                                                                                                                                                                               []string
	Scenarios                                                                                                                                                                           int
	C08Compared, C08Resets, TwoRoundScenarios, C08InDealsWindow, ReinitProbes, Reinits, FarFutureProposals, ProposedAfterFailure                                                                                                  int
	W24ForeignBefore, W24ReinitInnerID, W24LookAlikeIDs, W24HeldBack int // nodew24.go
	W24DroppedRounds, W24DroppedUserMsgs int // nodew24d.go
	CancelledRounds                                                                                                                                                                     int
	C08Late, C08StampsMoved, PrefilledResults, JSONVariants, KeylessReinits, ReinitVariants, ForgedOwnName, CollectedHere, C08RealLoop, ProposalsStored, ReorderedReinits, ErrorResults, ConcurrentDuplicates int
	StaleSignatures, ForgedAnnouncements, ForgedAnnouncementsNoRound, RekeyedRoundBoards, RekeyedRoundCopies                                                                            int
}

func tsTok(t time.Time) string {
	if t.IsZero() {
		return "z"
	}
	return fmt.Sprint(t.UnixNano())
}

func errTok(e *requests.FSMError) string {
	if e == nil {
		return "-"
	}
	return hs(e.ErrorMsg)
}

func tasksToks(ts []requests.SigningTask) []string {
	out := []string{fmt.Sprint(len(ts))}
	for _, t := range ts {
		pl := "-"
		if t.Payload != nil {
			pl = hx(t.Payload)
		}
		out = append(out, hs(t.MessageID), hs(t.File), pl, fmt.Sprint(t.RangeStart), fmt.Sprint(t.RangeEnd))
	}
	return out
}

// reqToTokens is the inverse of buildReq: the decoded request value as arg tokens.
func reqToTokens(v interface{}) []string {
	switch r := v.(type) {
	case requests.SignatureProposalParticipantsListRequest:
		out := []string{"sigInit", fmt.Sprint(r.SigningThreshold), tsTok(r.CreatedAt), fmt.Sprint(len(r.Participants))}
		for _, p := range r.Participants {
			if p == nil {
				// a JSON null: to the model an entry without a name (refused by the same validation)
				out = append(out, "NIL", "x", "x")
				continue
			}
			out = append(out, hs(p.Username), hx(p.PubKey), hx(p.DkgPubKey))
		}
		return out
	case requests.SignatureProposalParticipantRequest:
		return []string{"sigPart", fmt.Sprint(r.ParticipantId), tsTok(r.CreatedAt)}
	case requests.DefaultRequest:
		return []string{"default", tsTok(r.CreatedAt)}
	case requests.DKGProposalCommitConfirmationRequest:
		return []string{"commit", fmt.Sprint(r.ParticipantId), hx(r.Commit), tsTok(r.CreatedAt)}
	case requests.DKGProposalDealConfirmationRequest:
		return []string{"deal", fmt.Sprint(r.ParticipantId), hx(r.Deal), tsTok(r.CreatedAt)}
	case requests.DKGProposalResponseConfirmationRequest:
		return []string{"response", fmt.Sprint(r.ParticipantId), hx(r.Response), tsTok(r.CreatedAt)}
	case requests.DKGProposalMasterKeyConfirmationRequest:
		return []string{"masterKey", fmt.Sprint(r.ParticipantId), hx(r.MasterKey), tsTok(r.CreatedAt), hx(r.PubPolyBz)}
	case requests.DKGProposalConfirmationErrorRequest:
		return []string{"dkgErr", fmt.Sprint(r.ParticipantId), errTok(r.Error), tsTok(r.CreatedAt)}
	case requests.SigningBatchProposalStartRequest:
		return append([]string{"signStart", hs(r.BatchID), fmt.Sprint(r.ParticipantId), tsTok(r.CreatedAt)}, tasksToks(r.SigningTasks)...)
	case requests.SigningProposalBatchPartialSignRequests:
		out := []string{"partialSigns", hs(r.BatchID), fmt.Sprint(r.ParticipantId), tsTok(r.CreatedAt), fmt.Sprint(len(r.PartialSigns))}
		for _, s := range r.PartialSigns {
			out = append(out, hs(s.MessageID), hx(s.Sign))
		}
		return out
	case requests.SignatureProposalConfirmationErrorRequest:
		return []string{"signErr", fmt.Sprint(r.ParticipantId), errTok(r.Error), tsTok(r.CreatedAt)}
	}
	return []string{"other"}
}

func rsigToks(sigs []fsmtypes.ReconstructedSignature) []string {
	out := []string{fmt.Sprint(len(sigs))}
	for _, s := range sigs {
		out = append(out, hs(s.File), hs(s.BatchID), hs(s.MessageID), hx(s.SrcPayload), hx(s.Signature), hs(s.Username), hs(s.DKGRoundID), fmt.Sprint(s.ValIdx))
	}
	return out
}

func rRSigGo(s fsmtypes.ReconstructedSignature) string {
	return strings.Join([]string{hs(s.File), hs(s.BatchID), hs(s.MessageID), hx(s.SrcPayload), hx(s.Signature), hs(s.Username), hs(s.DKGRoundID), fmt.Sprint(s.ValIdx)}, ":")
}

// rDumpNBytes: dump rendering with node-clock fields masked (same as Driver/NodeDriver.lean rDumpN)
func rDumpNBytes(bz []byte) string {
	var d mDump
	if err := json.Unmarshal(bz, &d); err != nil {
		return "D{!bad-json}"
	}
	full := rDump(&d)
	// mask dkg c=/e= and sign c=/e=
	mask := func(s, section string) string {
		i := strings.Index(s, " "+section+"=[")
		if i < 0 {
			return s
		}
		j := i + len(section) + 3
		rest := s[j:]
		// fields are space separated: c=.. u=.. e=.. …
		parts := strings.SplitN(rest, " q=(", 2)
		fields := strings.Split(parts[0], " ")
		var kept []string
		for _, f := range fields {
			if strings.HasPrefix(f, "c=") || strings.HasPrefix(f, "e=") {
				continue
			}
			kept = append(kept, f)
		}
		return s[:j] + strings.Join(kept, " ") + " q=(" + parts[1]
	}
	full = mask(full, "dkg")
	full = mask(full, "sign")
	return full
}

func opPayloadRender(op *ctypes.Operation) string {
	dec := func(v interface{}) bool { return json.Unmarshal(op.Payload, v) == nil }
	switch string(op.Type) {
	case "state_sig_proposal_await_participants_confirmations":
		var v responses.SignatureProposalParticipantInvitationsResponse
		if dec(&v) {
			return rResp(v)
		}
	case "state_dkg_commits_await_confirmations":
		var v responses.DKGProposalPubKeysParticipantResponse
		if dec(&v) {
			return rResp(v)
		}
	case "state_dkg_deals_await_confirmations":
		var v responses.DKGProposalCommitParticipantResponse
		if dec(&v) {
			return rResp(v)
		}
	case "state_dkg_responses_await_confirmations":
		var v responses.DKGProposalDealParticipantResponse
		if dec(&v) {
			return rResp(v)
		}
	case "state_dkg_master_key_await_confirmations":
		var v responses.DKGProposalResponseParticipantResponse
		if dec(&v) {
			return rResp(v)
		}
	case "state_signing_await_partial_signs":
		var v responses.SigningPartialSignsParticipantInvitationsResponse
		if dec(&v) {
			return rResp(v)
		}
	}
	if string(op.Type) == "reinit_dkg" {
		var ops []ctypes.Operation
		if dec(&ops) {
			ts := make([]string, len(ops))
			for i, o := range ops {
				ts[i] = hs(string(o.Type))
			}
			return "reinitOps(" + strings.Join(ts, ";") + ")"
		}
	}
	return "!payload " + hx(op.Payload)
}

func rOpGo(op *ctypes.Operation) string {
	return hs(string(op.Type)) + "/" + hs(op.DKGIdentifier) + "/" + opPayloadRender(op)
}

// nodeRender: canonical node state from the raw state store values.
func nodeRender(n *vnode) string {
	var rounds, ops, del, sigs []string
	var roundIDs []string
	if bz, _ := n.ldb.Get(topic + "_fsm_state"); len(bz) > 0 {
		m := map[string][]byte{}
		json.Unmarshal(bz, &m)
		for r, d := range m {
			rounds = append(rounds, fmt.Sprintf("%x=%s", r, rDumpNBytes(d)))
			roundIDs = append(roundIDs, r)
		}
	}
	deleted := map[string]*ctypes.Operation{}
	if bz, _ := n.ldb.Get(topic + "_deleted_operations"); len(bz) > 0 {
		json.Unmarshal(bz, &deleted)
		for _, o := range deleted {
			del = append(del, rOpGo(o))
		}
	}
	if bz, _ := n.ldb.Get(topic + "_operations"); len(bz) > 0 {
		m := map[string]*ctypes.Operation{}
		json.Unmarshal(bz, &m)
		for id, o := range m {
			if _, gone := deleted[id]; !gone {
				ops = append(ops, rOpGo(o))
			}
		}
	}
	sort.Strings(roundIDs)
	for _, r := range roundIDs {
		st, err := n.sigSvc.GetSignatures(&dto.DkgIdDTO{DkgID: r})
		if err != nil {
			continue
		}
		for batch, mm := range st {
			for mid, entries := range mm {
				parts := make([]string, len(entries))
				for i, e := range entries {
					parts[i] = rRSigGo(e)
				}
				sigs = append(sigs, fmt.Sprintf("%x/%x/%x=[%s]", r, batch, mid, strings.Join(parts, ",")))
			}
		}
	}
	sort.Strings(rounds)
	sort.Strings(ops)
	sort.Strings(del)
	sort.Strings(sigs)
	return "S{rounds=(" + strings.Join(rounds, " ; ") + ") ops=(" + strings.Join(ops, " ; ") + ") deleted=(" + strings.Join(del, " ; ") +
		") sigs=(" + strings.Join(sigs, " ; ") + ")}"
}

// roundViews: what the node holds per round (dump and signature store), for the non-interference monitor
func roundViews(n *vnode) map[string]string {
	out := map[string]string{}
	if bz, _ := n.ldb.Get(topic + "_fsm_state"); len(bz) > 0 {
		m := map[string][]byte{}
		json.Unmarshal(bz, &m)
		for r, d := range m {
			out[r] = rDumpNBytes(d)
		}
	}
	for r := range out {
		st, err := n.sigSvc.GetSignatures(&dto.DkgIdDTO{DkgID: r})
		if err != nil {
			continue
		}
		var sigs []string
		for batch, mm := range st {
			for mid, entries := range mm {
				parts := make([]string, len(entries))
				for i, e := range entries {
					parts[i] = rRSigGo(e)
				}
				sigs = append(sigs, fmt.Sprintf("%x/%x=[%s]", batch, mid, strings.Join(parts, ",")))
			}
		}
		sort.Strings(sigs)
		out[r] += " sigs=(" + strings.Join(sigs, ";") + ")"
	}
	return out
}

type nodeRun struct {
	tried map[string]bool // (event, mutation kind) pairs already applied
	st    *nodeStats
	ops   *bufio.Writer
	obs   *bufio.Writer
	rng   *rand.Rand
	tier  string
	// prefillTurn: every other genuine answer is submitted with sender and signature of its messages filled in by somebody else (C15)
	prefillTurn int
	// forgedTurn: which of the forged announcements of reconstructed signatures come next (C09)
	forgedTurn int
}

func (r *nodeRun) emit(op, ob string) {
	fmt.Fprintln(r.ops, op)
	fmt.Fprintln(r.obs, ob)
	r.st.Ops++
	if len(r.st.Samples) < 8 && r.st.Ops%53 == 5 {
		r.st.Samples = append(r.st.Samples, truncate(op, 260)+" => "+truncate(ob, 120))
	}
}

func (r *nodeRun) mon(s string) {
	addMonitor(&r.st.Monitors, s)
}

// registeredKeys returns the communication keys registered in the observer's dump of the round.
func registeredKeys(n *vnode, round string) map[string][]byte {
	d, err := n.fsmSvc.GetFSMDump(&dto.DkgIdDTO{DkgID: round})
	if err != nil || d.Payload == nil {
		return nil
	}
	out := map[string][]byte{}
	for u, k := range d.Payload.PubKeys {
		out[u] = k
	}
	return out
}

type feedResult struct {
	outcome string
	before  string
	after   string
	// the signature store kept under the round id the message carried, before and after (raw)
	storeBefore, storeAfter []byte
}

// feed hands one message to the observer's ProcessMessage and emits op + observation.
func (r *nodeRun) feed(c *cluster, n *vnode, m storage.Message, kind string) feedResult {
	return r.feedOp(c, n, m, kind, "msg")
}

// rawSnap / rawRestore: the durable node state (the values nodeRender looks at), byte for byte
func rawSnap(n *vnode) map[string][]byte {
	keys := []string{topic + "_fsm_state", topic + "_operations", topic + "_deleted_operations"}
	out := map[string][]byte{}
	for _, k := range keys {
		bz, _ := n.ldb.Get(k)
		out[k] = bz
	}
	m := map[string][]byte{}
	json.Unmarshal(out[topic+"_fsm_state"], &m)
	for r := range m {
		k := "signatures_" + r
		bz, _ := n.ldb.Get(k)
		out[k] = bz
	}
	return out
}

func rawRestore(n *vnode, snap map[string][]byte) {
	// rounds created since the snapshot: their signature stores go too
	m := map[string][]byte{}
	if bz, _ := n.ldb.Get(topic + "_fsm_state"); len(bz) > 0 {
		json.Unmarshal(bz, &m)
	}
	for r := range m {
		if _, ok := snap["signatures_"+r]; !ok {
			n.ldb.Delete("signatures_" + r)
		}
	}
	for k, v := range snap {
		if v == nil {
			n.ldb.Delete(k)
		} else {
			n.ldb.Set(k, v)
		}
	}
}

// feedOp: opName "msg" keeps the effect, "trymsg" rolls the node (and the model) back afterwards
func (r *nodeRun) feedOp(c *cluster, n *vnode, m storage.Message, kind, opName string) feedResult {
	var snap map[string][]byte
	if opName == "trymsg" {
		snap = rawSnap(n)
	}
	before := nodeRender(n)
	viewsBefore := roundViews(n)
	boardBefore := len(c.boardMessages())
	// the signature store kept under the round id the message carries, byte for byte: it exists whether or not the node
	// holds a round of that id (nodeRender lists the stores of the rounds the node holds)
	storeKey := "signatures_" + m.DkgRoundID
	storeBefore, _ := n.ldb.Get(storeKey)
	// oracle: keys registered in this round that verify (Data, Signature)
	var valid []string
	regs := registeredKeys(n, m.DkgRoundID)
	seen := map[string]bool{}
	for _, k := range regs {
		if len(k) == ed25519.PublicKeySize && ed25519.Verify(k, m.Data, m.Signature) && !seen[string(k)] {
			seen[string(k)] = true
			valid = append(valid, hx(k))
		}
	}
	sort.Strings(valid)
	keysTok := "-"
	if len(valid) > 0 {
		keysTok = strings.Join(valid, ",")
	}
	now := time.Now()
	var perr error
	panicked := false
	func() {
		defer func() {
			if rec := recover(); rec != nil {
				panicked = true
			}
		}()
		if bz, err := json.Marshal(m); err == nil {
			probe("node ProcessMessage(" + string(bz) + ")")
		}
		perr = n.svc.ProcessMessage(m)
	}()
	outcome := "ok"
	if panicked {
		outcome = "panic"
		r.st.Panics++
	} else if perr != nil {
		outcome = "reject"
		r.st.Rejected++
	} else {
		r.st.Accepted++
	}
	// what the node appended to the board while handling the message
	var sent []string
	var reconTok []string
	bm := c.boardMessages()
	for _, x := range bm[boardBefore:] {
		var sigs []fsmtypes.ReconstructedSignature
		json.Unmarshal(x.Data, &sigs)
		parts := make([]string, len(sigs))
		for i, s := range sigs {
			parts[i] = rRSigGo(s)
		}
		sent = append(sent, hs(x.Event)+"/"+hs(x.DkgRoundID)+"/["+strings.Join(parts, ",")+"]")
		if x.Event == string(ctypes.SignatureReconstructed) && x.SenderAddr == n.name {
			reconTok = append([]string{"|", "recon"}, rsigToks(sigs)...)
		}
	}
	toks := []string{opName, hs(m.DkgRoundID), hs(m.Event), hs(m.SenderAddr), hs(m.RecipientAddr), fmt.Sprint(now.UnixNano()), keysTok}
	if v, err := ctypes.FSMRequestFromMessage(m); err == nil {
		toks = append(toks, "|", "arg")
		toks = append(toks, reqToTokens(v)...)
	}
	var sigs []fsmtypes.ReconstructedSignature
	if json.Unmarshal(m.Data, &sigs) == nil {
		toks = append(toks, "|", "sigs")
		toks = append(toks, rsigToks(sigs)...)
	}
	var prop requests.SigningBatchProposalStartRequest
	if m.Event == "event_signing_start" && json.Unmarshal(m.Data, &prop) == nil {
		toks = append(toks, "|", "prop", hs(prop.BatchID))
		toks = append(toks, tasksToks(prop.SigningTasks)...)
	}
	toks = append(toks, reconTok...)
	after := nodeRender(n)
	// C03: what the node keeps for an accepted proposal (the placeholders of its signature store, under the proposer's name)
	// is what THAT proposal says: message by message the identifier, file and payload of its expansion
	if m.Event == "event_signing_start" && outcome == "ok" && json.Unmarshal(m.Data, &prop) == nil && prop.BatchID != "" {
		want := map[string]expandedMsg{}
		for _, e := range expandTasks(prop.SigningTasks) {
			want[e.id] = e // a later task with the same identifier replaces an earlier one
		}
		if stor, err := n.sigSvc.GetSignatures(&dto.DkgIdDTO{DkgID: m.DkgRoundID}); err == nil {
			r.st.ProposalsStored++
			seenIDs := map[string]bool{}
			for _, entries := range stor[prop.BatchID] {
				for _, e := range entries {
					if e.Username != m.SenderAddr {
						continue
					}
					seenIDs[e.MessageID] = true
					w, ok := want[e.MessageID]
					if !ok {
						r.mon(fmt.Sprintf("C03 stored_eq_proposed: after the proposal %q from %s the node keeps an entry for identifier %q, which the proposal does not contain", prop.BatchID, m.SenderAddr, e.MessageID))
					} else if !bytes.Equal(w.payload, e.SrcPayload) || w.file != e.File {
						r.mon(fmt.Sprintf("C03 stored_eq_proposed: after the proposal %q from %s the node keeps for identifier %q the file %q with %d bytes %x…, the proposal says %q with %d bytes %x…", prop.BatchID, m.SenderAddr, e.MessageID, e.File, len(e.SrcPayload), firstBytes(e.SrcPayload), w.file, len(w.payload), firstBytes(w.payload)))
					}
				}
			}
			for id := range want {
				if !seenIDs[id] {
					r.mon(fmt.Sprintf("C03 stored_eq_proposed: after the proposal %q from %s the node keeps nothing for its identifier %q", prop.BatchID, m.SenderAddr, id))
				}
			}
		}
	}
	// C06: the batch this message completed was reconstructed and announced by this node: its round is idle again, ready
	// for the next proposal
	if len(reconTok) > 0 && outcome == "ok" {
		r.st.CollectedHere++
		if st := c.roundState(n, m.DkgRoundID); st != "stage_signing_idle" {
			r.mon(fmt.Sprintf("C06 returns_to_idle: after the %s from %s that completed a batch (reconstructed and announced by this node) the stored round is in %s", m.Event, m.SenderAddr, st))
		}
	}
	r.emit(strings.Join(toks, " "), outcome+" sent=("+strings.Join(sent, ";")+") "+after)
	histKind := kind
	if strings.HasPrefix(histKind, "mut:json-") {
		if i := strings.Index(histKind[4:], ":"); i > 0 {
			histKind = histKind[:4+i] // by kind of variant; the field and value are in the operation script
		}
	} else if i := strings.Index(histKind, ">"); i > 0 {
		histKind = histKind[:i]
	}
	r.st.OutcomeHist[histKind+"/"+outcome]++
	if outcome == "panic" {
		r.mon(fmt.Sprintf("C18 never_panics: ProcessMessage panicked on a %s message (%s from %s)", kind, m.Event, m.SenderAddr))
	}
	// C08: a message changes what the node holds for the round it carries, and nothing else
	if m.Event != "reinit_dkg" {
		va := roundViews(n)
		for rr, v := range va {
			if rr != m.DkgRoundID && viewsBefore[rr] != v {
				what := "changed"
				if _, had := viewsBefore[rr]; !had {
					what = "created"
				}
				r.mon(fmt.Sprintf("C08 round_noninterference: a %s message (%s from %s) carrying round id %.8s… %s what the node holds for round %.8s…", kind, m.Event, m.SenderAddr, m.DkgRoundID, what, rr))
			}
		}
	}
	storeAfter, _ := n.ldb.Get(storeKey)
	if outcome == "reject" && (before != after || !bytes.Equal(storeBefore, storeAfter)) {
		r.mon(fmt.Sprintf("C18 reject_is_noop: a rejected %s message (%s from %s) changed durable state", kind, m.Event, m.SenderAddr))
	}
	w22AfterFeed(r, c, n, m, kind, opName, outcome, snap) // nodew22.go (C03)
	if snap != nil {
		rawRestore(n, snap)
		if _, held := snap[storeKey]; !held && !bytes.Equal(storeBefore, storeAfter) {
			// (a store under an id the node holds no round for is not part of the snapshot)
			if storeBefore == nil {
				n.ldb.Delete(storeKey)
			} else {
				n.ldb.Set(storeKey, storeBefore)
			}
		}
		if back := nodeRender(n); back != before {
			r.mon("harness: rollback after a trial message did not restore the node state")
		}
	}
	// (for the callers, which compare before and after: the state of the node includes that store)
	return feedResult{outcome, before + " store=" + hx(storeBefore), after + " store=" + hx(storeAfter), storeBefore, storeAfter}
}

type mutation struct {
	name string
	msg  storage.Message
	// shouldReject: by the statement of C09/C10 this message must be rejected without effect
	shouldReject bool
	prop         string
	// try: applied and rolled back on both sides whatever the outcome (a variant that may be accepted must not derail the ceremony)
	try bool
	// detail: said after the report of an acceptance (what else the reader needs to rebuild the input)
	detail string
}

// mutate produces structure-aware variants of a genuine message.
func (r *nodeRun) mutate(c *cluster, obs *vnode, m storage.Message, otherRound string) []mutation {
	var out []mutation
	add := func(name, prop string, mm storage.Message, must bool) {
		out = append(out, mutation{name: name, msg: mm, shouldReject: must, prop: prop})
	}
	clone := func() storage.Message {
		x := m
		x.Data = append([]byte(nil), m.Data...)
		x.Signature = append([]byte(nil), m.Signature...)
		return x
	}
	exempt := m.Event == "event_sig_proposal_init" || m.Event == "reinit_dkg"
	senderIdx := -1
	for i, n := range c.nodes {
		if n.name == m.SenderAddr {
			senderIdx = i
		}
	}
	if !exempt {
		if len(m.Signature) > 0 {
			x := clone()
			x.Signature[r.rng.Intn(len(x.Signature))] ^= 1 << uint(r.rng.Intn(8))
			add("sig-bitflip", "C09", x, true)
			x = clone()
			x.Signature = x.Signature[:len(x.Signature)/2]
			add("sig-truncated", "C09", x, true)
		}
		x := clone()
		x.Signature = nil
		add("sig-empty", "C09", x, true)
		if len(m.Data) > 0 {
			x = clone()
			i := r.rng.Intn(len(x.Data))
			x.Data[i] ^= 1 << uint(r.rng.Intn(7))
			add("data-byteflip", "C09", x, true)
		}
		x = clone()
		x.SenderAddr = "stranger"
		add("sender-stranger", "C09", x, true)
		x = clone()
		x.SenderAddr = ""
		add("sender-empty", "C09", x, true)
		if senderIdx >= 0 && len(c.nodes) > 1 {
			other := c.nodes[(senderIdx+1+r.rng.Intn(len(c.nodes)-1))%len(c.nodes)]
			x = clone()
			x.SenderAddr = other.name // claims another participant, signature by the original sender
			add("sender-renamed", "C09", x, true)
			// the sender's own name in another spelling (capitals, a blank after it), the genuine signature: nothing is
			// registered under THAT name
			for k, alt := range []string{strings.ToUpper(m.SenderAddr), m.SenderAddr + " ", " " + m.SenderAddr, strings.Title(m.SenderAddr)} {
				if alt != m.SenderAddr {
					x = clone()
					x.SenderAddr = alt
					add([]string{"sender-uppercase", "sender-trailing-blank", "sender-leading-blank", "sender-capitalised"}[k], "C09", x, true)
				}
			}
			x = clone()
			x.Signature = ed25519.Sign(other.kp.Priv, x.Data) // claimed sender unchanged, signed with another participant's key
			add("resigned-other-key", "C09", x, true)
			fresh := keystore.NewKeyPair()
			x = clone()
			x.Signature = ed25519.Sign(fresh.Priv, x.Data)
			add("resigned-fresh-key", "C09", x, true)
			// C10(1): another participant S speaks in P's name: payload (with P's ParticipantId) signed by S, sent as S
			// (only for events whose payload names a participant; a re-signed signature_reconstructed is
			// simply the other node's own announcement)
			if _, named := participantOf(m); named {
				x = clone()
				x.SenderAddr = other.name
				x.Signature = ed25519.Sign(other.kp.Priv, x.Data)
				add("foreign-participant-id", "C10", x, true)
			}
		}
		// C10(2): replay under another event name / another round
		// (every event a participant can post; the name of the variant says which, so that each pair (made for, posted as) is
		// a case of its own)
		for _, ev := range publicEvents {
			if ev != m.Event {
				x = clone()
				x.Event = ev
				add("replay-other-event>"+ev, "C10", x, true)
			}
		}
		if otherRound != "" && otherRound != m.DkgRoundID {
			x = clone()
			x.DkgRoundID = otherRound
			add("replay-other-round", "C10", x, true)
		}
	}
	// C08: a participant announces reconstructed signatures whose entries name ANOTHER round (signed with its own key,
	// so the message itself is genuine for the round it carries): they belong to the round of the message
	if m.Event == string(ctypes.SignatureReconstructed) && senderIdx >= 0 && otherRound != "" && otherRound != m.DkgRoundID {
		var sigs []fsmtypes.ReconstructedSignature
		if json.Unmarshal(m.Data, &sigs) == nil && len(sigs) > 0 {
			for i := range sigs {
				sigs[i].DKGRoundID = otherRound
				sigs[i].BatchID = "named-" + sigs[i].BatchID
			}
			y := clone()
			y.Data, _ = json.Marshal(sigs)
			y.Signature = ed25519.Sign(c.nodes[senderIdx].kp.Priv, y.Data)
			add("recon-names-other-round", "C08", y, false)
		}
	}
	// C18-type inputs: unknown event, junk round, garbage data
	x := clone()
	x.Event = "event_bogus"
	add("unknown-event", "C18", x, false)
	x = clone()
	x.DkgRoundID = fmt.Sprintf("junk-%d", r.rng.Intn(3))
	add("junk-round", "C18", x, false)
	x = clone()
	x.Data = []byte("{not json")
	x.Signature = nil
	add("garbage-data", "C18", x, false)
	// the payload as JSON: nulls, wrong types, missing fields, respelled field names, nulls inside arrays - signed by the sender
	if m.Event != "reinit_dkg" {
		otherPid := -1
		if pid, named := participantOf(m); named && len(c.nodes) > 1 {
			otherPid = (pid + 1) % len(c.nodes)
		}
		var key ed25519.PrivateKey
		if senderIdx >= 0 && len(m.Signature) > 0 {
			key = c.nodes[senderIdx].kp.Priv
		}
		for _, jv := range jsonVariants(m.Data, otherPid) {
			y := signedVariant(m, jv.data, key)
			if jv.namesOther && key != nil {
				out = append(out, mutation{name: jv.name, msg: y, shouldReject: true, prop: "C10"})
			} else {
				out = append(out, mutation{name: jv.name, msg: y, prop: "C18", try: true})
			}
		}
	}
	// an opening proposal (which nobody has to sign) whose participant list holds JSON nulls
	x = clone()
	x.Event = "event_sig_proposal_init"
	x.DkgRoundID = fmt.Sprintf("null-round-%d", r.rng.Intn(2))
	x.Data = []byte(`{"Participants":[null,null],"SigningThreshold":2,"CreatedAt":"2024-01-01T00:00:00Z"}`)
	x.Signature = nil
	add("null-participants", "C18", x, false)
	if senderIdx >= 0 {
		x = clone()
		x.Data = []byte(`{"ParticipantId":-1,"CreatedAt":"2023-01-01T00:00:00Z"}`)
		x.Signature = ed25519.Sign(c.nodes[senderIdx].kp.Priv, x.Data)
		add("negative-id-signed", "C18", x, false)
		// C03: the same proposal id with OTHER tasks, signed by the same participant, shown to the node before the genuine
		// one (and rolled back): what the node expands, checks and stores for the genuine proposal is what THAT proposal says
		if m.Event == "event_signing_start" {
			var req requests.SigningBatchProposalStartRequest
			if json.Unmarshal(m.Data, &req) == nil {
				y := clone()
				q := req
				q.SigningTasks = []requests.SigningTask{{MessageID: "other", File: "other tasks under the same batch id.bin", Payload: []byte("not what the genuine proposal says")}}
				if bz, err := json.Marshal(q); err == nil {
					y.Data = bz
					y.Signature = ed25519.Sign(c.nodes[senderIdx].kp.Priv, y.Data)
					out = append(out, mutation{name: "same-batch-other-tasks", msg: y, prop: "C03", try: true})
				}
			}
		}
		// an answer to the current batch, signed by its (registered) sender, whose list of partial signatures names a message
		// the batch does not hold, or one message twice: shown before EVERY genuine answer - also before the one that completes
		// the threshold, where the node goes on to reconstruct from what it collected
		if m.Event == "event_signing_partial_sign_received" {
			var req requests.SigningProposalBatchPartialSignRequests
			if json.Unmarshal(m.Data, &req) == nil && len(req.PartialSigns) > 0 {
				for _, kind := range []string{"ghost-id", "extra-ghost", "same-id-twice", "no-signatures"} {
					q := req
					q.PartialSigns = append([]requests.PartialSign(nil), req.PartialSigns...)
					switch kind {
					case "ghost-id":
						q.PartialSigns[0].MessageID = "no-such-message"
					case "extra-ghost":
						q.PartialSigns = append(q.PartialSigns, requests.PartialSign{MessageID: "no-such-message", Sign: req.PartialSigns[0].Sign})
					case "same-id-twice":
						q.PartialSigns = append(q.PartialSigns, q.PartialSigns[0])
					case "no-signatures":
						q.PartialSigns = []requests.PartialSign{}
					}
					if bz, err := json.Marshal(q); err == nil {
						y := clone()
						y.Data = bz
						y.Signature = ed25519.Sign(c.nodes[senderIdx].kp.Priv, y.Data)
						out = append(out, mutation{name: "partial-" + kind, msg: y, prop: "C18", try: true})
					}
				}
			}
		}
		// a signing proposal of a registered participant whose tasks name positions of the built-in list
		// nobody would propose: before it, across its end, reversed (the API refuses them; the board does not)
		if m.Event == "event_signing_start" {
			var req requests.SigningBatchProposalStartRequest
			if json.Unmarshal(m.Data, &req) == nil {
				// (… and ending far beyond it: the expansion is refused where it leaves the list, 18632, however far the range claims to go)
				for _, rg := range [][2]int{{-1, 1}, {-3, -1}, {18630, 18635}, {7, 3}, {-2, 0}, {18000, math.MaxInt64}, {18600, 1 << 40}} {
					y := clone()
					q := req
					q.SigningTasks = []requests.SigningTask{{MessageID: "hostile", File: "hostile", RangeStart: rg[0], RangeEnd: rg[1]}}
					if r.rng.Intn(2) == 0 {
						q.SigningTasks = append([]requests.SigningTask{{MessageID: "p", File: "p", Payload: []byte{1, 2}}}, q.SigningTasks...)
					}
					if bz, err := json.Marshal(q); err == nil {
						y.Data = bz
						y.Signature = ed25519.Sign(c.nodes[senderIdx].kp.Priv, y.Data)
						add(fmt.Sprintf("hostile-range-%d-%d", rg[0], rg[1]), "C18", y, false)
					}
				}
			}
		}
	}
	return out
}

// publicEvents: the events of the three round machines that arrive in board messages, and the two signature broadcasts
var publicEvents = []string{"event_sig_proposal_init", "event_sig_proposal_confirm_by_participant", "event_sig_proposal_decline_by_participant",
	"event_dkg_commit_confirm_received", "event_dkg_deal_confirm_received", "event_dkg_response_confirm_received", "event_dkg_master_key_confirm_received",
	"event_dkg_commit_confirm_canceled_by_error", "event_dkg_deal_confirm_canceled_by_error", "event_dkg_response_confirm_canceled_by_error", "event_dkg_master_key_confirm_canceled_by_error",
	"event_signing_start", "event_signing_partial_sign_received", "event_signing_partial_sign_error_received", "signature_reconstructed", "signature_reconstruction_failed"}

func firstBytes(b []byte) []byte {
	if len(b) > 8 {
		return b[:8]
	}
	return b
}

func stripFreshRounds(s string) string {
	// before fix 463256a a rejected message left an empty round behind for an unknown round id and this
	// function removed such rounds before comparing; now the whole state is compared
	return s
}

// scenario: a ceremony with n nodes; the observer's polling is replaced by feed().
func (r *nodeRun) scenario(outDir string, n, t int, twoRounds bool) {
	dir, _ := os.MkdirTemp(outDir, "node")
	defer os.RemoveAll(dir)
	c, err := newCluster(dir, n, "pw")
	if err != nil {
		r.mon("harness: " + err.Error())
		return
	}
	defer c.close()
	r.st.Scenarios++
	obsIdx := r.rng.Intn(n)
	obs := c.nodes[obsIdx]
	r.emit("node "+hs(obs.name)+" "+hx(obs.kp.Pub), "node")
	round, err := c.startDKG(t)
	if err != nil {
		r.mon("harness: " + err.Error())
		return
	}
	rounds := []string{round}
	otherRound := ""
	if twoRounds {
		// a second round of the same participants, interleaved with the first on the same board
		r.st.TwoRoundScenarios++
		otherRound, err = c.startDKG(t)
		if err != nil {
			r.mon("harness: " + err.Error())
			return
		}
		rounds = append(rounds, otherRound)
	}
	perMsg := 3
	if r.tier == "thorough" {
		perMsg = 40
	}
	consumed := uint64(0)
	history := map[string][]storage.Message{}    // round -> the genuine messages the observer has been handed so far
	acceptedOf := map[string][]storage.Message{} // sender -> its genuine signed messages the observer has accepted so far (any round)
	// observerPoll: what Poll does for the observer, through feed(), with mutations in between
	observerPoll := func() int {
		msgs := c.boardMessages()
		k := 0
		for _, m := range msgs {
			if m.Offset < consumed {
				continue
			}
			if m.RecipientAddr == "" || m.RecipientAddr == obs.name {
				all := r.mutate(c, obs, m, otherRound)
				all = w22Filter(all) // nodew22.go
				var muts, jmuts []mutation
				for _, mu := range all {
					if strings.HasPrefix(mu.name, "json-") || strings.HasPrefix(mu.name, "replay-other-event>") {
						jmuts = append(jmuts, mu)
					} else {
						muts = append(muts, mu)
					}
				}
				r.rng.Shuffle(len(jmuts), func(i, j int) { jmuts[i], jmuts[j] = jmuts[j], jmuts[i] })
				sort.SliceStable(jmuts, func(i, j int) bool {
					ti := r.tried[m.Event+"/"+jmuts[i].name+"/b"] || r.tried[m.Event+"/"+jmuts[i].name+"/a"]
					tj := r.tried[m.Event+"/"+jmuts[j].name+"/b"] || r.tried[m.Event+"/"+jmuts[j].name+"/a"]
					return !ti && tj
				})
				jsonPer := 12
				if r.tier == "thorough" {
					jsonPer = 80
				}
				if len(jmuts) > jsonPer {
					jmuts = jmuts[:jsonPer]
				}
				r.rng.Shuffle(len(muts), func(i, j int) { muts[i], muts[j] = muts[j], muts[i] })
				// coverage first: (event, mutation kind, before/after the genuine message) triples not tried yet in this run come
				// before the others - a variant applied AFTER the message it was made from meets another node state (and whatever
				// the node remembers of that message) than the same variant applied before it
				phase := "b"
				sort.SliceStable(muts, func(i, j int) bool {
					return !r.tried[m.Event+"/"+muts[i].name+"/b"] && r.tried[m.Event+"/"+muts[j].name+"/b"]
				})
				// a message a node addresses to itself (the self-confirmation of the deals phase) is rare and special-cased
				// in the code: it gets every mutation
				perMsg := perMsg
				if m.SenderAddr == m.RecipientAddr && m.SenderAddr != "" {
					perMsg = len(muts)
				}
				apply := func(mu mutation) {
					// messages that must be rejected are tried and rolled back on both sides, so that an accepted one
					// (reported below) does not derail the ceremony the later inputs are built from
					opName := "msg"
					if mu.shouldReject || mu.try {
						opName = "trymsg"
					}
					res := r.feedOp(c, obs, mu.msg, "mut:"+mu.name, opName)
					r.tried[m.Event+"/"+mu.name+"/"+phase] = true
					r.st.Mutated++
					histName := mu.name
					if strings.HasPrefix(histName, "json-") {
						r.st.JSONVariants++
						if i := strings.IndexAny(histName, ":"); i > 0 {
							histName = histName[:i] // the histogram by kind; the coverage-first choice is by (event, field, value)
						}
					} else if i := strings.Index(histName, ">"); i > 0 {
						histName = histName[:i]
					}
					r.st.MutationHist[histName+"/"+res.outcome]++
					if mu.shouldReject {
						if res.outcome == "ok" && stripFreshRounds(res.before) != stripFreshRounds(res.after) {
							clause := mutClause(mu.prop)
							if strings.HasPrefix(mu.name, "replay-") {
								clause = "bound_to_round_and_step"
							}
							r.mon(fmt.Sprintf("%s %s: mutated message (%s of a genuine %s from %s) was accepted and changed the node state%s", mu.prop, clause, mu.name, m.Event, m.SenderAddr, mu.detail))
							// C10: the same acceptance, seen from the participant the payload names: its status or data changed
							// without a message signed with its own registered key
							if pid, named := participantOf(mu.msg); named && mu.prop == "C09" {
								r.mon(fmt.Sprintf("C10 applied_implies_own_key: a %s of a genuine %s, naming participant %d and not signed with that participant's registered key, was accepted and changed the node state%s", mu.name, m.Event, pid, mu.detail))
							}
						} else if res.outcome != "ok" && stripFreshRounds(res.before) != stripFreshRounds(res.after) {
							r.mon(fmt.Sprintf("%s reject_noop: rejected message (%s of %s) changed the node state", mu.prop, mu.name, m.Event))
						}
					}
				}
				half := perMsg / 2
				if perMsg == len(muts) {
					half = perMsg // self-addressed: everything is tried on the state the genuine message will meet
				}
				for i, mu := range muts {
					if i < half || mu.name == "same-batch-other-tasks" || strings.HasPrefix(mu.name, "partial-") {
						apply(mu) // before the genuine message
					}
				}
				for i, mu := range jmuts {
					if i%2 == 0 {
						apply(mu)
					}
				}
				// C09/C10: a payload the sender never signed - this message's payload altered, or the payload of the error report /
				// decline of the same step in the same participant's name - under the signature bytes of an EARLIER genuine message
				// of that sender, one this node has verified and accepted: shown now, while the sender's contribution is awaited
				w24ForeignBefore(r, m, all, apply) // nodew24.go (C10/C02)
				for _, mu := range r.staleSignature(m, acceptedOf[m.SenderAddr]) {
					apply(mu)
					r.st.StaleSignatures++
				}
				gen := r.feed(c, obs, m, "genuine")
				r.st.Genuine++
				if gen.outcome == "ok" && len(m.Signature) > 0 && m.Event != "event_sig_proposal_init" && m.Event != "reinit_dkg" {
					acceptedOf[m.SenderAddr] = append(acceptedOf[m.SenderAddr], m)
				}
				// C09: an announcement of reconstructed signatures nobody with a registered key made (unsigned, signed with a fresh
				// key, signed with another participant's key), for this round and for a round id the node holds no round for
				if m.Event == string(ctypes.SignatureReconstructed) {
					r.forgedAnnouncements(c, obs, m)
				}
				// C10: a signed message is good for the step it was made for: an OLDER genuine message of this round, shown again
				// now (a later step, a later batch), is refused or changes nothing
				if olds := history[m.DkgRoundID]; len(olds) > 0 {
					for _, idx := range []int{r.rng.Intn(len(olds)), len(olds) - 1 - r.rng.Intn(minInt(3, len(olds)))} {
						old := olds[idx]
						if old.Event == m.Event && old.SenderAddr == m.SenderAddr {
							continue
						}
						// (a proposal shown again while the round is idle opens the same batch again: the same message for the same
						// step - nothing in C10 separates the two; noted as an observation in DESIGN.md, not demanded here)
						if old.Event == "event_signing_start" || old.Event == "event_sig_proposal_init" {
							continue
						}
						res := r.feedOp(c, obs, old, "mut:stale-replay", "trymsg")
						r.st.Mutated++
						r.st.MutationHist["stale-replay/"+res.outcome]++
						if res.outcome == "ok" && res.before != res.after {
							r.mon(fmt.Sprintf("C10 bound_to_round_and_step: mutated message (stale-replay: the genuine %s of %s, shown again after a %s from %s) was accepted and changed the node state", old.Event, old.SenderAddr, m.Event, m.SenderAddr))
						}
					}
				}
				history[m.DkgRoundID] = append(history[m.DkgRoundID], m)
				phase = "a"
				if half < len(muts) {
					rest := muts[half:]
					sort.SliceStable(rest, func(i, j int) bool {
						return !r.tried[m.Event+"/"+rest[i].name+"/a"] && r.tried[m.Event+"/"+rest[j].name+"/a"]
					})
				}
				for i, mu := range jmuts {
					if i%2 == 1 {
						apply(mu)
					}
				}
				for i, mu := range muts {
					if mu.name == "same-batch-other-tasks" {
						continue // (applied before)
					}
					if i >= half && i < perMsg {
						apply(mu) // after it (replays of an already applied message included)
					} else if i >= perMsg && (mu.name == "replay-other-round" || mu.name == "recon-names-other-round") && m.Event == string(ctypes.SignatureReconstructed) {
						apply(mu) // always: the only message kind whose payload names a round itself (C08)
					} else if (i >= perMsg || i < half) && mu.name == "data-byteflip" {
						apply(mu) // always: the signature the node has just accepted, over altered bytes (C09)
					}
				}
				// exact duplicate of the genuine message (C13/C08: re-applying is a rejection or idempotent)
				if r.rng.Intn(2) == 0 {
					res := r.feed(c, obs, m, "duplicate")
					r.st.Duplicates++
					// C13 (node_reapply): whatever was delivered in between, a message delivered again is rejected, or accepted
					// without changing anything
					if gen.outcome == "ok" && res.outcome == "ok" && res.before != res.after {
						r.mon(fmt.Sprintf("C13 reapply_safe: %s from %s, accepted a second time, changed the node state", m.Event, m.SenderAddr))
					} else if res.outcome == "panic" {
						r.mon(fmt.Sprintf("C13 reapply_safe: %s from %s, delivered a second time, crashed the node", m.Event, m.SenderAddr))
					}
					r.st.DuplicateHist[res.outcome]++
				}
			}
			consumed = m.Offset + 1
			obs.st.SaveOffset(consumed)
			k++
		}
		return k
	}
	opsAtStart := r.st.Ops
	pumpAll := func(maxRounds int) {
		for i := 0; i < maxRounds; i++ {
			if r.st.Ops-opsAtStart > 7000 {
				// something keeps the ceremony busy for ever (e.g. retired operations that come back): enough has been seen
				if len(r.st.Notes) < 30 {
					r.st.Notes = append(r.st.Notes, "scenario cut short after 7000 operations")
				}
				return
			}
			moved := observerPoll()
			for _, nd := range c.nodes {
				if nd == obs {
					continue
				}
				evs, _ := c.pollOnce(nd, 0)
				moved += len(evs)
			}
			for _, nd := range c.nodes {
				if nd == obs {
					if !nd.silent {
						moved += r.answerObserved(c, nd)
					}
					continue
				}
				if nd.silent {
					continue
				}
				k, errs := c.answerAll(nd)
				moved += k
				for _, e := range errs {
					if len(r.st.Notes) < 30 {
						r.st.Notes = append(r.st.Notes, truncate(e, 200))
					}
				}
			}
			if moved == 0 {
				return
			}
		}
	}
	pumpAll(40)
	for _, nd := range c.nodes {
		if st := c.roundState(nd, round); st != "stage_signing_idle" && len(r.st.Notes) < 30 {
			r.st.Notes = append(r.st.Notes, fmt.Sprintf("after DKG %s is in %s", nd.name, st))
		}
	}
	r.reinitProbes(c, obs, round)
	r.w24Probes(c, obs, round) // nodew24.go (C09, C08)
	r.farFutureProposal(c, obs, round)
	// two signing batches, one with a late signer
	for b := 0; b < 2; b++ {
		prop := c.nodes[r.rng.Intn(n)]
		if b == 0 {
			c.proposeData(prop, round, map[string][]byte{"f1": []byte("payload-one"), "f 2": {0, 1, 2}})
		} else {
			c.proposeRange(prop, round, 5, 7)
		}
		late := c.nodes[(obsIdx+1)%n]
		if t < n {
			late.silent = true
		}
		pumpAll(20)
		late.silent = false
		pumpAll(20)
	}
	for _, nd := range c.nodes {
		if st := c.roundState(nd, round); st != "stage_signing_idle" && len(r.st.Notes) < 30 {
			r.st.Notes = append(r.st.Notes, fmt.Sprintf("after signing %s is in %s", nd.name, st))
		}
	}
	// a batch that fails: more than n-t participants report an error instead of a partial signature; the round
	// is cancelled and lazily restarted by the next message; then one more batch that succeeds
	{
		prop := c.nodes[r.rng.Intn(n)]
		c.proposeData(prop, round, map[string][]byte{"doomed": []byte("never signed")})
		for _, nd := range c.nodes {
			nd.silent = true
		}
		pumpAll(6) // everybody sees the proposal, nobody answers
		for i := 0; i < n-t+1; i++ {
			nd := c.nodes[(obsIdx+1+i)%n]
			req := requests.SignatureProposalConfirmationErrorRequest{ParticipantId: nd.idx, Error: requests.NewFSMError(fmt.Errorf("airgapped machine failed")), CreatedAt: time.Now()}
			bz, _ := json.Marshal(req)
			nd.stg.Send(storage.Message{ID: fmt.Sprintf("err-%d-%d", r.st.Scenarios, i), DkgRoundID: round, Event: "event_signing_partial_sign_error_received",
				Data: bz, Signature: ed25519.Sign(nd.kp.Priv, bz), SenderAddr: nd.name})
		}
		pumpAll(6)
		cancelled := 0
		for _, nd := range c.nodes {
			if strings.Contains(c.roundState(nd, round), "cancelled_by_error") {
				cancelled++
			}
		}
		r.st.CancelledRounds += cancelled
		for _, nd := range c.nodes {
			nd.silent = false
			// the doomed batch's requests are dropped by everybody but the observer (whose pool the model mirrors)
		}
		// "… the batch is cancelled, and in either case the round returns to idle and accepts the next proposal": the next
		// proposal is made the way an operator makes one - through a node's own API
		proposer := c.nodes[r.rng.Intn(n)]
		if err := c.proposeData(proposer, round, map[string][]byte{"after": []byte("signed after the failure")}); err != nil {
			r.mon(fmt.Sprintf("C06 accepts_next: after a batch cancelled by %d failure reports (n=%d,t=%d; round state on the proposer %s) node %d cannot propose the next batch through its API: %s", n-t+1, n, t, c.roundState(proposer, round), proposer.idx, truncate(err.Error(), 160)))
		} else {
			r.st.ProposedAfterFailure++
		}
		pumpAll(20)
		pumpAll(20)
	}
	r.w22OmittedKeys(c, obs, round, pumpAll) // nodew22.go (C03)
	// junk that looks different to different readers: for every node a signing proposal in ITS OWN name (its participant id, a
	// signature that does not verify). Whether a message is accepted may not depend on who reads it: all reject it, and the
	// nodes still agree afterwards (C08; the sender field of a board message is not authenticated)
	for i, nd := range c.nodes {
		inst, err := nd.fsmSvc.GetFSMInstance(round, false)
		if err != nil {
			continue
		}
		pid, err := inst.GetIDByUsername(nd.name)
		if err != nil {
			continue
		}
		req := requests.SigningBatchProposalStartRequest{BatchID: fmt.Sprintf("forged-in-the-name-of-%d", i), ParticipantId: pid, CreatedAt: time.Now(),
			SigningTasks: []requests.SigningTask{{MessageID: "forged", File: "forged.bin", Payload: []byte("never proposed by its alleged sender")}}}
		bz, _ := json.Marshal(req)
		c.nodes[(i+1)%n].stg.Send(storage.Message{ID: fmt.Sprintf("forged-own-%d-%d", r.st.Scenarios, i), DkgRoundID: round, Event: "event_signing_start", Data: bz,
			Signature: bytes.Repeat([]byte{byte(i + 1)}, ed25519.SignatureSize), SenderAddr: nd.name})
		r.st.ForgedOwnName++
	}
	pumpAll(4)
	r.c08Checks(c, obs, rounds)
	r.resetObserved(c, obs)
	// every third time the file names no new communication key for one of the OTHER participants (an operator left it out of
	// the key list: GenerateReDKGMessage then writes an empty key); whatever that participant posts afterwards must be refused
	keyless := -1
	if r.st.Scenarios%3 == 1 && n > 1 {
		keyless = (obsIdx + 1) % n
		r.st.KeylessReinits++
	}
	r.reinitObserved(c, obs, round, keyless)
	who := keyless
	if who < 0 {
		who = (obsIdx + 1) % n
	}
	from := len(c.boardMessages())
	if _, err := c.proposeTasks(c.nodes[who], round, []requests.SigningTask{{MessageID: "after-reinit", File: "after reinit.bin", Payload: []byte("proposed after the reinitialisation")}}); err == nil {
		for _, m := range c.boardMessages()[from:] {
			// first the same proposal with a signature nobody made (in the name of a participant that may have NO key
			// registered since the reinitialisation: nothing verifies under no key, so nothing in its name is acted on)
			forged := m
			forged.Signature = bytes.Repeat([]byte{0x5a}, ed25519.SignatureSize)
			res := r.feedOp(c, obs, forged, "mut:forged-after-reinit", "trymsg")
			r.st.Mutated++
			if res.outcome == "ok" && res.before != res.after {
				r.mon(fmt.Sprintf("C09 unsigned_noop: after the re-initialisation a %s in the name of %s with a signature nobody made was accepted and changed the node state", m.Event, m.SenderAddr))
			}
			// … and signed by each of the OTHER participants with their own (new) keys: a key speaks for the name it was
			// registered under in the file, wherever that entry stood in the file's list
			for j, other := range c.nodes {
				if other.name == m.SenderAddr {
					continue
				}
				y := m
				y.Signature = ed25519.Sign(other.kp.Priv, m.Data)
				res := r.feedOp(c, obs, y, fmt.Sprintf("mut:after-reinit-signed-by-%d", j), "trymsg")
				r.st.Mutated++
				if res.outcome == "ok" && res.before != res.after {
					r.mon(fmt.Sprintf("C10 only_own_key: after the re-initialisation a %s in the name of %s, signed with the key of %s, was accepted and changed the node state", m.Event, m.SenderAddr, other.name))
				}
			}
			r.feed(c, obs, m, "after-reinit")
		}
	}
}

func mutClause(p string) string {
	if p == "C10" {
		return "only_own_key"
	}
	return "unsigned_noop"
}

// errorTwin: for the event a participant answers a step with, the event it would refuse / report an error in that step with
var errorTwin = map[string]string{
	"event_sig_proposal_confirm_by_participant": "event_sig_proposal_decline_by_participant",
	"event_dkg_commit_confirm_received":         "event_dkg_commit_confirm_canceled_by_error",
	"event_dkg_deal_confirm_received":           "event_dkg_deal_confirm_canceled_by_error",
	"event_dkg_response_confirm_received":       "event_dkg_response_confirm_canceled_by_error",
	"event_dkg_master_key_confirm_received":     "event_dkg_master_key_confirm_canceled_by_error",
	"event_signing_partial_sign_received":       "event_signing_partial_sign_error_received",
}

// staleSignature: messages in the name of m's sender that nobody signed. The signature field holds the bytes of the signature
// of an earlier genuine message of that sender (olds: accepted by this node, so whatever it remembers of a verification it
// remembers of these); the payload is (a) m's own with its stamp moved by a second (an announcement of signatures: with other
// signature bytes), (b) the error report / decline of the same step naming the same participant. None verifies under the
// sender's registered key, so C09 wants them refused without effect, and C10 wants the participant's entry untouched.
func (r *nodeRun) staleSignature(m storage.Message, olds []storage.Message) []mutation {
	if m.Event == "event_sig_proposal_init" || m.Event == "reinit_dkg" || len(olds) == 0 {
		return nil
	}
	var old *storage.Message
	for _, k := range []int{len(olds) - 1, r.rng.Intn(len(olds))} {
		if !bytes.Equal(olds[k].Signature, m.Signature) && !bytes.Equal(olds[k].Data, m.Data) {
			old = &olds[k]
		}
	}
	if old == nil {
		return nil
	}
	var out []mutation
	add := func(what, event string, data []byte) {
		if bytes.Equal(data, old.Data) {
			return
		}
		x := m
		x.Event = event
		x.Data = data
		x.Signature = append([]byte(nil), old.Signature...)
		out = append(out, mutation{name: "stale-signature>" + what, msg: x, shouldReject: true, prop: "C09",
			detail: fmt.Sprintf(" (posted as %s in the name of %s before the genuine message, while that contribution was awaited; its signature field held the %d signature bytes of the sender's earlier genuine %s, which this node had accepted; nobody signed this payload: %s)", event, m.SenderAddr, len(old.Signature), old.Event, truncate(string(data), 160))})
	}
	altered := stampRe.ReplaceAllFunc(m.Data, func(b []byte) []byte {
		t, err := time.Parse(time.RFC3339Nano, string(b[1:len(b)-1]))
		if err != nil {
			return b
		}
		return []byte(`"` + t.Add(time.Second).Format(time.RFC3339Nano) + `"`)
	})
	var sigs []fsmtypes.ReconstructedSignature
	if m.Event == string(ctypes.SignatureReconstructed) && json.Unmarshal(m.Data, &sigs) == nil && len(sigs) > 0 {
		sigs[0].Signature = []byte("never reconstructed by anybody")
		altered, _ = json.Marshal(sigs)
	}
	if !bytes.Equal(altered, m.Data) {
		add("payload-altered", m.Event, altered)
	}
	if pid, named := participantOf(m); named {
		if twin, ok := errorTwin[m.Event]; ok {
			var bz []byte
			switch {
			case strings.HasPrefix(twin, "event_sig_proposal_"):
				bz, _ = json.Marshal(requests.SignatureProposalParticipantRequest{ParticipantId: pid, CreatedAt: time.Now()})
			case strings.HasPrefix(twin, "event_dkg_"):
				bz, _ = json.Marshal(requests.DKGProposalConfirmationErrorRequest{ParticipantId: pid, Error: requests.NewFSMError(fmt.Errorf("never reported by this participant")), CreatedAt: time.Now()})
			default:
				bz, _ = json.Marshal(requests.SignatureProposalConfirmationErrorRequest{ParticipantId: pid, Error: requests.NewFSMError(fmt.Errorf("never reported by this participant")), CreatedAt: time.Now()})
			}
			add("refusal-or-error-report-of-the-step-naming-the-same-participant", twin, bz)
		}
	}
	return out
}

// forgedAnnouncements (C09): after the genuine announcement m of reconstructed signatures, announcements in the name of
// registered participants that none of them signed - no signature, a fresh key's, another participant's - carrying (a) the
// id of m's round, (b) an id the node holds no round for (nothing is registered for anybody there). Each must be refused and
// leave the rounds, the operations and every signature store - the one kept under the id the message carries included - as
// they were. Tried and rolled back; two of the six per genuine announcement (three in the thorough tier), in rotation.
func (r *nodeRun) forgedAnnouncements(c *cluster, obs *vnode, m storage.Message) {
	var sigs []fsmtypes.ReconstructedSignature
	if json.Unmarshal(m.Data, &sigs) != nil || len(sigs) == 0 || len(c.nodes) < 2 {
		return
	}
	for i := range sigs {
		sigs[i].Signature = []byte("not a threshold signature")
	}
	data, _ := json.Marshal(sigs)
	senderIdx := 0
	for i, nd := range c.nodes {
		if nd.name == m.SenderAddr {
			senderIdx = i
		}
	}
	other := c.nodes[(senderIdx+1)%len(c.nodes)]
	type variant struct {
		how string
		sig []byte
	}
	variants := []variant{{"unsigned", nil}, {"signed with a fresh key", ed25519.Sign(keystore.NewKeyPair().Priv, data)},
		{"signed with the key of " + other.name, ed25519.Sign(other.kp.Priv, data)}}
	take := 2
	if r.tier == "thorough" {
		take = len(variants)
	}
	for k := 0; k < take; k++ {
		turn := r.forgedTurn
		r.forgedTurn++
		v := variants[turn%len(variants)]
		round, where := m.DkgRoundID, "the round it was announced in"
		if (turn/len(variants))%2 == 0 {
			round, where = fmt.Sprintf("round-nobody-opened-%d", turn), "a round id the node holds no round for"
			if _, err := obs.fsmSvc.GetFSMDump(&dto.DkgIdDTO{DkgID: round}); err == nil {
				continue
			}
			r.st.ForgedAnnouncementsNoRound++
		}
		x := storage.Message{ID: fmt.Sprintf("forged-announcement-%d", turn), DkgRoundID: round, Event: m.Event, Data: data, Signature: v.sig, SenderAddr: m.SenderAddr}
		res := r.feedOp(c, obs, x, "mut:forged-announcement", "trymsg")
		r.st.Mutated++
		r.st.ForgedAnnouncements++
		r.st.MutationHist["forged-announcement/"+res.outcome]++
		if res.outcome == "ok" || res.before != res.after {
			what := "was accepted"
			if res.outcome != "ok" {
				what = "was refused and still left a trace"
			}
			if !bytes.Equal(res.storeBefore, res.storeAfter) {
				var stor map[string]map[string][]fsmtypes.ReconstructedSignature
				json.Unmarshal(res.storeAfter, &stor)
				k, sample := 0, ""
				for batch, mm := range stor {
					for mid, entries := range mm {
						for _, e := range entries {
							if string(e.Signature) == "not a threshold signature" {
								k++
								sample = fmt.Sprintf("batch %q message %q in the name of %q", batch, mid, e.Username)
							}
						}
					}
				}
				what += fmt.Sprintf(": the signature store kept under that id went from %d to %d bytes and holds %d of the forged entries (%s, signature bytes \"not a threshold signature\")", len(res.storeBefore), len(res.storeAfter), k, sample)
			} else if res.before != res.after {
				what += " and changed what the node stores " + firstDiff(res.before, res.after)
			}
			r.mon(fmt.Sprintf("C09 unsigned_noop: a %s message in the name of %s, %s, for %s (%.24s) %s", m.Event, m.SenderAddr, v.how, where, round, what))
		}
	}
}

// participantOf: the participant id named inside the payload, if the event's request has one
func participantOf(m storage.Message) (int, bool) {
	v, err := ctypes.FSMRequestFromMessage(m)
	if err != nil {
		return 0, false
	}
	toks := reqToTokens(v)
	switch toks[0] {
	case "sigPart", "commit", "deal", "response", "masterKey", "dkgErr", "signErr":
		return atoi(toks[1]), true
	case "signStart", "partialSigns":
		return atoi(toks[2]), true
	}
	return 0, false
}

func runNodeDiff(outDir string, seed int64, tier string) {
	os.MkdirAll(outDir, 0o755)
	airgapped.N = 1 << 10
	restore := silenceStdout()
	defer restore()
	fo, _ := os.Create(filepath.Join(outDir, "ops.txt"))
	fb, _ := os.Create(filepath.Join(outDir, "go_obs.txt"))
	r := &nodeRun{tried: map[string]bool{}, st: &nodeStats{MutationHist: map[string]int{}, OutcomeHist: map[string]int{}, DuplicateHist: map[string]int{}}, ops: bufio.NewWriterSize(fo, 1<<20),
		obs: bufio.NewWriterSize(fb, 1<<20), rng: rand.New(rand.NewSource(seed)), tier: tier}
	cfgs := [][2]int{{3, 2}, {2, 2}}
	if tier == "thorough" {
		cfgs = [][2]int{{3, 2}, {2, 2}, {4, 3}, {3, 3}, {5, 2}}
	}
	for i, cf := range cfgs {
		// every second ceremony is held by participants whose names differ in a blank or a capital only: whoever looks a
		// name up by anything but the name itself finds the wrong participant there
		if i%2 == 1 {
			clusterNames = []string{"dora", "dora ", " dora", "Dora", "dora\t"}[:cf[0]]
			r.st.LookAlikeCeremonies++
		}
		r.scenario(outDir, cf[0], cf[1], i%2 == 1)
		clusterNames = nil
	}
	r.errorResults(outDir)
	r.rekeyedRounds(outDir)
	r.faultedAnswers(outDir)
	r.w24HeldBackAnnouncement(outDir) // nodew24.go (C02)
	r.w24dDroppedParticipant(outDir) // nodew24d.go (C10)
	r.ops.Flush()
	r.obs.Flush()
	fo.Close()
	fb.Close()
	writeJSON(filepath.Join(outDir, "stats.json"), r.st)
	restore()
	fmt.Printf("nodediff: ops=%d genuine=%d mutated=%d accepted=%d rejected=%d panics=%d monitors=%d\n", r.st.Ops, r.st.Genuine, r.st.Mutated, r.st.Accepted, r.st.Rejected, r.st.Panics, len(r.st.Monitors))
	_ = bytes.Equal
}

// reinitProbes: crafted re-initialisation messages from a stranger. A reinit message may create the round it names
// (like an opening proposal, it is confirmed out of band); it must not touch any round that exists. The node is rolled
// back after each probe (the Lean node model does not cover the reinit handler).
func (r *nodeRun) reinitProbes(c *cluster, obs *vnode, round string) {
	decline, _ := json.Marshal(map[string]interface{}{"ParticipantId": 0, "CreatedAt": time.Now().Format(time.RFC3339Nano)})
	errRep, _ := json.Marshal(map[string]interface{}{"ParticipantId": 0, "Error": map[string]string{"ErrorMsg": "forged"}, "CreatedAt": time.Now().Format(time.RFC3339Nano)})
	inner := []storage.Message{
		{ID: "inj-1", DkgRoundID: round, Event: "event_sig_proposal_decline_by_participant", Data: decline, SenderAddr: "stranger"},
		{ID: "inj-2", DkgRoundID: round, Event: "event_dkg_master_key_confirm_canceled_by_error", Data: errRep, SenderAddr: "stranger"},
		{ID: "inj-3", DkgRoundID: round, Event: "event_signing_partial_sign_error_received", Data: errRep, SenderAddr: "stranger"},
	}
	probe := func(name, envelope, dkgID string) {
		re := ctypes.ReDKG{DKGID: dkgID, Threshold: 2, Messages: inner}
		payload, _ := json.Marshal(re)
		m := storage.Message{ID: "probe-" + name, DkgRoundID: envelope, Event: "reinit_dkg", Data: payload, SenderAddr: "stranger"}
		snap := rawSnap(obs)
		before := publicProj(obs, round)
		beforeAll := nodeRender(obs)
		var perr error
		func() {
			defer func() {
				if rec := recover(); rec != nil {
					r.mon(fmt.Sprintf("C18 never_panics: ProcessMessage panicked on a crafted reinit message (%s)", name))
				}
			}()
			perr = obs.svc.ProcessMessage(m)
		}()
		after := publicProj(obs, round)
		r.st.ReinitProbes++
		// refused means refused: a re-initialisation message the node answers with an error leaves nothing behind - no round,
		// no pending operation, no signature entry
		if perr != nil {
			if now := nodeRender(obs); now != beforeAll {
				r.mon(fmt.Sprintf("C18 reject_is_noop: a re-initialisation message (%s) was refused (%s) and still changed the node %s", name, truncate(perr.Error(), 100), firstDiff(beforeAll, now)))
			}
		}
		if after != before {
			r.mon(fmt.Sprintf("C08 round_noninterference: a re-initialisation message (%s: envelope round %.8s…, dkg_id %.8s…) posted by a stranger changed the existing round %.8s… %s", name, envelope, dkgID, round, firstDiff(before, after)))
		}
		rawRestore(obs, snap)
		// the round the probe created is not in the snapshot's signature keys: remove what it added
		if back := nodeRender(obs); back != beforeAll {
			r.mon("harness: rollback after a reinit probe did not restore the node state")
		}
	}
	probe("fresh id, inner messages of an existing round", "fresh-round-x", "fresh-round-x")
	probe("envelope names an existing round, dkg_id fresh", round, "fresh-round-y")
	probe("no dkg_id", "fresh-round-z", "")
	probe("a dkg_id of blanks", "fresh-round-z", "  ")
}

// farFutureProposal: an opening proposal (unsigned by design: anybody can post one) for a round id nobody has used,
// stamped in the last days of the year 9999: its deadline falls into the year 10000, which encoding/json refuses to write.
// Whatever the node answers, its rounds must stay listable and loadable, and a refusal must leave nothing behind.
func (r *nodeRun) farFutureProposal(c *cluster, obs *vnode, round string) {
	d, err := obs.fsmSvc.GetFSMDump(&dto.DkgIdDTO{DkgID: round})
	if err != nil || d.Payload == nil || d.Payload.SignatureProposalPayload == nil {
		return
	}
	var parts []*requests.SignatureProposalParticipantsEntry
	ids := make([]int, 0)
	for id := range d.Payload.SignatureProposalPayload.Quorum {
		ids = append(ids, id)
	}
	sort.Ints(ids)
	for _, id := range ids {
		p := d.Payload.SignatureProposalPayload.Quorum[id]
		parts = append(parts, &requests.SignatureProposalParticipantsEntry{Username: p.Username, PubKey: p.PubKey, DkgPubKey: p.DkgPubKey})
	}
	for _, stamp := range []string{"9999-12-30T00:00:00Z", "9999-12-31T23:59:59Z"} {
		ts, _ := time.Parse(time.RFC3339, stamp)
		req := requests.SignatureProposalParticipantsListRequest{Participants: parts, SigningThreshold: 2, CreatedAt: ts}
		bz, err := json.Marshal(req)
		if err != nil {
			return
		}
		m := storage.Message{ID: "far-future", DkgRoundID: "round-of-the-year-9999", Event: "event_sig_proposal_init", Data: bz, SenderAddr: "stranger"}
		snap := rawSnap(obs)
		beforeAll := nodeRender(obs)
		var perr error
		func() {
			defer func() {
				if rec := recover(); rec != nil {
					r.mon(fmt.Sprintf("C18 never_panics: ProcessMessage panicked on an opening proposal stamped %s", stamp))
				}
			}()
			perr = obs.svc.ProcessMessage(m)
		}()
		r.st.FarFutureProposals++
		if _, lerr := obs.fsmSvc.GetFSMList(); lerr != nil {
			r.mon(fmt.Sprintf("C19 rounds_stay_listable: after an opening proposal (anybody can post one) for a fresh round id stamped %s - answered with %v - the node can no longer list its rounds: %s", stamp, perr, truncate(lerr.Error(), 160)))
		}
		if perr == nil {
			if _, gerr := obs.fsmSvc.GetFSMInstance(m.DkgRoundID, false); gerr != nil {
				r.mon(fmt.Sprintf("C19 restore_total: an opening proposal stamped %s was accepted and the round it opened cannot be loaded again: %s", stamp, truncate(gerr.Error(), 160)))
			}
		} else if now := nodeRender(obs); now != beforeAll {
			r.mon(fmt.Sprintf("C18 reject_is_noop: an opening proposal stamped %s was refused (%s) and still changed the node %s", stamp, truncate(perr.Error(), 100), firstDiff(beforeAll, now)))
		}
		rawRestore(obs, snap)
	}
}

// reinitObserved: the observed node, with an empty state database again, is re-initialised from a dump of the board by
// the real procedure (GenerateReDKGMessage, in every other scenario GetAdaptedReDKG on a dump stripped of its
// self-confirmations); the Lean model of reinitDKG gets the decoded dump with the oracles of every inner message.
func (r *nodeRun) reinitObserved(c *cluster, obs *vnode, round string, keyless int) {
	if _, err := obs.fsmSvc.ResetFSMState(&dto.ResetStateDTO{NewStateDBDSN: filepath.Join(obs.dir, "state-reset-reinit")}); err != nil {
		r.mon("harness: reset: " + err.Error())
		return
	}
	r.emit("reset", "ok "+nodeRender(obs))
	dump := c.boardMessages()
	adapt := r.st.Scenarios%2 == 0
	if adapt {
		var stripped []storage.Message
		for _, m := range dump {
			if m.Event == "event_dkg_deal_confirm_received" && m.RecipientAddr == m.SenderAddr {
				continue
			}
			stripped = append(stripped, m)
		}
		dump = stripPubPoly(c, stripped)
	}
	newKeys := map[string][]byte{}
	for i, nd := range c.nodes {
		if i != keyless {
			newKeys[nd.name] = nd.kp.Pub
		}
	}
	re, err := ctypes.GenerateReDKGMessage(dump, newKeys)
	if err != nil {
		r.mon("harness: GenerateReDKGMessage: " + err.Error())
		return
	}
	if adapt {
		if re, err = node.GetAdaptedReDKG(re); err != nil {
			r.mon("harness: GetAdaptedReDKG: " + err.Error())
			return
		}
	}
	// the participant list of the file in another order than the opening proposal had (each entry still carries its own name
	// and keys): keys belong to names, not to positions
	if r.st.Scenarios%2 == 1 && len(re.Participants) > 1 {
		ps := re.Participants
		for i, j := 0, len(ps)-1; i < j; i, j = i+1, j-1 {
			ps[i], ps[j] = ps[j], ps[i]
		}
		r.st.ReorderedReinits++
	}
	payload, _ := json.Marshal(re)
	now := time.Now()
	var oldKeys [][]byte
	for _, p := range re.Participants {
		oldKeys = append(oldKeys, p.OldCommPubKey)
	}
	toks := []string{"reinit", hs(re.DKGID), fmt.Sprint(now.UnixNano()), fmt.Sprint(len(re.Participants))}
	for _, p := range re.Participants {
		toks = append(toks, hs(p.Name), hx(p.NewCommPubKey))
	}
	for _, m := range re.Messages {
		patch := "0"
		if len(m.Signature) == 0 && m.SenderAddr == m.RecipientAddr && m.Event == "event_dkg_deal_confirm_received" {
			var dr requests.DKGProposalDealConfirmationRequest
			if json.Unmarshal(m.Data, &dr) == nil && string(dr.Deal) == "self-confirm" {
				patch = "1"
			}
		}
		var valid []string
		seen := map[string]bool{}
		for _, k := range oldKeys {
			if len(k) == ed25519.PublicKeySize && ed25519.Verify(k, m.Data, m.Signature) && !seen[string(k)] {
				seen[string(k)] = true
				valid = append(valid, hx(k))
			}
		}
		sort.Strings(valid)
		keysTok := "-"
		if len(valid) > 0 {
			keysTok = strings.Join(valid, ",")
		}
		toks = append(toks, "||", patch, hs(m.DkgRoundID), hs(m.Event), hs(m.SenderAddr), hs(m.RecipientAddr), fmt.Sprint(now.UnixNano()), keysTok)
		if v, err := ctypes.FSMRequestFromMessage(m); err == nil {
			toks = append(toks, "|", "arg")
			toks = append(toks, reqToTokens(v)...)
		}
	}
	// before the real file: variants of it as JSON (a field null, of another type, missing, respelled; null participants and
	// null messages) handed to the node with its empty state - each must end with ok or an error, never with a fault; what it
	// leaves behind is rolled back (these are not part of the history the model follows)
	jv := jsonVariants(payload, -1)
	r.rng.Shuffle(len(jv), func(i, j int) { jv[i], jv[j] = jv[j], jv[i] })
	lim := 16
	if r.tier == "thorough" {
		lim = len(jv)
	}
	for i, v := range jv {
		if i >= lim {
			break
		}
		snap := rawSnap(obs)
		beforeAll := nodeRender(obs)
		pm := storage.Message{ID: fmt.Sprintf("reinit-variant-%d", i), DkgRoundID: re.DKGID, Event: "reinit_dkg", Data: v.data, SenderAddr: obs.name}
		func() {
			defer func() {
				if rec := recover(); rec != nil {
					r.mon(fmt.Sprintf("C18 never_panics: ProcessMessage panicked on a re-initialisation file with %s: %v", v.name, rec))
				}
			}()
			if bz, err := json.Marshal(pm); err == nil {
				probe("node ProcessMessage(" + truncate(string(bz), 4000) + ")")
			}
			obs.svc.ProcessMessage(pm)
		}()
		r.st.ReinitVariants++
		rawRestore(obs, snap)
		if back := nodeRender(obs); back != beforeAll {
			r.mon("harness: rollback after a reinit variant did not restore the node state")
			break
		}
	}
	msg := storage.Message{ID: "reinit", DkgRoundID: re.DKGID, Event: "reinit_dkg", Data: payload, SenderAddr: obs.name}
	outcome := "ok"
	func() {
		defer func() {
			if rec := recover(); rec != nil {
				outcome = "panic"
				r.mon(fmt.Sprintf("C18 never_panics: ProcessMessage panicked on a reinit message: %v", rec))
			}
		}()
		if err := obs.svc.ProcessMessage(msg); err != nil {
			outcome = "reject"
		}
	}()
	r.emit(strings.Join(toks, " "), outcome+" "+nodeRender(obs))
	r.st.Reinits++
	r.st.OutcomeHist["reinit/"+outcome]++
}
