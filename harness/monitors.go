package main

import "strings"

// addMonitor keeps a monitor line unless enough lines of the same kind are there already. Lines are of the same kind
// when their first 70 characters agree up to digits: a violation that is reported for every pair, schedule or
// message (a known finding, for instance) must not use up the room and hide a different one.
func addMonitor(list *[]string, s string) {
	const perKind, total = 5, 400
	if len(*list) >= total {
		return
	}
	kind := monitorKind(s)
	n := 0
	for _, m := range *list {
		if monitorKind(m) == kind {
			n++
		}
	}
	if n < perKind {
		*list = append(*list, s)
	}
}

func monitorKind(s string) string {
	// a mutated message: the kind is the clause, the variant and the event it was made from (not who sent it)
	if i := strings.Index(s, ": mutated message ("); i > 0 {
		if j := strings.Index(s[i:], " from "); j > 0 {
			return s[:i+j]
		}
	}
	var b strings.Builder
	for _, r := range s {
		if r < '0' || r > '9' {
			b.WriteRune(r)
		}
		if b.Len() >= 70 {
			break
		}
	}
	return b.String()
}
