package main

// algdiff: full ceremonies on real nodes + real airgapped machines. The dealers' secret
// coefficients (read through the verif hooks) are handed to the Lean Shamir/DKG model, which must
// predict every machine's share and the value recovered from every signer subset; the harness
// checks on the REAL objects that shares lie on the announced polynomial, that every node keeps
// that polynomial, and that every signature value reconstructed, broadcast or stored anywhere
// verifies with prysm/blst under the group key over exactly the proposed payload and is
// byte-identical everywhere (C01, C02, C03 end-to-end, C07).

import (
	"bufio"
	"bytes"
	"encoding/hex"
	"encoding/json"
	"fmt"
	"math/rand"
	"os"
	"path/filepath"
	"runtime"
	"sort"
	"strings"
	"sync"

	"github.com/corestario/kyber"
	"github.com/corestario/kyber/pairing"
	"github.com/corestario/kyber/pairing/bls12381"
	"github.com/corestario/kyber/share"
	kbls "github.com/corestario/kyber/sign/bls"
	"github.com/corestario/kyber/sign/tbls"
	prysmBLS "github.com/prysmaticlabs/prysm/v3/crypto/bls"

	"github.com/lidofinance/dc4bc/airgapped"
	"github.com/lidofinance/dc4bc/client/api/dto"
	ctypes "github.com/lidofinance/dc4bc/client/types"
	"github.com/lidofinance/dc4bc/dkg"
	fsmtypes "github.com/lidofinance/dc4bc/fsm/types"
	"github.com/lidofinance/dc4bc/fsm/types/requests"
)

type algStats struct {
	Ops, Ceremonies, Batches, SignaturesChecked, SharesChecked, SubsetsChecked                   int
	C07Schedules, C07Races, C11Scenarios                                                         int
	CraftedBatches, PartialsChecked, FaultySignerBatches, AwayProposerBatches, SlowReaderBatches int
	C11Refed, C02StorageFaults                                                                   int
	SignerErrorBatches, LateReaderBatches                                                        int
	BigPayloadBatches, SamePayloadBatches                                                        int
	C07Exhaustive                                                                                string
	Configs                                                                                      []string
	OutcomeHist                                                                                  map[string]int
	Monitors                                                                                     []string
	Samples                                                                                      []string
	Notes                                                                                        []string
	AirDkg                                                                                       airTraceStats
}

func scalarHex(s kyber.Scalar) string {
	b, _ := s.MarshalBinary()
	return hex.EncodeToString(b)
}

type algRun struct {
	st   *algStats
	ops  *bufio.Writer
	obs  *bufio.Writer
	rng  *rand.Rand
	suit pairing.Suite
	// craft: the tasks of the next proposal, posted as they are (signBatch takes them instead of data / range)
	craft []requests.SigningTask
	// safetyOnly: the batch being checked had a faulty signer among the first t: nothing invalid may be stored or broadcast,
	// but that every node ends up with a signature is not claimed (C07 speaks of slow signers, not of faulty ones)
	safetyOnly bool
	// skipNode: a node that is away (not polling) while the batch is signed: nothing is claimed about it (-1: nobody)
	skipNode int
	awayNode bool
	// air: the abstract trace of every key-generation operation the machines handle (airdkg.go)
	air *airTrace
}

func (a *algRun) emit(op, ob string) {
	fmt.Fprintln(a.ops, op)
	fmt.Fprintln(a.obs, ob)
	a.st.Ops++
	a.st.OutcomeHist[strings.SplitN(op, " ", 2)[0]]++
	if len(a.st.Samples) < 10 && a.st.Ops%7 == 2 {
		a.st.Samples = append(a.st.Samples, truncate(op, 150)+" => "+truncate(ob, 80))
	}
}

func (a *algRun) mon(s string) {
	addMonitor(&a.st.Monitors, s)
}

// dkgAlgebra: after a completed key generation, compare shares / polynomial / group key (C02) and
// feed the coefficients to the model.
func (a *algRun) dkgAlgebra(c *cluster, round string, n, t int) (groupSecret kyber.Scalar, groupKey []byte, ok bool) {
	tag := fmt.Sprintf("(n=%d,t=%d)", n, t)
	a.emit(fmt.Sprintf("reset %d %d", n, t), "ok")
	sum := a.suit.G1().Scalar().Zero()
	for i, nd := range c.nodes {
		cs, err := nd.air.VerifDealerCoefficients(round)
		if err != nil {
			a.mon(fmt.Sprintf("C02 dkg_incomplete %s: machine %d has no dealer state: %v", tag, i, err))
			return nil, nil, false
		}
		if len(cs) != t {
			a.mon(fmt.Sprintf("C02 degree %s: dealer %d polynomial has %d coefficients, threshold %d", tag, i, len(cs), t))
		}
		toks := []string{"poly", fmt.Sprint(i)}
		for _, s := range cs {
			toks = append(toks, "x"+scalarHex(s))
		}
		a.emit(strings.Join(toks, " "), fmt.Sprintf("ok %d", len(cs)))
		sum = a.suit.G1().Scalar().Add(sum, cs[0])
	}
	var keyrings []*dkg.BLSKeyring
	var shares []*share.PriShare
	for i, nd := range c.nodes {
		krs, err := nd.air.GetBLSKeyrings()
		if err != nil || krs[round] == nil {
			a.mon(fmt.Sprintf("C02 no_keyring %s: machine %d: %v", tag, i, err))
			return nil, nil, false
		}
		kr := krs[round]
		keyrings = append(keyrings, kr)
		shares = append(shares, kr.Share)
		a.emit(fmt.Sprintf("share %d", kr.Share.I), scalarHex(kr.Share.V))
		a.st.SharesChecked++
		if kr.Share.I != i {
			a.mon(fmt.Sprintf("C02 share_index %s: machine %d holds share index %d", tag, i, kr.Share.I))
		}
		// the share lies on the machine's public polynomial
		if !kr.PubPoly.Check(kr.Share) {
			a.mon(fmt.Sprintf("C02 share_on_pubpoly %s: share of machine %d is not on its public polynomial", tag, i))
		}
		if kr.PubPoly.Threshold() != t {
			a.mon(fmt.Sprintf("C02 degree %s: machine %d public polynomial has %d commitments, threshold %d", tag, i, kr.PubPoly.Threshold(), t))
		}
	}
	// one polynomial everywhere: machines, announcements, hot nodes
	ref, _ := keyrings[0].PubPolyBytes()
	for i, kr := range keyrings {
		bz, _ := kr.PubPolyBytes()
		if !bytes.Equal(bz, ref) {
			a.mon(fmt.Sprintf("C02 one_polynomial %s: machine %d holds a different public polynomial than machine 0", tag, i))
		}
		// every machine's share lies on machine 0's polynomial
		if !keyrings[0].PubPoly.Check(kr.Share) {
			a.mon(fmt.Sprintf("C02 share_on_pubpoly %s: share of machine %d is not on the common polynomial", tag, i))
		}
	}
	for i, nd := range c.nodes {
		d, err := nd.fsmSvc.GetFSMDump(&dto.DkgIdDTO{DkgID: round})
		if err != nil {
			a.mon(fmt.Sprintf("C02 node_dump %s: node %d: %v", tag, i, err))
			continue
		}
		if !bytes.Equal(d.Payload.DKGProposalPayload.PubPolyBz, ref) {
			a.mon(fmt.Sprintf("C02 retained_poly %s: node %d retains a polynomial different from the machines'", tag, i))
		}
		for pid, p := range d.Payload.DKGProposalPayload.Quorum {
			mk, _ := keyrings[0].PubPoly.Commit().MarshalBinary()
			if !bytes.Equal(p.DkgMasterKey, mk) {
				a.mon(fmt.Sprintf("C02 group_key %s: node %d recorded a master key for participant %d that is not the polynomial's constant term", tag, i, pid))
			}
		}
	}
	// group key = g^{sum of constant terms}
	want := a.suit.G1().Point().Mul(sum, nil)
	if !want.Equal(keyrings[0].PubPoly.Commit()) {
		a.mon(fmt.Sprintf("C02 group_key %s: group key is not g^(sum of the dealers' secrets)", tag))
	}
	// recovery from subsets of real shares vs the model
	subsets := allSubsets(n, t)
	if len(subsets) > 12 {
		a.rng.Shuffle(len(subsets), func(i, j int) { subsets[i], subsets[j] = subsets[j], subsets[i] })
		subsets = subsets[:12]
	}
	for _, sub := range subsets {
		perm := append([]int(nil), sub...)
		a.rng.Shuffle(len(perm), func(i, j int) { perm[i], perm[j] = perm[j], perm[i] })
		var ss []*share.PriShare
		for _, i := range perm {
			ss = append(ss, shares[i])
		}
		rec, err := share.RecoverSecret(a.suit.G1(), ss, t, n)
		ob := "err"
		if err == nil {
			ob = scalarHex(rec)
			if !rec.Equal(sum) {
				a.mon(fmt.Sprintf("C02 any_t_shares %s: shares %v recover a secret different from the group secret", tag, perm))
			}
		}
		strs := make([]string, len(perm))
		for i, v := range perm {
			strs[i] = fmt.Sprint(v)
		}
		a.emit("recover "+strings.Join(strs, ","), ob)
		a.st.SubsetsChecked++
	}
	if t > 1 {
		// t-1 shares are refused by the library (and, by C02.t_minus_one_insufficient, carry no information)
		if _, err := share.RecoverSecret(a.suit.G1(), shares[:t-1], t, n); err == nil {
			a.mon(fmt.Sprintf("C02 t_minus_one %s: %d shares were accepted for recovery", tag, t-1))
		}
	}
	a.emit("secret", scalarHex(sum))
	gk, _ := keyrings[0].PubPoly.Commit().MarshalBinary()
	return sum, gk, true
}

func allSubsets(n, k int) [][]int {
	var out [][]int
	var rec func(start int, cur []int)
	rec = func(start int, cur []int) {
		if len(cur) == k {
			out = append(out, append([]int(nil), cur...))
			return
		}
		for i := start; i < n; i++ {
			rec(i+1, append(cur, i))
		}
	}
	rec(0, nil)
	return out
}

type proposedMsg struct {
	File    string
	Payload []byte
}

// signBatch proposes a batch from `proposer`, lets `signers` answer in that order (polling in
// between according to `pollEvery`), then lets `late` answer. Returns the expected messages.
func (a *algRun) signBatch(c *cluster, round string, proposer int, data map[string][]byte, rng [2]int, signers, late []int, pollEachStep bool) (string, []proposedMsg, []string) {
	var errs []string
	var want []proposedMsg
	crafted := ""
	if a.craft != nil {
		tasks := a.craft
		a.craft = nil
		id, err := c.proposeTasks(c.nodes[proposer], round, tasks)
		if err != nil {
			return "", nil, []string{"propose: " + err.Error()}
		}
		crafted = id
		// what the proposal says is to be signed under each identifier: a later task with the same identifier replaces an earlier one
		for _, w := range lastPerID(expandTasks(tasks)) {
			want = append(want, proposedMsg{w.file, w.payload})
		}
	} else if data != nil {
		if err := c.proposeData(c.nodes[proposer], round, data); err != nil {
			return "", nil, []string{"propose: " + err.Error()}
		}
		for f, p := range data {
			want = append(want, proposedMsg{f, p})
		}
	} else {
		if err := c.proposeRange(c.nodes[proposer], round, rng[0], rng[1]); err != nil {
			return "", nil, []string{"propose: " + err.Error()}
		}
		for pos := rng[0]; pos < rng[1]; pos++ {
			m, err := requests.ReconstructBakedMessage(pos)
			if err == nil {
				want = append(want, proposedMsg{m.File, specSigningRoot(mustU64(m.MessageID))})
			}
		}
	}
	pollAll := func() {
		for _, n := range c.nodes {
			if _, err := c.pollOnce(n, 0); err != nil {
				errs = append(errs, err.Error())
			}
		}
	}
	pollAll()
	// batch id from the board
	batch := ""
	var proposal requests.SigningBatchProposalStartRequest
	for _, m := range c.boardMessages() {
		if m.Event == "event_signing_start" {
			var r requests.SigningBatchProposalStartRequest
			if json.Unmarshal(m.Data, &r) == nil {
				batch = r.BatchID
				proposal = r
			}
		}
	}
	if crafted != "" && batch != crafted {
		errs = append(errs, "the crafted proposal is not the last one on the board")
	}
	if !a.safetyOnly {
		// (not for the batch in which the harness itself made one signer's partial signatures wrong)
		defer a.partialsOverProposed(c, round, batch, proposal.SigningTasks)
		defer a.identifiersAnswered(c, batch, proposal.SigningTasks) // algw24.go
	}
	answer := func(i int) {
		n := c.nodes[i]
		for _, op := range n.pendingOps() {
			if strings.HasPrefix(string(op.Type), "state_signing_") {
				if err := c.answerOp(n, op); err != nil {
					errs = append(errs, fmt.Sprintf("node %d answer: %v", i, err))
				}
			}
		}
	}
	for _, i := range signers {
		answer(i)
		if pollEachStep {
			pollAll()
		}
	}
	pollAll()
	pollAll() // reconstruction broadcasts
	for _, i := range late {
		answer(i)
		pollAll()
	}
	pollAll()
	return batch, want, errs
}

type expandedMsg struct {
	id, file string
	payload  []byte
}

// expandTasks: the proposal read as the property reads it: an explicit task is its payload, a range task is the signing
// roots (computed here from the consensus spec, not by the code under test) of the validators at those list positions
func expandTasks(tasks []requests.SigningTask) []expandedMsg {
	var out []expandedMsg
	for _, t := range tasks {
		if t.Payload != nil {
			out = append(out, expandedMsg{t.MessageID, t.File, t.Payload})
			continue
		}
		for pos := t.RangeStart; pos < t.RangeEnd; pos++ {
			if m, err := requests.ReconstructBakedMessage(pos); err == nil {
				out = append(out, expandedMsg{m.MessageID, m.File, specSigningRoot(mustU64(m.MessageID))})
			}
		}
	}
	return out
}

func lastPerID(ms []expandedMsg) []expandedMsg {
	last := map[string]int{}
	for i, m := range ms {
		last[m.id] = i
	}
	var out []expandedMsg
	for i, m := range ms {
		if last[m.id] == i {
			out = append(out, m)
		}
	}
	return out
}

// partialsOverProposed (C03): every partial signature a participant's machine put on the board for this batch is a valid
// share signature over the payload the PROPOSAL gives for that identifier - the bytes the nodes check it against.
func (a *algRun) partialsOverProposed(c *cluster, round, batch string, tasks []requests.SigningTask) {
	if batch == "" || len(tasks) == 0 {
		return
	}
	payloadOf := map[string][]byte{}
	for _, m := range lastPerID(expandTasks(tasks)) {
		payloadOf[m.id] = m.payload
	}
	d, err := c.nodes[0].fsmSvc.GetFSMDump(&dto.DkgIdDTO{DkgID: round})
	if err != nil || d == nil || d.Payload == nil || d.Payload.DKGProposalPayload == nil {
		return
	}
	kr, err := dkg.LoadPubPolyBLSKeyringFromBytes(bls12381.NewBLS12381Suite(nil), d.Payload.DKGProposalPayload.PubPolyBz)
	if err != nil {
		return
	}
	for _, m := range c.boardMessages() {
		if m.Event != "event_signing_partial_sign_received" {
			continue
		}
		var req requests.SigningProposalBatchPartialSignRequests
		if json.Unmarshal(m.Data, &req) != nil || req.BatchID != batch {
			continue
		}
		// a machine answers task by task; of two answers under one identifier the nodes keep the later one
		lastOf := map[string]int{}
		for i, ps := range req.PartialSigns {
			lastOf[ps.MessageID] = i
		}
		for i, ps := range req.PartialSigns {
			if lastOf[ps.MessageID] != i {
				continue
			}
			a.st.PartialsChecked++
			want, known := payloadOf[ps.MessageID]
			if !known {
				a.mon(fmt.Sprintf("C03 signed_eq_proposed (batch %.13s from %s): a partial signature for identifier %q, which the proposal does not contain", batch, m.SenderAddr, ps.MessageID))
				continue
			}
			if err := tbls.Verify(a.suit, kr.PubPoly, want, ps.Sign); err != nil {
				a.mon(fmt.Sprintf("C03 signed_eq_proposed (batch %.13s): the partial signature of %s for identifier %q is not a signature over the %d bytes the proposal gives for it (%v): the machine signed other bytes than the nodes check", batch, m.SenderAddr, ps.MessageID, len(want), err))
			}
		}
	}
}

func mustU64(s string) uint64 {
	var v uint64
	fmt.Sscanf(s, "%d", &v)
	return v
}

// checkSignatures: every signature value stored on any node or broadcast on the board for the
// batch is valid under the group key for exactly the proposed payload, identical everywhere, and
// every node holds one for every message of the batch (C01, C03, C07).
func (a *algRun) checkSignatures(c *cluster, round, batch string, secret kyber.Scalar, groupKey []byte, want []proposedMsg, tag string) {
	pk, err := prysmBLS.PublicKeyFromBytes(groupKey)
	if err != nil {
		a.mon(fmt.Sprintf("C01 group_key %s: prysm refuses the group key: %v", tag, err))
		return
	}
	expect := map[string][]byte{} // file -> expected signature bytes
	payloadOf := map[string][]byte{}
	for _, w := range want {
		sig, err := kbls.Sign(a.suit, secret, w.Payload)
		if err != nil {
			a.mon("C01 internal: cannot sign reference")
			return
		}
		expect[w.File] = sig
		payloadOf[w.File] = w.Payload
	}
	checkOne := func(where string, rs fsmtypes.ReconstructedSignature) {
		if len(rs.Signature) == 0 {
			return // placeholder written on event_signing_start; completeness is checked below
		}
		a.st.SignaturesChecked++
		wantPayload, known := payloadOf[rs.File]
		if !known {
			a.mon(fmt.Sprintf("C03 foreign_message %s: %s holds a signature for file %q that is not in the proposal", tag, where, rs.File))
			return
		}
		if !bytes.Equal(rs.SrcPayload, wantPayload) {
			a.mon(fmt.Sprintf("C03 stored_payload %s: %s stores payload %s for %q, proposed %s", tag, where, shortHex(rs.SrcPayload), rs.File, shortHex(wantPayload)))
		}
		ps, err := prysmBLS.SignatureFromBytes(rs.Signature)
		if err != nil {
			a.mon(fmt.Sprintf("C01 valid_signature %s: %s holds a malformed signature for %q: %v", tag, where, rs.File, err))
			return
		}
		if !ps.Verify(pk, wantPayload) {
			a.mon(fmt.Sprintf("C01 valid_signature %s: %s holds a signature for %q that does not verify under the group key over the proposed payload", tag, where, rs.File))
		}
		if !bytes.Equal(rs.Signature, expect[rs.File]) {
			a.mon(fmt.Sprintf("C01 identical_signature %s: %s holds signature %x… for %q, the unique group signature is %x…", tag, where, rs.Signature[:8], rs.File, expect[rs.File][:8]))
		}
	}
	for i, n := range c.nodes {
		if a.awayNode && i == a.skipNode {
			continue
		}
		stor, err := n.sigSvc.GetSignatures(&dto.DkgIdDTO{DkgID: round})
		if err != nil {
			a.mon(fmt.Sprintf("C07 store %s: node %d: %v", tag, i, err))
			continue
		}
		have := map[string]bool{}
		for _, entries := range stor[batch] {
			for _, rs := range entries {
				checkOne(fmt.Sprintf("node %d store", i), rs)
				if len(rs.Signature) > 0 {
					have[rs.File] = true
				}
			}
		}
		if a.safetyOnly {
			continue
		}
		for _, w := range want {
			if !have[w.File] {
				a.mon(fmt.Sprintf("C07 every_node_stores %s: node %d has no reconstructed signature for %q of batch %s", tag, i, w.File, batch))
			}
		}
		if st := c.roundState(n, round); st != "stage_signing_idle" {
			a.mon(fmt.Sprintf("C07 idle_after_batch %s: node %d is in %s after the batch", tag, i, st))
		}
	}
	for _, m := range c.boardMessages() {
		if m.Event != string(ctypes.SignatureReconstructed) {
			continue
		}
		var sigs []fsmtypes.ReconstructedSignature
		if json.Unmarshal(m.Data, &sigs) != nil {
			continue
		}
		for _, rs := range sigs {
			if rs.BatchID == batch {
				checkOne(fmt.Sprintf("board offset %d from %s", m.Offset, m.SenderAddr), rs)
			}
		}
	}
}

func runAlgDiff(outDir string, seed int64, tier string) {
	os.MkdirAll(outDir, 0o755)
	airgapped.N = 1 << 10 // scrypt cost only matters for C04; lowered here for throughput
	restore := silenceStdout()
	defer restore()
	fo, _ := os.Create(filepath.Join(outDir, "ops.txt"))
	fb, _ := os.Create(filepath.Join(outDir, "go_obs.txt"))
	a := &algRun{st: &algStats{OutcomeHist: map[string]int{}}, ops: bufio.NewWriter(fo), obs: bufio.NewWriter(fb),
		rng: rand.New(rand.NewSource(seed)), suit: bls12381.NewBLS12381Suite(nil).(pairing.Suite)}
	fao, _ := os.Create(filepath.Join(outDir, "airdkg_ops.txt"))
	fab, _ := os.Create(filepath.Join(outDir, "airdkg_obs.txt"))
	a.air = newAirTrace(bufio.NewWriter(fao), bufio.NewWriter(fab))
	type cfg struct{ n, t int }
	cfgs := []cfg{{2, 2}, {3, 2}, {4, 3}, {5, 2}, {3, 3}}
	if tier == "thorough" {
		cfgs = []cfg{{2, 2}, {3, 2}, {3, 3}, {4, 2}, {4, 3}, {4, 4}, {5, 2}, {5, 3}, {5, 5}, {6, 2}, {7, 3}, {8, 5}}
	}
	for ci, cf := range cfgs {
		tag := fmt.Sprintf("(n=%d,t=%d)", cf.n, cf.t)
		if os.Getenv("VERIF_PROGRESS") != "" {
			var ms runtime.MemStats
			runtime.ReadMemStats(&ms)
			fmt.Fprintf(os.Stderr, "algdiff: %s starts, heap %d MB\n", tag, ms.HeapAlloc>>20)
		}
		dir, _ := os.MkdirTemp(outDir, "cer")
		c, err := newCluster(dir, cf.n, "pw")
		if err != nil {
			a.mon("C01 harness: " + err.Error())
			continue
		}
		c.airTrace = a.air
		round, err := c.startDKG(cf.t)
		if err != nil {
			a.mon("C02 start_dkg " + tag + ": " + err.Error())
		}
		// key generation with a random answering order
		errs := c.pumpShuffled(a.rng, 60)
		a.st.Ceremonies++
		a.st.Configs = append(a.st.Configs, tag)
		for _, e := range errs {
			a.st.Notes = append(a.st.Notes, tag+" dkg: "+truncate(e, 200))
		}
		ready := true
		for i, n := range c.nodes {
			if st := c.roundState(n, round); st != "stage_signing_idle" {
				a.mon(fmt.Sprintf("C02 honest_dkg_completes %s: node %d ended key generation in %s", tag, i, st))
				ready = false
			}
		}
		if ready {
			secret, gk, ok := a.dkgAlgebra(c, round, cf.n, cf.t)
			if ok {
				batches := 2
				if tier == "thorough" {
					batches = 3
				}
				for b := 0; b < batches; b++ {
					// choose signers: a random subset of size t..n in random order; the rest answer late or never
					perm := a.rng.Perm(cf.n)
					k := cf.t + a.rng.Intn(cf.n-cf.t+1)
					signers := perm[:k]
					var late []int
					if a.rng.Intn(2) == 0 {
						late = perm[k:]
					}
					sort.Ints(late)
					var batch string
					var want []proposedMsg
					var berrs []string
					if b == 1 && ci%2 == 0 {
						start := a.rng.Intn(18600)
						batch, want, berrs = a.signBatch(c, round, a.rng.Intn(cf.n), nil, [2]int{start, start + 1 + a.rng.Intn(3)}, signers, late, a.rng.Intn(2) == 0)
					} else {
						data := map[string][]byte{}
						for m := 0; m < 1+a.rng.Intn(3); m++ {
							p := make([]byte, 1+a.rng.Intn(40))
							a.rng.Read(p)
							data[[]string{"a.txt", "file with spaces.bin", "ünï.dat", "b"}[m]] = p
						}
						if b == 0 {
							// a text as people sign them: blanks in front, a newline at its end - every byte of it is part of what is signed
							data["blanks around.txt"] = []byte(" \t a text that ends in a newline and starts with blanks\r\n")
						}
						batch, want, berrs = a.signBatch(c, round, a.rng.Intn(cf.n), data, [2]int{}, signers, late, a.rng.Intn(2) == 0)
					}
					a.st.Batches++
					for _, e := range berrs {
						a.st.Notes = append(a.st.Notes, fmt.Sprintf("%s batch %d signers=%v late=%v: %s", tag, b, signers, late, truncate(e, 200)))
					}
					a.checkSignatures(c, round, batch, secret, gk, want, fmt.Sprintf("%s batch %d signers=%v late=%v", tag, b, signers, late))
				}
				// C03: a proposal only a participant writing to the board can make: one identifier used by two tasks with different
				// payloads, a range between them, and an explicit task named like one of the range's validators
				{
					start := a.rng.Intn(18600)
					p1, p2, p3 := make([]byte, 20), make([]byte, 33), make([]byte, 7)
					a.rng.Read(p1)
					a.rng.Read(p2)
					a.rng.Read(p3)
					clash := "x"
					if m, err := requests.ReconstructBakedMessage(start); err == nil {
						clash = m.MessageID
					}
					a.craft = []requests.SigningTask{{MessageID: "twice", File: "first.bin", Payload: p1}, {MessageID: "r", File: "r", RangeStart: start, RangeEnd: start + 2},
						{MessageID: "twice", File: "second.bin", Payload: p2}, {MessageID: clash, File: "named like a validator.bin", Payload: p3}}
					perm := a.rng.Perm(cf.n)
					signers := perm[:cf.t+a.rng.Intn(cf.n-cf.t+1)]
					batch, want, berrs := a.signBatch(c, round, a.rng.Intn(cf.n), nil, [2]int{}, signers, nil, a.rng.Intn(2) == 0)
					a.st.Batches++
					a.st.CraftedBatches++
					for _, e := range berrs {
						a.st.Notes = append(a.st.Notes, fmt.Sprintf("%s crafted batch signers=%v: %s", tag, signers, truncate(e, 200)))
					}
					a.checkSignatures(c, round, batch, secret, gk, want, fmt.Sprintf("%s crafted batch (repeated identifier, range, explicit task named like a validator) signers=%v", tag, signers))
				}
				// C01/C03: long explicit payloads; one payload under two identifiers (algw24.go)
				a.w24Batches(c, round, secret, gk, cf.t, tag)
				// C07: racing proposals, then schedules with slow signers (all of them for n=3,t=2 in the thorough tier)
				a.raceProposals(c, round, secret, gk, cf.t, tag)
				var scheds []c07Schedule
				if cf.n == 3 {
					scheds = allSchedules(cf.n, cf.t)
					pick := 16
					if tier == "thorough" {
						pick = 40 // for (3,2) all of them are run by exhaustiveSchedules below, on fresh boards
					}
					if pick < len(scheds) {
						a.rng.Shuffle(len(scheds), func(i, j int) { scheds[i], scheds[j] = scheds[j], scheds[i] })
						scheds = scheds[:pick]
					}
				} else if cf.n > 3 {
					pick := 4
					if tier == "thorough" {
						pick = 40
					}
					scheds = sampleSchedules(a.rng, cf.n, cf.t, pick)
				} else {
					scheds = allSchedules(cf.n, cf.t)
					if len(scheds) > 4 {
						a.rng.Shuffle(len(scheds), func(i, j int) { scheds[i], scheds[j] = scheds[j], scheds[i] })
						scheds = scheds[:4]
					}
				}
				for k, sc := range scheds {
					a.runSchedule(c, round, secret, gk, sc, k, tag)
				}
				// C07: "every node that keeps polling": the proposer of a batch goes away right after proposing (its node neither
				// polls nor answers); the others, t of them at least, sign - every node that IS polling ends up with the signatures,
				// whoever proposed. Then the proposer comes back and catches up.
				if cf.t < cf.n {
					away := a.rng.Intn(cf.n)
					c.pollAllNodes()
					from := len(c.boardMessages())
					payload := []byte(fmt.Sprintf("proposed by %d, who then went away", away))
					if err := c.proposeData(c.nodes[away], round, map[string][]byte{"away.bin": payload}); err == nil {
						pollOthers := func() {
							for i, nd := range c.nodes {
								if i != away {
									c.pollOnce(nd, 0)
								}
							}
						}
						pollOthers()
						if ids := c.newBatches(from); len(ids) == 1 {
							for _, i := range a.rng.Perm(cf.n) {
								if i != away {
									c.answerBatch(i, ids[0])
									pollOthers()
								}
							}
							pollOthers()
							pollOthers()
							a.st.AwayProposerBatches++
							a.awayNode, a.skipNode = true, away
							a.checkSignatures(c, round, ids[0], secret, gk, []proposedMsg{{"away.bin", payload}}, fmt.Sprintf("%s batch whose proposer %d stopped polling after proposing", tag, away))
							a.awayNode = false
							// back again
							c.pollAllNodes()
							c.answerBatch(away, ids[0])
							c.pollAllNodes()
							c.pollAllNodes()
							a.checkSignatures(c, round, ids[0], secret, gk, []proposedMsg{{"away.bin", payload}}, fmt.Sprintf("%s batch whose proposer %d was away, after its return", tag, away))
						}
					}
				}
				// C01/C03: a slow reader. One node answers a batch and then stops reading the board; the others finish the batch and a
				// second one is proposed that names a file like the first with another payload. Only then does the slow node read on:
				// it reconstructs the FIRST batch and broadcasts that, and the others receive it while they are signing the SECOND.
				// At that moment, and after the second batch is complete, every stored value is a signature of what ITS batch proposed.
				{
					slow := a.rng.Intn(cf.n)
					c.pollAllNodes()
					from := len(c.boardMessages())
					pay1, pay2 := []byte("first batch: the payload under this name"), []byte("second batch: ANOTHER payload under the same name")
					pollOthers := func() {
						for i, nd := range c.nodes {
							if i != slow {
								c.pollOnce(nd, 0)
							}
						}
					}
					if err := c.proposeData(c.nodes[a.rng.Intn(cf.n)], round, map[string][]byte{"same name.bin": pay1}); err == nil {
						c.pollAllNodes()
						if ids := c.newBatches(from); len(ids) == 1 {
							for _, i := range a.rng.Perm(cf.n) {
								c.answerBatch(i, ids[0])
							}
							pollOthers()
							pollOthers()
							pollOthers()
							from2 := len(c.boardMessages())
							other := (slow + 1 + a.rng.Intn(cf.n-1)) % cf.n
							if err := c.proposeData(c.nodes[other], round, map[string][]byte{"same name.bin": pay2}); err == nil {
								pollOthers()
								ids2 := c.newBatches(from2)
								// the slow node catches up: reconstructs the first batch, broadcasts, sees the second proposal
								c.pollOnce(c.nodes[slow], 0)
								c.pollOnce(c.nodes[slow], 0)
								pollOthers()
								c.pollAllNodes()
								if len(ids2) == 1 {
									a.st.SlowReaderBatches++
									tg := fmt.Sprintf("%s slow reader %d:", tag, slow)
									a.safetyOnly = true
									a.checkSignatures(c, round, ids2[0], secret, gk, []proposedMsg{{"same name.bin", pay2}}, tg+" second batch while it is being signed, after the slow node's broadcast for the first arrived")
									a.checkSignatures(c, round, ids[0], secret, gk, []proposedMsg{{"same name.bin", pay1}}, tg+" first batch, while the second is being signed")
									a.safetyOnly = false
									for _, i := range a.rng.Perm(cf.n) {
										c.answerBatch(i, ids2[0])
										c.pollAllNodes()
									}
									c.pollAllNodes()
									c.pollAllNodes()
									a.checkSignatures(c, round, ids2[0], secret, gk, []proposedMsg{{"same name.bin", pay2}}, tg+" second batch, complete")
									a.checkSignatures(c, round, ids[0], secret, gk, []proposedMsg{{"same name.bin", pay1}}, tg+" first batch, after the second")
								} else {
									a.st.Notes = append(a.st.Notes, fmt.Sprintf("%s slow reader: %d second batches", tag, len(ids2)))
								}
							}
						}
					}
				}
				a.signerErrorBatch(c, round, secret, gk, cf.t, "pw", tag)
				a.lateReaderBatches(c, round, secret, gk, cf.t, tier, tag)
				// C01, safety with a faulty signer (last in the ceremony: the round may not recover from it): the first signer's
				// machine result is altered on its way to its node - its partial signatures are not signatures of these payloads
				// (a bit flipped; with several messages, the signatures swapped between them). Whatever the nodes then
				// reconstruct, store or broadcast must still verify; that they reconstruct at all is not claimed.
				perm := a.rng.Perm(cf.n)
				faulty := perm[0]
				c.resultHook = func(nd *vnode, res *ctypes.Operation) {
					if nd.idx != faulty || !strings.HasPrefix(string(res.Type), "state_signing_") {
						return
					}
					for i := range res.ResultMsgs {
						var req requests.SigningProposalBatchPartialSignRequests
						if json.Unmarshal(res.ResultMsgs[i].Data, &req) != nil || len(req.PartialSigns) == 0 {
							continue
						}
						if len(req.PartialSigns) > 1 && a.rng.Intn(2) == 0 {
							req.PartialSigns[0].Sign, req.PartialSigns[1].Sign = req.PartialSigns[1].Sign, req.PartialSigns[0].Sign
						} else {
							for k := range req.PartialSigns {
								sg := append([]byte(nil), req.PartialSigns[k].Sign...)
								if len(sg) > 10 {
									sg[len(sg)-3] ^= 0x10
								}
								req.PartialSigns[k].Sign = sg
							}
						}
						if bz, err := json.Marshal(req); err == nil {
							res.ResultMsgs[i].Data = bz
						}
					}
				}
				data := map[string][]byte{"faulty-1.bin": []byte("signed with one faulty signer among the first"), "faulty-2.bin": []byte("second message of that batch")}
				signers := perm[:cf.t]
				a.safetyOnly = true
				batch, want, _ := a.signBatch(c, round, perm[cf.n-1], data, [2]int{}, signers, perm[cf.t:], a.rng.Intn(2) == 0)
				c.resultHook = nil
				a.st.FaultySignerBatches++
				a.checkSignatures(c, round, batch, secret, gk, want, fmt.Sprintf("%s batch with faulty signer %d first, signers=%v", tag, faulty, signers))
				a.safetyOnly = false
			}
		}
		c.close()
		os.RemoveAll(dir)
	}
	if tier == "thorough" {
		a.exhaustiveSchedules(outDir, 3, 2)
	}
	a.c11Run(outDir, tier)
	a.c02FaultRun(outDir, tier)
	a.ops.Flush()
	a.obs.Flush()
	fo.Close()
	fb.Close()
	a.air.flush()
	fao.Close()
	fab.Close()
	a.st.AirDkg = a.air.st
	if len(a.st.Notes) > 40 {
		a.st.Notes = a.st.Notes[:40]
	}
	writeJSON(filepath.Join(outDir, "stats.json"), a.st)
	restore()
	fmt.Printf("algdiff: ops=%d ceremonies=%d batches=%d sigs=%d monitors=%d notes=%d\n", a.st.Ops, a.st.Ceremonies, a.st.Batches, a.st.SignaturesChecked, len(a.st.Monitors), len(a.st.Notes))
}

// pumpShuffled: like pump, but nodes poll and answer in a random order each round.
func (c *cluster) pumpShuffled(rng *rand.Rand, maxRounds int) (errs []string) {
	for r := 0; r < maxRounds; r++ {
		moved := 0
		for _, i := range rng.Perm(len(c.nodes)) {
			n := c.nodes[i]
			evs, err := c.pollOnce(n, 0)
			if err != nil {
				errs = append(errs, fmt.Sprintf("%s poll: %v", n.name, err))
			}
			moved += len(evs)
			if rng.Intn(2) == 0 && !n.silent {
				k, e := c.answerAll(n)
				moved += k
				errs = append(errs, e...)
			}
		}
		for _, i := range rng.Perm(len(c.nodes)) {
			n := c.nodes[i]
			if n.silent {
				continue
			}
			k, e := c.answerAll(n)
			moved += k
			errs = append(errs, e...)
		}
		if moved == 0 {
			return
		}
	}
	errs = append(errs, "pump: no quiescence")
	return
}

// exhaustiveSchedules runs every schedule of two batches for (n,t). A board is re-read from its start by every poll,
// so one long-lived board makes the run quadratic: the schedules are cut into chunks, each chunk on its own freshly
// generated key, and the chunks run side by side. Lines and monitors are merged in chunk order.
func (a *algRun) exhaustiveSchedules(outDir string, n, t int) {
	scheds := allSchedules(n, t)
	const chunk = 48
	type part struct {
		ops, obs bytes.Buffer
		st       *algStats
	}
	nparts := (len(scheds) + chunk - 1) / chunk
	parts := make([]*part, nparts)
	seeds := make([]int64, nparts)
	for i := range seeds {
		seeds[i] = a.rng.Int63()
	}
	sem := make(chan struct{}, 12)
	var wg sync.WaitGroup
	for pi := 0; pi < nparts; pi++ {
		pi := pi
		parts[pi] = &part{st: &algStats{OutcomeHist: map[string]int{}}}
		wg.Add(1)
		sem <- struct{}{}
		go func() {
			defer wg.Done()
			defer func() { <-sem }()
			p := parts[pi]
			sub := &algRun{st: p.st, ops: bufio.NewWriter(&p.ops), obs: bufio.NewWriter(&p.obs),
				rng: rand.New(rand.NewSource(seeds[pi])), suit: bls12381.NewBLS12381Suite(nil).(pairing.Suite)}
			defer sub.ops.Flush()
			defer sub.obs.Flush()
			tag := fmt.Sprintf("(n=%d,t=%d) exhaustive part %d", n, t, pi)
			dir, _ := os.MkdirTemp(outDir, "exh")
			defer os.RemoveAll(dir)
			c, err := newCluster(dir, n, "pw")
			if err != nil {
				sub.mon("C07 harness: " + err.Error())
				return
			}
			defer c.close()
			round, err := c.startDKG(t)
			if err != nil {
				sub.mon("C07 harness " + tag + ": " + err.Error())
				return
			}
			c.pumpShuffled(sub.rng, 60)
			sub.st.Ceremonies++
			for i, nd := range c.nodes {
				if st := c.roundState(nd, round); st != "stage_signing_idle" {
					sub.mon(fmt.Sprintf("C02 honest_dkg_completes %s: node %d ended key generation in %s", tag, i, st))
					return
				}
			}
			secret, gk, ok := sub.dkgAlgebra(c, round, n, t)
			if !ok {
				return
			}
			lo, hi := pi*chunk, (pi+1)*chunk
			if hi > len(scheds) {
				hi = len(scheds)
			}
			for k := lo; k < hi; k++ {
				sub.runSchedule(c, round, secret, gk, scheds[k], k, tag)
			}
		}()
	}
	wg.Wait()
	done := 0
	for _, p := range parts {
		a.ops.Write(p.ops.Bytes())
		a.obs.Write(p.obs.Bytes())
		a.st.Ops += p.st.Ops
		a.st.Ceremonies += p.st.Ceremonies
		a.st.Batches += p.st.Batches
		a.st.SignaturesChecked += p.st.SignaturesChecked
		a.st.SharesChecked += p.st.SharesChecked
		a.st.SubsetsChecked += p.st.SubsetsChecked
		a.st.C07Schedules += p.st.C07Schedules
		done += p.st.C07Schedules
		for k, v := range p.st.OutcomeHist {
			a.st.OutcomeHist[k] += v
		}
		for _, m := range p.st.Monitors {
			a.mon(m)
		}
		a.st.Notes = append(a.st.Notes, p.st.Notes...)
	}
	a.st.C07Exhaustive = fmt.Sprintf("%d of all %d schedules of two batches for n=%d,t=%d, in %d parts each on a freshly generated key", done, len(scheds), n, t, nparts)
}
