package main

// C13 on the re-initialisation path: the node is killed before each durable effect it has while handling the
// reinit message (one SaveFSM per replayed message, the reinit operation, the round with the new keys), restarted on
// the same directories with the real constructors, and must still come to offer the reinit operation and reach the
// re-initialised state.

import (
	"encoding/json"
	"fmt"
	"math/rand"
	"os"
	"path/filepath"
	"strings"

	"github.com/lidofinance/dc4bc/client/api/dto"
	"github.com/lidofinance/dc4bc/client/types"
	"github.com/lidofinance/dc4bc/storage"
)

func (r *reinitRun) crashInReinit(outDir string, n, t int, all bool) {
	tag := fmt.Sprintf("(n=%d,t=%d)", n, t)
	dir, _ := os.MkdirTemp(outDir, "reinitcrash")
	defer os.RemoveAll(dir)
	a, err := newCluster(filepath.Join(dir, "A"), n, "pw")
	if err != nil {
		r.mon("harness: " + err.Error())
		return
	}
	round, err := a.startDKG(t)
	if err != nil {
		r.mon("harness: " + err.Error())
		a.close()
		return
	}
	a.pumpShuffled(rand.New(rand.NewSource(r.rng.Int63())), 80)
	for i, nd := range a.nodes {
		if st := a.roundState(nd, round); st != "stage_signing_idle" {
			r.mon(fmt.Sprintf("harness: original ceremony %s: node %d ended in %s", tag, i, st))
			a.close()
			return
		}
	}
	origPublic := roundPublic(a.nodes[0], round)
	var dump []storage.Message = a.boardMessages()
	a.close()
	seq := 0
	mk := func() (*cluster, error) {
		seq++
		b, err := newCluster(filepath.Join(dir, fmt.Sprintf("B%d", seq)), n, "pw")
		if err != nil {
			return nil, err
		}
		newKeys := map[string][]byte{}
		for _, nd := range b.nodes {
			newKeys[nd.name] = nd.kp.Pub
		}
		re, err := types.GenerateReDKGMessage(dump, newKeys)
		if err != nil {
			b.close()
			return nil, err
		}
		payload, _ := json.Marshal(re)
		if err := b.nodes[0].svc.ReInitDKG(&dto.ReInitDKGDTO{ID: re.DKGID, Payload: payload}); err != nil {
			b.close()
			return nil, err
		}
		return b, nil
	}
	hasReinitOp := func(nd *vnode) bool {
		for _, op := range nd.pendingOps() {
			if string(op.Type) == "reinit_dkg" {
				return true
			}
		}
		return false
	}
	// reference run: the durable effects of node 1 while it handles the reinit message
	b0, err := mk()
	if err != nil {
		r.mon("harness: reinit crash reference: " + err.Error())
		return
	}
	obsIdx := 1 % n
	k0 := &crasher{crashAt: map[int]bool{}}
	k0.install(b0.nodes[obsIdx])
	k0.context = "Poll(reinit_dkg)"
	b0.pollOnce(b0.nodes[obsIdx], 0)
	total, trace := k0.count, k0.trace
	if !hasReinitOp(b0.nodes[obsIdx]) {
		r.mon(fmt.Sprintf("harness: reinit crash reference %s: no reinit operation without a kill", tag))
		b0.close()
		return
	}
	b0.close()
	r.st.ReinitCrashEffects = total
	var points []int
	for i := 1; i <= total; i++ {
		points = append(points, i)
	}
	if !all && len(points) > 6 {
		// first, last, the two around the operation write, two in the replay
		pick := map[int]bool{1: true, 2: true, total: true, total - 1: true, total - 2: true, total / 2: true}
		points = nil
		for i := 1; i <= total; i++ {
			if pick[i] {
				points = append(points, i)
			}
		}
	}
	for _, kill := range points {
		b, err := mk()
		if err != nil {
			r.mon("harness: " + err.Error())
			return
		}
		obs := b.nodes[obsIdx]
		k := &crasher{crashAt: map[int]bool{kill: true}}
		k.install(obs)
		k.context = "Poll(reinit_dkg)"
		b.pollOnce(obs, 0)
		r.st.ReinitCrashRuns++
		if !k.dead {
			b.close()
			continue
		}
		stage := "nothing of the round stored yet"
		if kill > 1 {
			stage = "the partly replayed round already stored"
		}
		desc := fmt.Sprintf("#%d of %d (%s; %s)", kill, total, strings.TrimSuffix(trace[kill-1], " in Poll(reinit_dkg)"), stage)
		// restart on the same directories
		obs.ldb.VerifClose()
		obs.stg.Close()
		obs.st.hook, obs.stg.hook = nil, nil
		if err := b.buildNodeServices(obs); err != nil {
			r.mon(fmt.Sprintf("C13 reinit_resumes no_restart: %s kill before durable effect %s: the node does not start again: %v", tag, desc, err))
			b.close()
			continue
		}
		for _, nd := range b.nodes {
			b.pollOnce(nd, 0)
		}
		if !hasReinitOp(obs) {
			off, _ := obs.st.LoadOffset()
			r.mon(fmt.Sprintf("C13 reinit_resumes no_operation: %s kill before durable effect %s while handling the reinit message: after the restart node %d offers no reinit operation (round %s, offset %d)",
				tag, desc, obsIdx, b.roundState(obs, round), off))
			b.close()
			continue
		}
		b.pump(20)
		// the round must hold the NEW communication keys (messages after the re-initialisation are signed with them)
		regs := registeredKeys(obs, round)
		for _, nd := range b.nodes {
			if string(regs[nd.name]) != string(nd.kp.Pub) {
				r.mon(fmt.Sprintf("C13 reinit_resumes old_keys: %s kill before durable effect %s while handling the reinit message: after the restart node %d still holds the old communication key of %s",
					tag, desc, obsIdx, nd.name))
				break
			}
		}
		if got := roundPublic(obs, round); got != origPublic {
			r.mon(fmt.Sprintf("C13 reinit_resumes state: %s kill before durable effect %s: after restart and re-initialisation node %d holds %s; original: %s", tag, desc, obsIdx, truncate(got, 200), truncate(origPublic, 200)))
		}
		b.close()
	}
}
