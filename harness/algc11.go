package main

// C11: a deviating dealer. A participant controls its own hot node and airgapped machine, so it can post
// any result messages it likes (executeOperation binds ID, type and request payload, not the result).
// The harness plays that participant by rewriting its result before it reaches its node.

import (
	"crypto/ed25519"
	"encoding/hex"
	"encoding/json"
	"fmt"
	"os"
	"path/filepath"
	"strings"

	"github.com/corestario/kyber"
	"github.com/corestario/kyber/encrypt/ecies"
	bls12381 "github.com/corestario/kyber/pairing/bls12381"
	dkgPedersen "github.com/corestario/kyber/share/dkg/pedersen"
	vssPedersen "github.com/corestario/kyber/share/vss/pedersen"
	"github.com/corestario/kyber/sign/schnorr"
	"github.com/lidofinance/dc4bc/client/types"
	"github.com/lidofinance/dc4bc/fsm/types/requests"
	"github.com/lidofinance/dc4bc/storage"
)

type deviation struct {
	name string
	// step whose result is rewritten: the dealer's commits result, deals result or responses result
	step string
}

var eciesSuite = bls12381.NewBLS12381Suite(nil)

var deviations = []deviation{
	{"commits-tail-replaced", "state_dkg_commits_await_confirmations"},
	{"commits-all-replaced", "state_dkg_commits_await_confirmations"},
	{"commits-longer", "state_dkg_commits_await_confirmations"},
	{"commits-shorter", "state_dkg_commits_await_confirmations"},
	{"commits-garbage-point", "state_dkg_commits_await_confirmations"},
	{"commits-reordered", "state_dkg_commits_await_confirmations"},
	{"commits-first-repeated", "state_dkg_commits_await_confirmations"},
	{"deal-bitflip", "state_dkg_deals_await_confirmations"},
	{"deal-truncated", "state_dkg_deals_await_confirmations"},
	{"deal-empty", "state_dkg_deals_await_confirmations"},
	{"deal-shorter-than-a-point", "state_dkg_deals_await_confirmations"},
	{"deal-encrypts-empty-object", "state_dkg_deals_await_confirmations"},
	{"deal-for-somebody-else", "state_dkg_deals_await_confirmations"},
	{"deal-commitments-agree-only-at-the-addressee", "state_dkg_deals_await_confirmations"},
	{"deal-is-the-self-confirmation-marker", "state_dkg_deals_await_confirmations"},
	// 450 KB of noise: fits a line of the board; whatever the addressee's machine says about it must fit one too
	{"deal-large-noise", "state_dkg_deals_await_confirmations"},
	// the dealer posts its deals ONE BY ONE: the garbled deal for the victim at once, its honest deal for a third participant only
	// after the victim has reported: the third node is still collecting deals when the report arrives
	{"deal-bitflip-report-arrives-before-a-held-back-deal", "state_dkg_deals_await_confirmations"},
	{"response-complaint", "state_dkg_responses_await_confirmations"},
	// the same complaint, signed by its author (the deviating participant holds its long-term key): a well-formed complaint
	{"response-complaint-signed", "state_dkg_responses_await_confirmations"},
}

// c11Scenario runs one key generation in which `dealer` deviates towards `victim`.
func (a *algRun) c11Scenario(outDir string, n, t, dealer, victim int, dev deviation) {
	tag := fmt.Sprintf("(n=%d,t=%d) dealer=%d victim=%d %s", n, t, dealer, victim, dev.name)
	dir, _ := os.MkdirTemp(outDir, "c11")
	defer os.RemoveAll(dir)
	c, err := newCluster(dir, n, "pw")
	if err != nil {
		a.mon("harness: " + err.Error())
		return
	}
	c.airTrace = a.air
	defer c.close()
	round, err := c.startDKG(t)
	if err != nil {
		a.mon("harness: " + err.Error())
		return
	}
	applied := false
	var heldBack *storage.Message
	var bcast, real []string // scalars (hex) of the broadcast commitments and of the dealer's real polynomial, when known
	c.resultHook = func(nd *vnode, res *types.Operation) {
		if nd.idx != dealer || string(res.Type) != dev.step || len(res.ResultMsgs) == 0 {
			return
		}
		switch dev.step {
		case "state_dkg_commits_await_confirmations":
			var req requests.DKGProposalCommitConfirmationRequest
			if json.Unmarshal(res.ResultMsgs[0].Data, &req) != nil {
				return
			}
			var commits [][]byte
			if json.Unmarshal(req.Commit, &commits) != nil {
				return
			}
			if cs, err := nd.air.VerifDealerCoefficients(round); err == nil {
				for _, s := range cs {
					real = append(real, "x"+scalarHex(s))
				}
			}
			fresh := func() ([]byte, string) {
				s := a.suit.G1().Scalar().Pick(a.suit.RandomStream())
				if a.air != nil {
					a.air.knownScalar(s)
				}
				p := a.suit.G1().Point().Mul(s, nil)
				bz, _ := p.MarshalBinary()
				return bz, "x" + scalarHex(s)
			}
			bcast = append([]string(nil), real...)
			switch dev.name {
			case "commits-tail-replaced":
				if len(commits) < 2 {
					return
				}
				for k := 1; k < len(commits); k++ {
					commits[k], bcast[k] = fresh()
				}
			case "commits-all-replaced":
				for k := range commits {
					commits[k], bcast[k] = fresh()
				}
			case "commits-longer":
				bz, s := fresh()
				commits = append(commits, bz)
				bcast = append(bcast, s)
			case "commits-shorter":
				if len(commits) < 2 {
					return
				}
				commits = commits[:len(commits)-1]
				bcast = bcast[:len(bcast)-1]
			case "commits-garbage-point":
				commits[len(commits)-1] = []byte("this is not a curve point at all, not even close!")
				bcast = nil
			case "commits-reordered":
				// the same points in another order: another polynomial (for t >= 2), the same SET of commitments
				if len(commits) < 2 {
					return
				}
				for i, j := 0, len(commits)-1; i < j; i, j = i+1, j-1 {
					commits[i], commits[j] = commits[j], commits[i]
					bcast[i], bcast[j] = bcast[j], bcast[i]
				}
			case "commits-first-repeated":
				if len(commits) < 2 {
					return
				}
				for k := 1; k < len(commits); k++ {
					commits[k], bcast[k] = commits[0], bcast[0]
				}
			}
			req.Commit, _ = json.Marshal(commits)
			res.ResultMsgs[0].Data, _ = json.Marshal(req)
			applied = true
		case "state_dkg_deals_await_confirmations":
			if dev.name == "deal-bitflip-report-arrives-before-a-held-back-deal" && n >= 3 {
				third := 0
				for third == dealer || third == victim {
					third++
				}
				var kept []storage.Message
				for _, m := range res.ResultMsgs {
					if m.RecipientAddr == c.nodes[third].name && heldBack == nil {
						cp := m
						heldBack = &cp
						continue
					}
					kept = append(kept, m)
				}
				res.ResultMsgs = kept
			}
			for k := range res.ResultMsgs {
				m := &res.ResultMsgs[k]
				if m.RecipientAddr != c.nodes[victim].name {
					continue
				}
				var req requests.DKGProposalDealConfirmationRequest
				if json.Unmarshal(m.Data, &req) != nil || string(req.Deal) == "self-confirm" {
					continue
				}
				switch dev.name {
				case "deal-bitflip", "deal-bitflip-report-arrives-before-a-held-back-deal":
					req.Deal[len(req.Deal)/2] ^= 0x10
				case "deal-truncated":
					req.Deal = req.Deal[:len(req.Deal)/2]
				case "deal-empty":
					req.Deal = []byte{}
				case "deal-shorter-than-a-point":
					req.Deal = req.Deal[:16]
				case "deal-large-noise":
					big := make([]byte, 450*1024)
					a.rng.Read(big)
					req.Deal = big
				case "deal-is-the-self-confirmation-marker":
					// the literal 12 bytes every participant sends to ITSELF in place of a deal, sent to somebody else as the
					// dealer's deal: not a ciphertext at all (the marker is in-band: nothing ties it to its sender)
					req.Deal = []byte("self-confirm")
				case "deal-encrypts-empty-object":
					// a well-formed ciphertext for the addressee whose plaintext is not a deal
					if vk := c.nodes[victim].air.GetPubKey(); vk != nil {
						if ct, err := ecies.Encrypt(eciesSuite, vk, []byte("{}"), eciesSuite.Hash); err == nil {
							req.Deal = ct
						}
					}
				case "deal-commitments-agree-only-at-the-addressee":
					// the deal carries the commitments of f + r(x - x_V): the addressee's share is the honest one, every
					// other point of the polynomial differs from what was broadcast
					ct, err := forgeDealAgreeingAt(c, dealer, victim, req.Deal, t)
					if err != nil {
						a.st.Notes = append(a.st.Notes, tag+": could not forge the deal: "+truncate(err.Error(), 160))
						continue
					}
					req.Deal = ct
				case "deal-for-somebody-else":
					for _, o := range res.ResultMsgs {
						if o.RecipientAddr != m.RecipientAddr && o.RecipientAddr != nd.name {
							var r2 requests.DKGProposalDealConfirmationRequest
							if json.Unmarshal(o.Data, &r2) == nil && string(r2.Deal) != "self-confirm" {
								req.Deal = r2.Deal
								break
							}
						}
					}
				default:
					a.mon("harness: C11 deviation " + dev.name + " is not implemented")
					continue
				}
				m.Data, _ = json.Marshal(req)
				applied = true
			}
		case "state_dkg_responses_await_confirmations":
			var req requests.DKGProposalResponseConfirmationRequest
			if json.Unmarshal(res.ResultMsgs[0].Data, &req) != nil {
				return
			}
			if dev.name == "response-complaint-signed" {
				var typed []*dkgPedersen.Response
				if json.Unmarshal(req.Response, &typed) != nil || len(typed) == 0 || typed[0] == nil || typed[0].Response == nil {
					return
				}
				typed[0].Response.Status = false
				sig, err := schnorr.Sign(eciesSuite, nd.air.VerifSecKey(), typed[0].Response.Hash(eciesSuite))
				if err != nil {
					return
				}
				typed[0].Response.Signature = sig
				applied = true
				req.Response, _ = json.Marshal(typed)
				res.ResultMsgs[0].Data, _ = json.Marshal(req)
				return
			}
			var rs []map[string]interface{}
			if json.Unmarshal(req.Response, &rs) != nil || len(rs) == 0 {
				return
			}
			if inner, ok := rs[0]["Response"].(map[string]interface{}); ok {
				inner["Status"] = false
				applied = true
			}
			req.Response, _ = json.Marshal(rs)
			res.ResultMsgs[0].Data, _ = json.Marshal(req)
		}
	}
	errs := c.pump(60)
	if heldBack != nil {
		// now the dealer posts the deal it held back (signed with its key, as its node would have), and everybody reads on
		heldBack.SenderAddr = c.nodes[dealer].name
		heldBack.Signature = ed25519.Sign(c.nodes[dealer].kp.Priv, heldBack.Data)
		if err := c.nodes[dealer].stg.Send(*heldBack); err != nil {
			a.mon("harness: " + err.Error())
			return
		}
		errs = append(errs, c.pump(60)...)
	}
	a.st.C11Scenarios++
	a.st.OutcomeHist["c11:"+dev.name]++
	if !applied {
		a.st.Notes = append(a.st.Notes, tag+": deviation could not be applied")
		return
	}
	_ = errs
	// who refused? the victim's (for broadcast deviations: every honest participant's) machine must have produced an error result
	honestRefused := 0
	for _, m := range c.boardMessages() {
		if strings.Contains(m.Event, "canceled_by_error") && m.SenderAddr != c.nodes[dealer].name {
			honestRefused++
		}
	}
	if honestRefused == 0 {
		a.mon(fmt.Sprintf("C11 addressee_refuses %s: no honest participant reported an error", tag))
	}
	// a deviating DEAL is refused by its addressee: the addressee's own machine answers the deals with an error result (that
	// the round dies a step later, when nobody can certify the dealer, is not the addressee refusing the deal)
	if dev.step == "state_dkg_deals_await_confirmations" {
		byVictim, answered := false, ""
		for _, m := range c.boardMessages() {
			if m.SenderAddr == c.nodes[victim].name && m.DkgRoundID == round && strings.HasPrefix(m.Event, "event_dkg_response_confirm_") {
				answered = m.Event
				if m.Event == "event_dkg_response_confirm_canceled_by_error" {
					byVictim = true
				}
			}
		}
		if !byVictim {
			if answered == "" {
				answered = "nothing"
			}
			a.mon(fmt.Sprintf("C11 addressee_refuses %s: the addressee's machine answered the deals it was handed with %s, not with an error report", tag, answered))
		}
	}
	for i, nd := range c.nodes {
		st := c.roundState(nd, round)
		if st == "stage_signing_idle" || strings.HasPrefix(st, "state_signing") || st == "state_dkg_master_key_collected" {
			a.mon(fmt.Sprintf("C11 round_cancelled %s: node %d became signing-ready (%s)", tag, i, st))
		} else if !strings.Contains(st, "cancel") {
			a.mon(fmt.Sprintf("C11 round_cancelled %s: node %d ended in %s, not in a cancelled state", tag, i, st))
		}
		if i != dealer {
			if k, have := keyringOf(nd.air, round); have {
				a.mon(fmt.Sprintf("C11 no_share_stored %s: honest machine %d stored a key share for the round (%s)", tag, i, truncate(k, 40)))
			}
		}
	}
	// a refusal is not undone by asking again: the operator hands the same operation to the same running machine once
	// more (a result file got lost, a QR code was misread): what was refused is refused again
	for i, nd := range c.nodes {
		if i == dealer {
			continue
		}
		refusedBefore := false
		for _, m := range c.boardMessages() {
			if m.SenderAddr == nd.name && m.Event == "event_dkg_response_confirm_canceled_by_error" {
				refusedBefore = true
			}
		}
		if !refusedBefore {
			continue
		}
		for _, op := range nd.coldLog {
			if string(op.Type) != "state_dkg_responses_await_confirmations" || op.DKGIdentifier != round {
				continue
			}
			for attempt := 2; attempt <= 3; attempt++ {
				path, err := nd.air.ProcessOperation(op, true)
				if err != nil {
					break
				}
				rb, _ := os.ReadFile(path)
				os.Remove(path)
				var res types.Operation
				if json.Unmarshal(rb, &res) != nil {
					break
				}
				a.st.C11Refed++
				if !strings.Contains(string(res.Event), "canceled_by_error") {
					a.mon(fmt.Sprintf("C11 refusal_is_stable %s: machine %d refused the deals of the round, but handed the same operation again (attempt %d) it answers %s", tag, i, attempt, res.Event))
					break
				}
			}
		}
		if k, have := keyringOf(nd.air, round); have {
			a.mon(fmt.Sprintf("C11 no_share_stored %s: honest machine %d stored a key share for the round after being asked again (%s)", tag, i, truncate(k, 40)))
		}
	}
	// the algebra of the check, for the deviations whose commitments have known discrete logarithms
	if len(bcast) > 0 && len(real) > 0 {
		a.emit(fmt.Sprintf("dealcheck %d %s | %s", victim, strings.Join(bcast, " "), strings.Join(real, " ")), "refuse")
	}
}

func (a *algRun) c11Run(outDir, tier string) {
	type cfg struct{ n, t int }
	cfgs := []cfg{{3, 2}}
	if tier == "thorough" {
		cfgs = []cfg{{3, 2}, {4, 3}, {3, 3}, {5, 2}}
	}
	for _, cf := range cfgs {
		for _, dev := range deviations {
			pairs := [][2]int{{a.rng.Intn(cf.n), 0}}
			if tier == "thorough" {
				pairs = nil
				for d := 0; d < cf.n; d++ {
					for v := 0; v < cf.n; v++ {
						if d != v && (cf.n <= 3 || a.rng.Intn(3) == 0) {
							pairs = append(pairs, [2]int{d, v})
						}
					}
				}
			}
			for _, p := range pairs {
				if p[1] == p[0] {
					p[1] = (p[0] + 1) % cf.n
				}
				a.c11Scenario(outDir, cf.n, cf.t, p[0], p[1], dev)
			}
		}
		// control: the same machinery without a deviation completes
		func() {
			dir, _ := os.MkdirTemp(outDir, "c11ok")
			defer os.RemoveAll(dir)
			c, err := newCluster(filepath.Join(dir, "c"), cf.n, "pw")
			if err != nil {
				return
			}
			c.airTrace = a.air
			defer c.close()
			round, _ := c.startDKG(cf.t)
			c.resultHook = func(nd *vnode, res *types.Operation) {}
			c.pump(60)
			for i, nd := range c.nodes {
				if st := c.roundState(nd, round); st != "stage_signing_idle" {
					a.mon(fmt.Sprintf("C11 control (n=%d,t=%d): without a deviation node %d ended in %s", cf.n, cf.t, i, st))
				}
			}
		}()
	}
}

// forgeDealAgreeingAt opens the honest deal dealer -> victim (the harness holds every key), replaces its commitments by those
// of f + r(x - x_V) (same share, same session id, same length), and encrypts and signs the result exactly like the dealer's
// machine would, with the dealer's long-term key.
func forgeDealAgreeingAt(c *cluster, dealer, victim int, honestCT []byte, t int) ([]byte, error) {
	suite := eciesSuite
	M, V := c.nodes[dealer].air, c.nodes[victim].air
	var pubs []kyber.Point
	for _, nd := range c.nodes {
		pubs = append(pubs, nd.air.GetPubKey())
	}
	outer, err := ecies.Decrypt(suite, V.VerifSecKey(), honestCT, suite.Hash)
	if err != nil {
		return nil, fmt.Errorf("outer decrypt: %w", err)
	}
	var honestOuter dkgPedersen.Deal
	if err := json.Unmarshal(outer, &honestOuter); err != nil {
		return nil, err
	}
	ver, err := vssPedersen.NewVerifier(suite, V.VerifSecKey(), M.GetPubKey(), pubs)
	if err != nil {
		return nil, err
	}
	honest, err := ver.DecryptDeal(honestOuter.Deal)
	if err != nil {
		return nil, fmt.Errorf("inner decrypt: %w", err)
	}
	if len(honest.Commitments) < 2 {
		return nil, fmt.Errorf("polynomial of degree 0")
	}
	r := suite.Scalar().Pick(suite.RandomStream())
	xV := suite.Scalar().SetInt64(int64(1 + victim))
	d0 := suite.Scalar().Neg(suite.Scalar().Mul(r, xV))
	commits := make([]kyber.Point, len(honest.Commitments))
	for i, cm := range honest.Commitments {
		commits[i] = cm.Clone()
	}
	commits[0] = suite.Point().Add(commits[0], suite.Point().Mul(d0, nil))
	commits[1] = suite.Point().Add(commits[1], suite.Point().Mul(r, nil))
	if tr := c.airTrace; tr != nil {
		// the discrete logarithms of the two forged points: those of the honest ones plus d0 and r
		for k, dl := range []kyber.Scalar{d0, r} {
			if h, ok := tr.scal[pointHex(honest.Commitments[k])]; ok {
				if bz, err := hex.DecodeString(h); err == nil {
					base := suite.Scalar()
					if base.UnmarshalBinary(bz) == nil {
						tr.knownScalar(suite.Scalar().Add(base, dl))
					}
				}
			}
		}
	}
	forged := &vssPedersen.Deal{SessionID: honest.SessionID, SecShare: honest.SecShare, T: honest.T, Commitments: commits}
	dealerObj, err := vssPedersen.NewDealer(suite, M.VerifSecKey(), suite.Scalar().Pick(suite.RandomStream()), pubs, t, suite.RandomStream())
	if err != nil {
		return nil, err
	}
	slot, err := dealerObj.PlaintextDeal(victim)
	if err != nil {
		return nil, err
	}
	*slot = *forged
	enc, err := dealerObj.EncryptedDeal(victim)
	if err != nil {
		return nil, err
	}
	forgedOuter := &dkgPedersen.Deal{Index: uint32(dealer), Deal: enc}
	buf, _ := forgedOuter.MarshalBinary()
	if forgedOuter.Signature, err = schnorr.Sign(suite, M.VerifSecKey(), buf); err != nil {
		return nil, err
	}
	bz, err := json.Marshal(forgedOuter)
	if err != nil {
		return nil, err
	}
	return ecies.Encrypt(suite, V.GetPubKey(), bz, suite.Hash)
}
