package main

// Two more histories on the real ceremonies of algdiff (the same nodes, machines and checks as the batches of algdiff.go):
//
//   signerErrorBatch (C01, and C07 when t<n): the airgapped machine of some participants cannot sign (its operator typed a
//   wrong password: the key share cannot be decrypted) and honestly REPORTS that; t-1 others sign, the reports coming before,
//   between or after their signatures. Whatever the nodes then reconstruct, broadcast or store must verify under the group
//   key. When t<n the remaining honest participants sign afterwards: t correct answers are then on the board and every node
//   must end up with the signatures.
//
//   lateReaderBatches (C07): a node does not poll while two (three) consecutive batches are proposed, signed by t others and
//   reconstructed. Then it reads ALL of that in ONE tick of its poll loop and keeps polling: it must hold a valid signature
//   for every message of every one of these batches - of the earlier ones too.

import (
	"fmt"
	"sort"
	"strings"

	"github.com/corestario/kyber"
	"github.com/lidofinance/dc4bc/fsm/types/requests"
)

// boardEventsOf: how many messages with this event and this sender are on the board at or after offset `from`
func (c *cluster) boardEventsOf(from int, event, sender string) int {
	k := 0
	for _, m := range c.boardMessages() {
		if int(m.Offset) >= from && m.Event == event && m.SenderAddr == sender {
			k++
		}
	}
	return k
}

func (a *algRun) signerErrorBatch(c *cluster, round string, secret kyber.Scalar, gk []byte, t int, password string, tag string) {
	n := len(c.nodes)
	if t < 2 {
		return
	}
	c.pollAllNodes()
	from := len(c.boardMessages())
	perm := a.rng.Perm(n)
	// e participants report an error: no more than the round tolerates (n-t), so that t correct answers remain possible;
	// with t=n a single report already makes the batch impossible
	e := 1
	if n-t > 1 && a.rng.Intn(2) == 0 {
		e = 1 + a.rng.Intn(n-t)
	}
	failing := append([]int(nil), perm[:e]...)
	signers := append([]int(nil), perm[e:e+t-1]...)
	late := append([]int(nil), perm[e+t-1:]...)
	// the order of the first phase: the t-1 signatures with the reports anywhere among them
	type step struct {
		who  int
		fail bool
	}
	var order []step
	for _, i := range signers {
		order = append(order, step{i, false})
	}
	for _, i := range failing {
		at := a.rng.Intn(len(order) + 1)
		order = append(order[:at], append([]step{{i, true}}, order[at:]...)...)
	}
	var hist []string
	for _, s := range order {
		if s.fail {
			hist = append(hist, fmt.Sprintf("%d:error-report", s.who))
		} else {
			hist = append(hist, fmt.Sprintf("%d:signs", s.who))
		}
	}
	pollEach := a.rng.Intn(2) == 0
	data := map[string][]byte{"one machine cannot sign.bin": []byte("a batch in which a signer's machine reports that it cannot sign")}
	if a.rng.Intn(2) == 0 {
		p := make([]byte, 1+a.rng.Intn(40))
		a.rng.Read(p)
		data["second.bin"] = p
	}
	var want []proposedMsg
	for f, p := range data {
		want = append(want, proposedMsg{f, p})
	}
	sort.Slice(want, func(i, j int) bool { return want[i].File < want[j].File })
	proposer := a.rng.Intn(n)
	if err := c.proposeData(c.nodes[proposer], round, data); err != nil {
		a.st.Notes = append(a.st.Notes, fmt.Sprintf("%s signer-error batch: proposal refused: %s", tag, truncate(err.Error(), 160)))
		return
	}
	c.pollAllNodes()
	ids := c.newBatches(from)
	if len(ids) != 1 {
		a.st.Notes = append(a.st.Notes, fmt.Sprintf("%s signer-error batch: %d proposals on the board", tag, len(ids)))
		return
	}
	batch := ids[0]
	reports := 0
	for _, s := range order {
		nd := c.nodes[s.who]
		if s.fail {
			nd.air.SetEncryptionKey([]byte("not the password of this machine"))
		}
		_, err := c.answerBatch(s.who, batch)
		if s.fail {
			nd.air.SetEncryptionKey([]byte(password))
			if err == nil && c.boardEventsOf(from, "event_signing_partial_sign_error_received", nd.name) > 0 {
				reports++
			}
		}
		if err != nil {
			a.st.Notes = append(a.st.Notes, fmt.Sprintf("%s signer-error batch: node %d: %s", tag, s.who, truncate(err.Error(), 160)))
		}
		if pollEach {
			c.pollAllNodes()
		}
	}
	if reports != len(failing) {
		// the machine did not answer with an error report: not the history this scenario is about
		a.st.Notes = append(a.st.Notes, fmt.Sprintf("%s signer-error batch: %d of %d machines with a wrong password produced an error report", tag, reports, len(failing)))
		return
	}
	c.pollAllNodes()
	c.pollAllNodes()
	a.st.Batches++
	a.st.SignerErrorBatches++
	tg := fmt.Sprintf("%s batch %.13s proposed by %d, answers in board order [%s] (error-report: that participant's airgapped machine was given a wrong password and reported event_signing_partial_sign_error_received), nodes polling %s", tag, batch,
		proposer, strings.Join(hist, " "), map[bool]string{true: "after every answer", false: "after all of them"}[pollEach])
	// C01: fewer than t participants have signed so far; nothing that is not a signature may be anywhere
	a.safetyOnly = true
	a.checkSignatures(c, round, batch, secret, gk, want, tg+"; state after these answers")
	a.safetyOnly = false
	if len(late) == 0 {
		// t=n: the batch cannot be completed any more (only safety is claimed for it). The next proposal, written to the board by a
		// participant, is a batch like any other: everybody answers it correctly, so every node must end up with its signatures
		// (and the round is idle again for what follows in the ceremony)
		a.craft = []requests.SigningTask{{MessageID: "after-the-cancelled-batch", File: "after the cancelled batch.bin", Payload: []byte("the batch after the one a signer's error report made impossible")}}
		order2 := a.rng.Perm(n)
		b2, want2, errs := a.signBatch(c, round, a.rng.Intn(n), nil, [2]int{}, order2, nil, a.rng.Intn(2) == 0)
		a.st.Batches++
		for _, e := range errs {
			a.st.Notes = append(a.st.Notes, fmt.Sprintf("%s batch after the signer-error batch: %s", tag, truncate(e, 200)))
		}
		a.checkSignatures(c, round, b2, secret, gk, want2, fmt.Sprintf("%s batch %.13s, written to the board after batch %.13s had been cancelled by an error report of participant %d, answered by %v", tag, b2, batch, failing[0], order2))
		return
	}
	a.rng.Shuffle(len(late), func(i, j int) { late[i], late[j] = late[j], late[i] })
	for _, i := range late {
		if _, err := c.answerBatch(i, batch); err != nil {
			a.st.Notes = append(a.st.Notes, fmt.Sprintf("%s signer-error batch: late node %d: %s", tag, i, truncate(err.Error(), 160)))
		}
		c.pollAllNodes()
	}
	c.pollAllNodes()
	c.pollAllNodes()
	// now t participants (the t-1 and the late ones) have answered correctly: C01 for every value, C07 for completeness
	a.checkSignatures(c, round, batch, secret, gk, want, tg+fmt.Sprintf("; then %v sign", late))
}

func (a *algRun) lateReaderBatches(c *cluster, round string, secret kyber.Scalar, gk []byte, t int, tier string, tag string) {
	n := len(c.nodes)
	if t >= n {
		return // with t=n nothing is signed without the node that is away
	}
	lag := a.rng.Intn(n)
	var others []int
	for i := 0; i < n; i++ {
		if i != lag {
			others = append(others, i)
		}
	}
	pollOthers := func() {
		for _, i := range others {
			c.pollOnce(c.nodes[i], 0)
		}
	}
	c.pollAllNodes()
	nb := 2
	if tier == "thorough" && a.rng.Intn(2) == 0 {
		nb = 3
	}
	type played struct {
		id      string
		want    []proposedMsg
		signers []int
	}
	var bs []played
	for b := 0; b < nb; b++ {
		from := len(c.boardMessages())
		data := map[string][]byte{
			"same name in every batch.bin": []byte(fmt.Sprintf("batch %d of %d signed while node %d was not reading", b+1, nb, lag)),
		}
		if b == 0 || a.rng.Intn(2) == 0 {
			data[fmt.Sprintf("only in batch %d.bin", b+1)] = []byte(fmt.Sprintf("a second message of batch %d", b+1))
		}
		proposer := others[a.rng.Intn(len(others))]
		if err := c.proposeData(c.nodes[proposer], round, data); err != nil {
			a.mon(fmt.Sprintf("C07 later_batches_unaffected %s: proposal %d of node %d refused while node %d is not polling: %v", tag, b+1, proposer, lag, err))
			return
		}
		pollOthers()
		ids := c.newBatches(from)
		if len(ids) != 1 {
			a.st.Notes = append(a.st.Notes, fmt.Sprintf("%s late reader: %d proposals on the board", tag, len(ids)))
			return
		}
		p := a.rng.Perm(len(others))
		k := t + a.rng.Intn(len(others)-t+1)
		pollEach := a.rng.Intn(2) == 0
		var signers []int
		for _, j := range p[:k] {
			i := others[j]
			signers = append(signers, i)
			if _, err := c.answerBatch(i, ids[0]); err != nil {
				a.st.Notes = append(a.st.Notes, fmt.Sprintf("%s late reader: node %d: %s", tag, i, truncate(err.Error(), 160)))
			}
			if pollEach {
				pollOthers()
			}
		}
		pollOthers()
		pollOthers()
		pollOthers()
		var want []proposedMsg
		for f, pl := range data {
			want = append(want, proposedMsg{f, pl})
		}
		sort.Slice(want, func(i, j int) bool { return want[i].File < want[j].File })
		bs = append(bs, played{ids[0], want, signers})
		a.st.Batches++
	}
	var hist []string
	for i, b := range bs {
		hist = append(hist, fmt.Sprintf("batch %d (%.13s) signed by %v", i+1, b.id, b.signers))
	}
	tg := fmt.Sprintf("%s node %d does not poll while %s and reconstructed by them", tag, lag, strings.Join(hist, ", then "))
	// those who were polling have everything
	a.awayNode, a.skipNode = true, lag
	for i, b := range bs {
		a.checkSignatures(c, round, b.id, secret, gk, b.want, fmt.Sprintf("%s; batch %d before node %d reads", tg, i+1, lag))
	}
	a.awayNode = false
	// the node comes back: ONE tick of its poll loop brings everything that was written meanwhile
	evs, err := c.pollOnce(c.nodes[lag], 0)
	if err != nil {
		a.st.Notes = append(a.st.Notes, fmt.Sprintf("%s late reader: tick of node %d: %s", tag, lag, truncate(err.Error(), 160)))
	}
	recs := 0
	for _, ev := range evs {
		if ev.Event == "signature_reconstructed" {
			recs++
		}
	}
	// ... and it keeps polling, answers what it is still asked (every one of these batches is finished), everybody polls on
	c.pollAllNodes()
	for _, b := range bs {
		c.answerBatch(lag, b.id)
		c.pollAllNodes()
	}
	c.pollAllNodes()
	c.pollAllNodes()
	a.st.LateReaderBatches += len(bs)
	tg += fmt.Sprintf("; then node %d reads the %d messages it is behind (%d of them reconstructed-signature broadcasts) in ONE tick of its poll loop, answers late and everybody keeps polling", lag, len(evs), recs)
	for i, b := range bs {
		a.checkSignatures(c, round, b.id, secret, gk, b.want, fmt.Sprintf("%s; batch %d", tg, i+1))
	}
}
