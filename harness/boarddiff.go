package main

// boarddiff: file_storage with several writers on separate handles (goroutines and OS
// processes), message sizes up to the reader's limit; the observed file is fed to the Lean board
// model as the linearisation; the model must reproduce every offset and every GetMessages answer.

import (
	"bufio"
	"bytes"
	"encoding/json"
	"fmt"
	"math/rand"
	"os"
	"os/exec"
	"path/filepath"
	"sort"
	"strings"
	"sync"
	"time"

	"github.com/lidofinance/dc4bc/storage"
	"github.com/lidofinance/dc4bc/storage/file_storage"
)

type boardStats struct {
	FollowerReads, ConcurrentReads, ContentsCompared                                                int
	SameHandleHistories, SizeTargetsHit, HugeSends, OddLines, MentionHistories, LineOps                                                  int
	Ops, Histories, Sends, Reads, MaxWriters, DistinctSizes, ProcessHistories, DefaultLockHistories int
	OutcomeHist                                                                                     map[string]int
	Monitors                                                                                        []string
	Samples                                                                                         []string
	SizeClasses                                                                                     map[string]int
}

// msgOfLineLen builds a message whose stored JSON line has exactly `target` bytes (for the
// given number of offset digits), tagged with writer/seq in Event.
func msgOfLineLen(target int, tag string, offDigits int) storage.Message {
	m := storage.Message{ID: "00000000-0000-0000-0000-000000000000", Event: tag, Offset: 0}
	// the other fields of a message vary from message to message (a private message, then a broadcast; a signed one, then
	// an unsigned one): what is read back for an entry is that entry's own content, whatever the lines before it held
	var w, k int
	fmt.Sscanf(tag, "w%d-%d", &w, &k)
	if (w+k)%3 == 1 {
		m.RecipientAddr = fmt.Sprintf("participant-%d", k%4)
	}
	if (w+2*k)%4 != 0 {
		m.Signature = bytes.Repeat([]byte{byte(0x30 + (w+k)%40)}, 64)
		m.SenderAddr = fmt.Sprintf("writer-%d", w)
	}
	fill := byte('A' + (3*w+k)%26)
	base, _ := json.Marshal(m)
	overhead := len(base) - 1 + offDigits // offset 0 has one digit
	// data is base64: null (4 chars) -> "…" ; choose data length then pad the round id
	if target <= overhead+8 {
		return m
	}
	room := target - overhead - (2 - 4) // replacing null by ""
	d := (room / 4) * 3
	if d < 0 {
		d = 0
	}
	m.Data = bytes.Repeat([]byte{fill}, d)
	b2, _ := json.Marshal(m)
	pad := target - (len(b2) - 1 + offDigits)
	for pad < 0 && d >= 3 {
		d -= 3
		m.Data = m.Data[:d]
		b2, _ = json.Marshal(m)
		pad = target - (len(b2) - 1 + offDigits)
	}
	if pad > 0 {
		m.DkgRoundID = strings.Repeat("r", pad)
	}
	return m
}

func sizeClass(n int) string {
	switch {
	case n < 4096:
		return "<4K"
	case n < 65535:
		return "4K..64K-2"
	case n <= 65537:
		return "64K boundary"
	case n < 1048570:
		return "64K..1M"
	default:
		return "1M boundary"
	}
}

type fileEntry struct {
	ID     string
	Offset uint64
	Size   int
	Tag    string
	// Canon: the line decoded on its own (a fresh value) and written out again
	Canon string
}

// diffFields: the fields in which two messages (as JSON objects) differ, with the lengths of their values
func diffFields(got, want string) string {
	var a, b map[string]json.RawMessage
	json.Unmarshal([]byte(got), &a)
	json.Unmarshal([]byte(want), &b)
	var out []string
	for k, v := range a {
		if string(b[k]) != string(v) {
			out = append(out, fmt.Sprintf("%s: read %d bytes, line has %d", k, len(v), len(b[k])))
		}
	}
	for k, v := range b {
		if _, ok := a[k]; !ok {
			out = append(out, fmt.Sprintf("%s: missing, line has %d bytes", k, len(v)))
		}
	}
	sort.Strings(out)
	return strings.Join(out, "; ")
}

func readBoard(path string) ([]fileEntry, error) {
	raw, err := os.ReadFile(path)
	if err != nil {
		return nil, err
	}
	var out []fileEntry
	for _, ln := range bytes.Split(raw, []byte("\n")) {
		if len(ln) == 0 {
			continue
		}
		var m storage.Message
		if err := json.Unmarshal(ln, &m); err != nil {
			return nil, fmt.Errorf("bad line: %w", err)
		}
		cz, _ := json.Marshal(m)
		out = append(out, fileEntry{m.ID, m.Offset, len(ln), m.Event, string(cz)})
	}
	return out, nil
}

// openBoard: with the lock file named, or - lock "" - as a node started without one does (the storage's default lock)
func openBoard(path, lock string) (storage.Storage, error) {
	if lock == "" {
		return file_storage.NewFileStorage(path)
	}
	return file_storage.NewFileStorage(path, lock)
}

// spellings of one file: the writers of a board do not have to agree on how they write its path
func spelling(path string, w int) string {
	dir, base := filepath.Dir(path), filepath.Base(path)
	switch w % 4 {
	case 1:
		return dir + "/./" + base
	case 2:
		return dir + "/../" + filepath.Base(dir) + "/" + base
	case 3:
		os.Symlink(dir, dir+"-link")
		if _, err := os.Stat(dir + "-link"); err == nil {
			return filepath.Join(dir+"-link", base)
		}
	}
	return path
}

func runBoardWriter(path, lock string, w int, sizes []int) error {
	fs, err := openBoard(path, lock)
	if err != nil {
		return err
	}
	defer fs.Close()
	// messages go out in batches of 1..4 per Send call, as the node does with the result messages of an operation
	// (one deal per participant); the lock is taken per message, so other writers may get in between
	for k := 0; k < len(sizes); {
		n := 1 + (k+w)%4
		if k+n > len(sizes) {
			n = len(sizes) - k
		}
		batch := make([]storage.Message, n)
		for j := 0; j < n; j++ {
			batch[j] = msgOfLineLen(sizes[k+j], fmt.Sprintf("w%d-%d", w, k+j), 1)
		}
		if err := fs.Send(batch...); err != nil {
			return err
		}
		k += n
	}
	return nil
}

func runBoardDiff(outDir string, seed int64, tier string) {
	os.MkdirAll(outDir, 0o755)
	fo, _ := os.Create(filepath.Join(outDir, "ops.txt"))
	fb, _ := os.Create(filepath.Join(outDir, "go_obs.txt"))
	ops := bufio.NewWriterSize(fo, 1<<20)
	obs := bufio.NewWriterSize(fb, 1<<20)
	st := &boardStats{OutcomeHist: map[string]int{}, SizeClasses: map[string]int{}}
	rng := rand.New(rand.NewSource(seed))
	emit := func(op, ob string) {
		fmt.Fprintln(ops, op)
		fmt.Fprintln(obs, ob)
		st.Ops++
		st.OutcomeHist[strings.SplitN(op, " ", 2)[0]+"/"+strings.SplitN(ob, " ", 2)[0]]++
		if len(st.Samples) < 10 && (st.Ops%37 == 3) {
			st.Samples = append(st.Samples, truncate(op, 160)+" => "+truncate(ob, 160))
		}
	}
	// a second stream: the odd-line histories in the terms of Model/BoardLines.lean (driver mode `boardlines`)
	flo, _ := os.Create(filepath.Join(outDir, "boardlines_ops.txt"))
	flb, _ := os.Create(filepath.Join(outDir, "boardlines_obs.txt"))
	lops := bufio.NewWriter(flo)
	lobs := bufio.NewWriter(flb)
	defer func() { lops.Flush(); lobs.Flush(); flo.Close(); flb.Close() }()
	emitL := func(op, ob string) {
		fmt.Fprintln(lops, op)
		fmt.Fprintln(lobs, ob)
		st.LineOps++
	}
	self, _ := os.Executable()
	histories := 14
	if tier == "thorough" {
		histories = 90
	}
	distinct := map[int]bool{}
	special := []int{0, 120, 4095, 4096, 4097, 65534, 65535, 65536, 65537, 70000, 131072, 300000, 1048570, 1048572}
	for h := 0; h < histories; h++ {
		dir, _ := os.MkdirTemp(outDir, "board")
		path := filepath.Join(dir, "data.txt")
		lock := filepath.Join(dir, "lock")
		writers := 1 + rng.Intn(4)
		if writers > st.MaxWriters {
			st.MaxWriters = writers
		}
		useProcs := h%4 == 3
		// every third history: nobody names a lock file (as dc4bc_d does), at least two writers, and each writes the path of
		// the board in its own way
		defaultLock := h%3 == 2
		if defaultLock {
			lock = ""
			if writers < 2 {
				writers = 2 + rng.Intn(3)
			}
			st.DefaultLockHistories++
		}
		plan := make([][]int, writers)
		total := 0
		for w := range plan {
			n := 2 + rng.Intn(5)
			if defaultLock {
				// many short messages from each: what is looked for is two writers inside "count the lines, append" at once
				n = 40 + rng.Intn(40)
			}
			for k := 0; k < n; k++ {
				var sz int
				if defaultLock {
					plan[w] = append(plan[w], 100+rng.Intn(400))
					total++
					continue
				}
				switch rng.Intn(5) {
				case 0, 1:
					sz = 100 + rng.Intn(3000)
				case 2:
					sz = special[rng.Intn(len(special))]
				case 3:
					sz = 65530 + rng.Intn(12)
				default:
					sz = 1000 + rng.Intn(200000)
				}
				if sz > 300000 && total > 3 {
					sz = 100 + rng.Intn(500) // keep files small: a few big lines per history
				}
				plan[w] = append(plan[w], sz)
				total++
			}
		}
		var wg sync.WaitGroup
		errs := make([]error, writers)
		// readers WHILE the writers run (every node polls the board while the others post): a read returns an error or a
		// piece of the log - entries at consecutive positions from the offset asked for, each as it is in the final file
		type snapshot struct {
			from int
			got  []string
		}
		var snaps []snapshot
		var snapMu sync.Mutex
		stopReaders := make(chan struct{})
		var rwg sync.WaitGroup
		for rd := 0; rd < 2; rd++ {
			rwg.Add(1)
			go func(rd int) {
				defer rwg.Done()
				var kept storage.Storage
				if rd == 0 {
					if ks, err := openBoard(path, lock); err == nil {
						kept = ks
						defer kept.Close()
					}
				}
				from := 0
				for i := 0; i < 400; i++ {
					select {
					case <-stopReaders:
						return
					default:
					}
					var msgs []storage.Message
					var err error
					if kept != nil {
						msgs, err = kept.GetMessages(uint64(from))
					} else if fs, e := openBoard(path, lock); e == nil {
						msgs, err = fs.GetMessages(uint64(from))
						fs.Close()
					} else {
						err = e
					}
					if err == nil {
						sn := snapshot{from: from}
						for _, m := range msgs {
							sn.got = append(sn.got, fmt.Sprintf("%d:%s", m.Offset, m.ID))
						}
						snapMu.Lock()
						if len(snaps) < 4000 {
							snaps = append(snaps, sn)
						}
						snapMu.Unlock()
						// like a poller: sometimes go on from what was seen, sometimes look again from an earlier offset
						if i%3 != 2 {
							from += len(msgs)
						} else if from > 0 {
							from--
						}
					}
					time.Sleep(time.Duration(200+100*rd) * time.Microsecond)
				}
			}(rd)
		}
		for w := 0; w < writers; w++ {
			wg.Add(1)
			go func(w int) {
				defer wg.Done()
				wpath := path
				if defaultLock {
					wpath = spelling(path, w)
				}
				if useProcs {
					lk := lock
					if lk == "" {
						lk = "-"
					}
					args := []string{"boardwriter", wpath, lk, fmt.Sprint(w)}
					for _, s := range plan[w] {
						args = append(args, fmt.Sprint(s))
					}
					out, err := exec.Command(self, args...).CombinedOutput()
					if err != nil {
						errs[w] = fmt.Errorf("%v: %s", err, out)
					}
				} else {
					errs[w] = runBoardWriter(wpath, lock, w, plan[w])
				}
			}(w)
		}
		wg.Wait()
		close(stopReaders)
		rwg.Wait()
		for w, e := range errs {
			if e != nil {
				st.Monitors = append(st.Monitors, fmt.Sprintf("C16 send_failed: history %d writer %d: %v", h, w, e))
			}
		}
		if final, err := readBoard(path); err == nil {
			reported := 0
			for _, sn := range snaps {
				st.ConcurrentReads++
				for k, g := range sn.got {
					pos := sn.from + k
					if pos >= len(final) || g != fmt.Sprintf("%d:%s", final[pos].Offset, final[pos].ID) || int(final[pos].Offset) != pos {
						if reported < 3 {
							reported++
							have := "nothing"
							if pos < len(final) {
								have = fmt.Sprintf("%d:%s", final[pos].Offset, final[pos].ID)
							}
							st.Monitors = append(st.Monitors, fmt.Sprintf("C16 read_during_write: history %d (%d writers, procs=%v): a read from offset %d made while the writers ran returned %s as its entry %d; position %d of the final log holds %s", h, writers, useProcs, sn.from, g, k, pos, have))
						}
						break
					}
				}
			}
		}
		st.Histories++
		if useProcs {
			st.ProcessHistories++
		}
		entries, err := readBoard(path)
		if err != nil {
			st.Monitors = append(st.Monitors, fmt.Sprintf("C16 unreadable_file: history %d: %v", h, err))
			os.RemoveAll(dir)
			os.Remove(dir + "-link")
			os.Remove(dir + "-link")
			continue
		}
		emit("reset", "reset")
		// the observed linearisation: the model must predict every offset
		seenTag := map[string]int{}
		lastSeq := map[string]int{}
		for pos, e := range entries {
			emit(fmt.Sprintf("send %s %d", hs(e.ID), e.Size), fmt.Sprintf("off %d", e.Offset))
			st.Sends++
			distinct[e.Size] = true
			st.SizeClasses[sizeClass(e.Size)]++
			if int(e.Offset) != pos {
				st.Monitors = append(st.Monitors, fmt.Sprintf("C16 offset_eq_position: history %d (%d writers, procs=%v): entry at position %d has offset %d (line sizes so far: %v)", h, writers, useProcs, pos, e.Offset, sizesOf(entries[:pos+1])))
			}
			seenTag[e.Tag]++
			var w, k int
			fmt.Sscanf(e.Tag, "w%d-%d", &w, &k)
			key := fmt.Sprint(w)
			if last, ok := lastSeq[key]; ok && k != last+1 {
				st.Monitors = append(st.Monitors, fmt.Sprintf("C16 order: history %d writer %d: message %d after %d", h, w, k, last))
			}
			lastSeq[key] = k
		}
		for w := range plan {
			for k := range plan[w] {
				if c := seenTag[fmt.Sprintf("w%d-%d", w, k)]; c != 1 {
					st.Monitors = append(st.Monitors, fmt.Sprintf("C16 exactly_once: history %d message w%d-%d appears %d times", h, w, k, c))
				}
			}
		}
		contentReports := 0
		// reads from fresh handles: every offset, some ignore lists
		for r := 0; r < len(entries)+2; r++ {
			var ignIDs, ignOffs []string
			if rng.Intn(3) == 0 && len(entries) > 0 {
				for j := 0; j < 1+rng.Intn(2); j++ {
					ignIDs = append(ignIDs, entries[rng.Intn(len(entries))].ID)
				}
			}
			if rng.Intn(3) == 0 && len(entries) > 0 {
				for j := 0; j < 1+rng.Intn(2); j++ {
					ignOffs = append(ignOffs, fmt.Sprint(rng.Intn(len(entries)+1)))
				}
			}
			fs, err := openBoard(path, lock)
			if err != nil {
				continue
			}
			fs.IgnoreMessages(ignIDs, false)
			fs.IgnoreMessages(ignOffs, true)
			msgs, err := fs.GetMessages(uint64(r))
			fs.Close()
			ob := "err"
			if err == nil {
				parts := make([]string, len(msgs))
				for i, m := range msgs {
					parts[i] = fmt.Sprintf("%d:%s", m.Offset, hs(m.ID))
					// every entry comes back as it was written: the message decoded from its own line, all of it (payload,
					// signature, recipient …), whatever stood on the lines before it
					if int(m.Offset) < len(entries) && entries[m.Offset].ID == m.ID {
						st.ContentsCompared++
						if cz, _ := json.Marshal(m); string(cz) != entries[m.Offset].Canon && contentReports < 5 {
							contentReports++
							st.Monitors = append(st.Monitors, fmt.Sprintf("C16 read_suffix: history %d GetMessages(%d): the entry at offset %d comes back different from the line that holds it: %s", h, r, m.Offset, truncate(diffFields(string(cz), entries[m.Offset].Canon), 300)))
						}
					}
				}
				ob = "ok [" + strings.Join(parts, ",") + "]"
			}
			idTok, offTok := "-", "-"
			if len(ignIDs) > 0 {
				hx := make([]string, len(ignIDs))
				for i, s := range ignIDs {
					hx[i] = hs(s)
				}
				idTok = strings.Join(hx, ",")
			}
			if len(ignOffs) > 0 {
				offTok = strings.Join(ignOffs, ",")
			}
			emit(fmt.Sprintf("read %d %s %s", r, idTok, offTok), ob)
			st.Reads++
			// monitor read_suffix directly
			var want []string
			for pos, e := range entries {
				if pos < r || contains(ignIDs, e.ID) || contains(ignOffs, fmt.Sprint(e.Offset)) {
					continue
				}
				want = append(want, fmt.Sprintf("%d:%s", pos, hs(e.ID)))
			}
			if wantOb := "ok [" + strings.Join(want, ",") + "]"; wantOb != ob {
				st.Monitors = append(st.Monitors, fmt.Sprintf("C16 read_suffix: history %d GetMessages(%d) ignoring ids=%v offs=%v returned %s, expected %s (line sizes: %v)", h, r, len(ignIDs), ignOffs, truncate(ob, 200), truncate(wantOb, 200), sizesOf(entries)))
			}
		}
		// a follower: ONE reader handle kept open while the log grows (what a node's poller does), with an ignore list that
		// comes to cover entries it has already read; every read must still be the suffix from its offset, minus the ignored
		func() {
			path2 := filepath.Join(dir, "follow.txt")
			lock2 := filepath.Join(dir, "follow.lock")
			w, err := file_storage.NewFileStorage(path2, lock2)
			if err != nil {
				return
			}
			defer w.Close()
			rd, err := file_storage.NewFileStorage(path2, lock2)
			if err != nil {
				return
			}
			defer rd.Close()
			emit("reset", "reset")
			var ignIDs, ignOffs []string
			next, known, seq := 0, 0, 0
			for round := 0; round < 5; round++ {
				var batch []storage.Message
				for j := 0; j < 1+rng.Intn(3); j++ {
					batch = append(batch, storage.Message{DkgRoundID: "follow", Event: fmt.Sprintf("f%d-%d", h, seq), Data: bytes.Repeat([]byte{'x'}, 10+rng.Intn(300))})
					seq++
				}
				if err := w.Send(batch...); err != nil {
					st.Monitors = append(st.Monitors, fmt.Sprintf("C16 send_failed: follower history %d: %v", h, err))
					return
				}
				es, err := readBoard(path2)
				if err != nil {
					st.Monitors = append(st.Monitors, fmt.Sprintf("C16 unreadable_file: follower history %d: %v", h, err))
					return
				}
				for _, e := range es[known:] {
					emit(fmt.Sprintf("send %s %d", hs(e.ID), e.Size), fmt.Sprintf("off %d", e.Offset))
					st.Sends++
				}
				known = len(es)
				// before the read: ignore something it has NOT read yet (an entry just appended, by id or by offset) —
				// what a node started with an ignore list does
				if len(es) > next && round%2 == 0 {
					e := es[next+rng.Intn(len(es)-next)]
					if rng.Intn(2) == 0 {
						ignIDs = append(ignIDs, e.ID)
						rd.IgnoreMessages([]string{e.ID}, false)
					} else {
						ignOffs = append(ignOffs, fmt.Sprint(e.Offset))
						rd.IgnoreMessages([]string{fmt.Sprint(e.Offset)}, true)
					}
				}
				msgs, err := rd.GetMessages(uint64(next))
				ob := "err"
				if err == nil {
					parts := make([]string, len(msgs))
					for i, m := range msgs {
						parts[i] = fmt.Sprintf("%d:%s", m.Offset, hs(m.ID))
					}
					ob = "ok [" + strings.Join(parts, ",") + "]"
				}
				idTok, offTok := "-", "-"
				if len(ignIDs) > 0 {
					hx := make([]string, len(ignIDs))
					for i, x := range ignIDs {
						hx[i] = hs(x)
					}
					idTok = strings.Join(hx, ",")
				}
				if len(ignOffs) > 0 {
					offTok = strings.Join(ignOffs, ",")
				}
				emit(fmt.Sprintf("read %d %s %s", next, idTok, offTok), ob)
				st.Reads++
				st.FollowerReads++
				var want []string
				for pos, e := range es {
					if pos < next || contains(ignIDs, e.ID) || contains(ignOffs, fmt.Sprint(e.Offset)) {
						continue
					}
					want = append(want, fmt.Sprintf("%d:%s", pos, hs(e.ID)))
				}
				if wantOb := "ok [" + strings.Join(want, ",") + "]"; wantOb != ob {
					st.Monitors = append(st.Monitors, fmt.Sprintf("C16 read_suffix: follower history %d, round %d: the same handle, GetMessages(%d) ignoring ids=%d offs=%v returned %s, expected %s", h, round, next, len(ignIDs), ignOffs, truncate(ob, 200), truncate(wantOb, 200)))
				}
				if len(msgs) > 0 {
					next = int(msgs[len(msgs)-1].Offset) + 1
				}
				// grow the ignore list: something already read, by id or by offset
				if len(es) > 0 {
					switch round % 3 {
					case 0:
						id := es[rng.Intn(len(es))].ID
						ignIDs = append(ignIDs, id)
						rd.IgnoreMessages([]string{id}, false)
					case 1:
						off := fmt.Sprint(rng.Intn(len(es)))
						ignOffs = append(ignOffs, off)
						rd.IgnoreMessages([]string{off}, true)
					}
				}
			}
		}()
		// file sizes that a chunked reader would treat specially: the log is brought to EXACTLY k * 4 KiB / 32 KiB / 64 KiB / 1 MiB by a
		// padded message, then written to again (alternately through two handles); every entry must carry its position
		if h%4 == 1 {
			func() {
				path4 := filepath.Join(dir, "sized.txt")
				lock4 := filepath.Join(dir, "sized.lock")
				var hs2 []storage.Storage
				for k := 0; k < 2; k++ {
					fsx, err := file_storage.NewFileStorage(path4, lock4)
					if err != nil {
						return
					}
					defer fsx.Close()
					hs2 = append(hs2, fsx)
				}
				targets := []int64{4096, 32768, 65536, 2 * 65536}
				if tier == "thorough" {
					targets = append(targets, 8192, 3*32768, 1<<20, (1<<20)+32768)
				}
				sent := 0
				send := func(m storage.Message) bool {
					if err := hs2[sent%2].Send(m); err != nil {
						st.Monitors = append(st.Monitors, fmt.Sprintf("C16 send_failed: sized history %d: %v", h, err))
						return false
					}
					sent++
					return true
				}
				for _, target := range targets {
					if !send(storage.Message{DkgRoundID: "sized", Event: fmt.Sprintf("s%d-%d", h, sent), Data: bytes.Repeat([]byte{'z'}, 10+rng.Intn(200))}) {
						return
					}
					fi, err := os.Stat(path4)
					if err != nil || fi.Size() >= target-200 {
						continue
					}
					need := int(target - fi.Size()) // bytes of the next line, newline included
					if need > 1<<20-1 {
						// not in one line the reader accepts: fill up with lines of 512 KiB first
						for need > 1<<20-1 {
							if !send(msgOfLineLen(512*1024-1, fmt.Sprintf("w7-%d", sent), len(fmt.Sprint(sent)))) {
								return
							}
							fi, _ = os.Stat(path4)
							need = int(target - fi.Size())
						}
					}
					if !send(msgOfLineLen(need-1, fmt.Sprintf("w7-%d", sent), len(fmt.Sprint(sent)))) {
						return
					}
					if fi2, err := os.Stat(path4); err == nil && fi2.Size() == target {
						st.SizeTargetsHit++
					}
					// the write that follows a log of exactly that size
					if !send(storage.Message{DkgRoundID: "sized", Event: fmt.Sprintf("s%d-%d", h, sent), Data: []byte("after")}) {
						return
					}
				}
				es, err := readBoard(path4)
				if err != nil {
					st.Monitors = append(st.Monitors, fmt.Sprintf("C16 unreadable_file: sized history %d: %v", h, err))
					return
				}
				if len(es) != sent {
					st.Monitors = append(st.Monitors, fmt.Sprintf("C16 exactly_once: sized history %d: %d messages sent, %d lines in the log", h, sent, len(es)))
				}
				var total int64
				for pos, e := range es {
					st.Sends++
					if int(e.Offset) != pos {
						st.Monitors = append(st.Monitors, fmt.Sprintf("C16 offset_eq_position: sized history %d: the entry at position %d, appended when the log was exactly %d bytes long, carries offset %d", h, pos, total, e.Offset))
					}
					total += int64(e.Size) + 1
				}
				for k := 0; k <= len(es); k += 1 + len(es)/7 {
					msgs, err := hs2[0].GetMessages(uint64(k))
					st.Reads++
					if err != nil || len(msgs) != len(es)-k {
						st.Monitors = append(st.Monitors, fmt.Sprintf("C16 read_suffix: sized history %d: GetMessages(%d) returned %d entries (err %v), the log has %d from there on", h, k, len(msgs), err, len(es)-k))
					}
				}
			}()
		}
		// a message no reader accepts: whoever may post to the board may post a message of 1 MiB or more through the ordinary Send.
		// Either Send refuses it, or the board must stay readable: a board that every GetMessages fails on ends every node's
		// Poll loop (the daemon exits, and exits again after every restart: the offset never gets past that line)
		if h%7 == 2 {
			func() {
				path5 := filepath.Join(dir, "huge.txt")
				lock5 := filepath.Join(dir, "huge.lock")
				w, err := file_storage.NewFileStorage(path5, lock5)
				if err != nil {
					return
				}
				defer w.Close()
				rd, err := file_storage.NewFileStorage(path5, lock5)
				if err != nil {
					return
				}
				defer rd.Close()
				small := func(k int) storage.Message {
					return storage.Message{DkgRoundID: "huge", Event: fmt.Sprintf("g%d-%d", h, k), Data: []byte("small")}
				}
				if err := w.Send(small(0)); err != nil {
					return
				}
				for _, size := range []int{1<<20 - 100, 1 << 20, 1<<20 + 4096} {
					big := storage.Message{DkgRoundID: "huge", Event: fmt.Sprintf("big-%d", size), Data: bytes.Repeat([]byte{'B'}, size*3/4)}
					errSend := w.Send(big)
					_ = w.Send(small(size))
					st.HugeSends++
					if _, err := rd.GetMessages(0); err != nil && errSend == nil {
						st.Monitors = append(st.Monitors, fmt.Sprintf("C18 board_stays_readable: huge history %d: Send accepted a message of about %d bytes (a line of %d bytes or more), and since then GetMessages fails for every reader at every offset (%s): every node's Poll loop ends on it, again after every restart", h, size, size, truncate(err.Error(), 100)))
						return
					}
				}
			}()
		}
		// lines that are no messages: (a) a writer PROCESS that dies in the middle of an append leaves a tail without a newline
		// (a separate handle writes the first half of a line, as the kernel does when the process is killed or the disk is full);
		// (b) a complete line that does not decode (whoever may write to the board file may write anything); (c) a line that
		// decodes but spells out only some fields. Afterwards: every message SENT gets the offset of its position, every sent
		// message is read back as sent (no field carried over from the line before), and the board stays readable for everybody.
		if h%5 == 1 {
			for _, kind := range []string{"torn-tail", "garbage-line", "sparse-line"} {
				func() {
					path6 := filepath.Join(dir, "odd-"+kind+".txt")
					lock6 := filepath.Join(dir, "odd.lock")
					os.Remove(path6)
					w, err := file_storage.NewFileStorage(path6, lock6)
					if err != nil {
						return
					}
					defer w.Close()
					rd, err := file_storage.NewFileStorage(path6, lock6)
					if err != nil {
						return
					}
					defer rd.Close()
					mk := func(k int) storage.Message {
						return storage.Message{DkgRoundID: fmt.Sprintf("odd-%d", k), Event: fmt.Sprintf("o%d-%d", h, k), Data: []byte(fmt.Sprintf("data-%d", k)), Signature: []byte(fmt.Sprintf("sig-%d", k)), SenderAddr: fmt.Sprintf("s%d", k), RecipientAddr: fmt.Sprintf("r%d", k)}
					}
					var sent []storage.Message
					modelled := kind != "sparse-line" // (a line that decodes but was not written by Send has no counterpart in the model)
					if modelled {
						emitL("reset", "reset")
					}
					send := func(k int) bool {
						m := mk(k)
						ms := []storage.Message{m}
						if err := w.Send(ms...); err != nil {
							st.Monitors = append(st.Monitors, fmt.Sprintf("C16 send_failed: odd-line history %d (%s): %v", h, kind, err))
							return false
						}
						sent = append(sent, ms[0])
						if modelled {
							lz, _ := json.Marshal(ms[0])
							emitL(fmt.Sprintf("send %s %d", hs(ms[0].ID), len(lz)), fmt.Sprintf("off %d", ms[0].Offset))
						}
						return true
					}
					if !send(0) || !send(1) {
						return
					}
					raw, err := os.OpenFile(path6, os.O_APPEND|os.O_WRONLY, 0644)
					if err != nil {
						return
					}
					switch kind {
					case "torn-tail":
						half, _ := json.Marshal(mk(99))
						raw.Write(half[:len(half)/2])
						emitL(fmt.Sprintf("dies %d", len(half)/2), "ok")
					case "garbage-line":
						raw.Write([]byte("\x00\x01 not a message {\n"))
						emitL("garbage 19", "ok")
					case "sparse-line":
						raw.Write([]byte(`{"id":"sparse","offset":2,"event":"sparse-event"}` + "\n"))
					}
					raw.Close()
					st.OddLines++
					if !send(2) || !send(3) {
						return
					}
					es, err := readBoard(path6)
					_ = es
					got, gerr := rd.GetMessages(0)
					if gerr != nil {
						st.Monitors = append(st.Monitors, fmt.Sprintf("C18 board_stays_readable: odd-line history %d (%s between two sends): GetMessages(0) fails for every reader from now on (%s): every node's Poll loop ends on it, again after every restart", h, kind, truncate(gerr.Error(), 120)))
						return
					}
					// the lines of the file, as positions
					bz, _ := os.ReadFile(path6)
					lines := strings.Split(strings.TrimSuffix(string(bz), "\n"), "\n")
					for _, m := range sent {
						pos := -1
						for i, l := range lines {
							var lm storage.Message
							if json.Unmarshal([]byte(l), &lm) == nil && lm.ID == m.ID && lm.Event == m.Event {
								pos = i
							}
						}
						if pos < 0 {
							st.Monitors = append(st.Monitors, fmt.Sprintf("C16 exactly_once: odd-line history %d (%s): the message %s sent after the odd line is on no line of its own (glued to the line before it?)", h, kind, m.Event))
							return
						}
						if uint64(pos) != m.Offset {
							st.Monitors = append(st.Monitors, fmt.Sprintf("C16 offset_eq_position: odd-line history %d (%s): the message %s was given offset %d and stands at position %d", h, kind, m.Event, m.Offset, pos))
							return
						}
						found := false
						for _, g := range got {
							if g.ID == m.ID {
								found = true
								if g.Event != m.Event || string(g.Data) != string(m.Data) || string(g.Signature) != string(m.Signature) || g.SenderAddr != m.SenderAddr || g.RecipientAddr != m.RecipientAddr || g.DkgRoundID != m.DkgRoundID {
									st.Monitors = append(st.Monitors, fmt.Sprintf("C16 read_suffix: odd-line history %d (%s): the message %s comes back different from what was sent", h, kind, m.Event))
									return
								}
							}
						}
						if !found {
							st.Monitors = append(st.Monitors, fmt.Sprintf("C16 read_suffix: odd-line history %d (%s): GetMessages(0) does not return the sent message %s", h, kind, m.Event))
							return
						}
					}
					// nothing that was not sent borrows the fields of the line before it
					for _, g := range got {
						if g.ID == "sparse" && (len(g.Data) > 0 || len(g.Signature) > 0 || g.SenderAddr != "" || g.DkgRoundID != "") {
							st.Monitors = append(st.Monitors, fmt.Sprintf("C18 line_is_its_own: odd-line history %d: a line that spells out id, offset and event only is handed to the node with data %q, signature %q, sender %q, round %q - the fields of the line BEFORE it (one message variable is decoded into for every line): a signed message is shown again under another event by a line that does not even carry it", h, g.Data, g.Signature, g.SenderAddr, g.DkgRoundID))
							return
						}
					}
					// reads from every offset: the sent messages from that position on
					for off := 0; off <= len(lines); off++ {
						part, err := rd.GetMessages(uint64(off))
						if modelled {
							ob := "err"
							if err == nil {
								ps := make([]string, len(part))
								for i, m := range part {
									ps[i] = fmt.Sprintf("%d:%s", m.Offset, hs(m.ID))
								}
								ob = "ok [" + strings.Join(ps, ",") + "]"
							}
							emitL(fmt.Sprintf("read %d - -", off), ob)
						}
						if err != nil {
							st.Monitors = append(st.Monitors, fmt.Sprintf("C18 board_stays_readable: odd-line history %d (%s): GetMessages(%d) fails: %s", h, kind, off, truncate(err.Error(), 100)))
							return
						}
						want := 0
						for _, m := range sent {
							if int(m.Offset) >= off {
								want++
							}
						}
						have := 0
						for _, g := range part {
							for _, m := range sent {
								if g.ID == m.ID {
									have++
								}
							}
						}
						if have != want {
							st.Monitors = append(st.Monitors, fmt.Sprintf("C16 read_suffix: odd-line history %d (%s): GetMessages(%d) returns %d of the sent messages, %d stand at or after that position", h, kind, off, have, want))
							return
						}
					}
				}()
			}
		}
		// entries that MENTION the id of an ignored entry (a reply quoting it in its round id, event, sender or recipient), and an
		// ignore list holding an empty string (a trailing comma on the command line): ignoring by id drops the entries whose id
		// is on the list, no other
		if h%5 == 2 {
			func() {
				path7 := filepath.Join(dir, "mention.txt")
				lock7 := filepath.Join(dir, "mention.lock")
				os.Remove(path7)
				w, err := file_storage.NewFileStorage(path7, lock7)
				if err != nil {
					return
				}
				defer w.Close()
				first := []storage.Message{{DkgRoundID: "mention", Event: fmt.Sprintf("m%d-first", h), Data: []byte("the entry that will be ignored")}}
				if err := w.Send(first...); err != nil || first[0].ID == "" {
					return
				}
				id := first[0].ID
				rest := []storage.Message{
					{DkgRoundID: "about-" + id, Event: "round-mentions", Data: []byte("d1")},
					{DkgRoundID: "mention", Event: "reply-to-" + id, Data: []byte("d2")},
					{DkgRoundID: "mention", Event: "sender-mentions", SenderAddr: id, Data: []byte("d3")},
					{DkgRoundID: "mention", Event: "recipient-mentions", RecipientAddr: id, Data: []byte("d4")},
					{DkgRoundID: "mention", Event: "plain", Data: []byte("d5")},
				}
				if err := w.Send(rest...); err != nil {
					return
				}
				st.MentionHistories++
				for _, list := range [][]string{{id}, {""}, {id, ""}} {
					rd, err := file_storage.NewFileStorage(path7, lock7)
					if err != nil {
						return
					}
					if err := rd.IgnoreMessages(list, false); err != nil {
						rd.Close()
						continue
					}
					got, gerr := rd.GetMessages(0)
					rd.Close()
					if gerr != nil {
						st.Monitors = append(st.Monitors, fmt.Sprintf("C16 read_suffix: mention history %d: GetMessages(0) ignoring ids %q fails: %v", h, list, gerr))
						return
					}
					var want []string
					for _, l := range list {
						if l == id {
							want = nil
							break
						}
						want = []string{first[0].Event}
					}
					for _, m := range rest {
						want = append(want, m.Event)
					}
					var have []string
					for _, g := range got {
						have = append(have, g.Event)
					}
					if strings.Join(have, ",") != strings.Join(want, ",") {
						st.Monitors = append(st.Monitors, fmt.Sprintf("C16 read_suffix: mention history %d: GetMessages(0) ignoring the ids %q returned the entries [%s], expected [%s] (the entries after the first mention its id in their round id, event, sender, recipient)", h, list, strings.Join(have, ","), strings.Join(want, ",")))
						return
					}
				}
			}()
		}
		// a node's handle: the poller reads through the very handle the node's own requests send through (one FileStorage
		// per node process: tick() calls GetMessages, StartDKG / ProposeSignMessages / executeOperation / SendMessage call Send),
		// while another node writes through its own handle. Every message must still get the offset of its position, and every
		// read must be the entries from its offset on.
		if h%4 == 0 {
			func() {
				path3 := filepath.Join(dir, "node.txt")
				lock3 := filepath.Join(dir, "node.lock")
				own, err := file_storage.NewFileStorage(path3, lock3)
				if err != nil {
					return
				}
				defer own.Close()
				other, err := file_storage.NewFileStorage(path3, lock3)
				if err != nil {
					return
				}
				defer other.Close()
				const perWriter = 150
				done := make(chan struct{})
				var wg sync.WaitGroup
				var sendErrs, readErrs []string
				var mu sync.Mutex
				for wi, hd := range []storage.Storage{own, other} {
					wg.Add(1)
					go func(wi int, hd storage.Storage) {
						defer wg.Done()
						for k := 0; k < perWriter; k++ {
							if err := hd.Send(storage.Message{DkgRoundID: "node", Event: fmt.Sprintf("n%d-%d-%d", h, wi, k), Data: bytes.Repeat([]byte{'y'}, 20+(k*37)%400)}); err != nil {
								mu.Lock()
								sendErrs = append(sendErrs, err.Error())
								mu.Unlock()
								return
							}
						}
					}(wi, hd)
				}
				type readRes struct {
					from uint64
					msgs []storage.Message
				}
				var reads []readRes
				pollDone := make(chan struct{})
				go func() {
					defer close(pollDone)
					var next uint64
					for {
						select {
						case <-done:
							return
						default:
						}
						msgs, err := own.GetMessages(next)
						if err != nil {
							mu.Lock()
							readErrs = append(readErrs, err.Error())
							mu.Unlock()
							continue
						}
						reads = append(reads, readRes{next, msgs})
						if len(msgs) > 0 {
							next += uint64(len(msgs))
						}
					}
				}()
				wg.Wait()
				close(done)
				<-pollDone
				st.SameHandleHistories++
				es, err := readBoard(path3)
				if err != nil {
					st.Monitors = append(st.Monitors, fmt.Sprintf("C16 unreadable_file: node-handle history %d: %v", h, err))
					return
				}
				for _, e := range sendErrs {
					st.Monitors = append(st.Monitors, fmt.Sprintf("C16 send_failed: node-handle history %d: %s", h, truncate(e, 160)))
				}
				if len(es) != 2*perWriter && len(sendErrs) == 0 {
					st.Monitors = append(st.Monitors, fmt.Sprintf("C16 exactly_once: node-handle history %d: %d messages sent, %d lines in the log", h, 2*perWriter, len(es)))
				}
				bad := 0
				for pos, e := range es {
					st.Sends++
					if int(e.Offset) != pos {
						bad++
						if bad <= 2 {
							st.Monitors = append(st.Monitors, fmt.Sprintf("C16 offset_eq_position: node-handle history %d (a poller reading through the handle its own process sends through, a second writer on its own handle): the entry at position %d carries offset %d", h, pos, e.Offset))
						}
					}
				}
				if bad > 2 {
					st.Monitors = append(st.Monitors, fmt.Sprintf("C16 offset_eq_position: node-handle history %d: %d of %d entries carry an offset that is not their position", h, bad, len(es)))
				}
				if len(readErrs) > 0 {
					st.Monitors = append(st.Monitors, fmt.Sprintf("C16 read_suffix: node-handle history %d: %d reads through the sending handle failed, first: %s", h, len(readErrs), truncate(readErrs[0], 160)))
				}
				wrong := 0
				for _, r := range reads {
					st.Reads++
					for i, m := range r.msgs {
						pos := int(r.from) + i
						if pos >= len(es) || es[pos].ID != m.ID {
							wrong++
							if wrong == 1 {
								st.Monitors = append(st.Monitors, fmt.Sprintf("C16 read_suffix: node-handle history %d: GetMessages(%d) through the sending handle returned at index %d a message that is not the entry at position %d", h, r.from, i, pos))
							}
							break
						}
					}
				}
			}()
		}
		os.RemoveAll(dir)
		os.Remove(dir + "-link")
		os.Remove(dir + "-link")
	}
	st.DistinctSizes = len(distinct)
	ops.Flush()
	obs.Flush()
	fo.Close()
	fb.Close()
	sort.Strings(st.Monitors)
	if len(st.Monitors) > 40 {
		st.Monitors = st.Monitors[:40]
	}
	writeJSON(filepath.Join(outDir, "stats.json"), st)
	fmt.Printf("boarddiff: ops=%d histories=%d sends=%d reads=%d monitors=%d\n", st.Ops, st.Histories, st.Sends, st.Reads, len(st.Monitors))
}

func sizesOf(es []fileEntry) []int {
	out := make([]int, len(es))
	for i, e := range es {
		out[i] = e.Size
	}
	return out
}

func contains(l []string, s string) bool {
	for _, x := range l {
		if x == s {
			return true
		}
	}
	return false
}
