package main

// cluster: N real hot nodes (BaseNodeService on LevelDBState + FileStorage + repositories) and N
// real airgapped machines in one process, driven step by step by the harness: the harness decides
// when a node polls, when a participant's pending operation is carried to its airgapped machine
// and back. No goroutines, no sleeps: every schedule is reproducible.

import (
	"context"
	"crypto/ed25519"
	"crypto/sha256"
	"encoding/hex"
	"encoding/json"
	"fmt"
	"io"
	"log"
	"os"
	"path/filepath"
	"sort"
	"strings"
	"time"

	"github.com/lidofinance/dc4bc/airgapped"
	"github.com/lidofinance/dc4bc/client/api/dto"
	"github.com/lidofinance/dc4bc/client/config"
	"github.com/lidofinance/dc4bc/client/modules/keystore"
	"github.com/lidofinance/dc4bc/client/modules/state"
	oprepo "github.com/lidofinance/dc4bc/client/repositories/operation"
	sigrepo "github.com/lidofinance/dc4bc/client/repositories/signature"
	"github.com/lidofinance/dc4bc/client/services"
	"github.com/lidofinance/dc4bc/client/services/fsmservice"
	"github.com/lidofinance/dc4bc/client/services/node"
	"github.com/lidofinance/dc4bc/client/services/operation"
	"github.com/lidofinance/dc4bc/client/services/signature"
	"github.com/lidofinance/dc4bc/client/types"
	spf "github.com/lidofinance/dc4bc/fsm/state_machines/signature_proposal_fsm"
	"github.com/lidofinance/dc4bc/fsm/types/requests"
	"github.com/lidofinance/dc4bc/storage"
	"github.com/lidofinance/dc4bc/storage/file_storage"
)

const topic = "verif"

type memLogger struct {
	name  string
	lines []string
	// failed: offset of a message the poll tick could not process -> the error it logged
	failed map[uint64]string
}

func (l *memLogger) Log(format string, args ...interface{}) {
	if strings.HasPrefix(format, "Failed to process message with offset") && len(args) >= 2 {
		if off, ok := args[0].(uint64); ok {
			if l.failed == nil {
				l.failed = map[uint64]string{}
			}
			l.failed[off] = fmt.Sprint(args[1])
		}
	}
	if len(l.lines) < 20000 {
		l.lines = append(l.lines, fmt.Sprintf(format, args...))
	}
}

// stateWrap lets the harness observe / interrupt every state-store call of a node.
type stateWrap struct {
	inner state.State
	hook  func(op, key string, value []byte) error // returning an error aborts the call (crash injection)
	// readHook is told about the calls that are not writes and not keyed reads (LoadOffset)
	readHook func(op string)
}

func (s *stateWrap) call(op, key string, v []byte) error {
	if s.hook != nil {
		return s.hook(op, key, v)
	}
	return nil
}
func (s *stateWrap) Get(key string) ([]byte, error) {
	if err := s.call("get", key, nil); err != nil {
		return nil, err
	}
	return s.inner.Get(key)
}
func (s *stateWrap) GetOrError(key string) ([]byte, error) {
	if err := s.call("get", key, nil); err != nil {
		return nil, err
	}
	return s.inner.GetOrError(key)
}
func (s *stateWrap) Set(key string, value []byte) error {
	if err := s.call("set", key, value); err != nil {
		return err
	}
	return s.inner.Set(key, value)
}
func (s *stateWrap) Delete(key string) error {
	if err := s.call("delete", key, nil); err != nil {
		return err
	}
	return s.inner.Delete(key)
}
func (s *stateWrap) Reset(p string) (string, error) {
	if s.readHook != nil {
		s.readHook("reset")
	}
	return s.inner.Reset(p)
}
func (s *stateWrap) SaveOffset(o uint64) error {
	if err := s.call("saveoffset", "offset", nil); err != nil {
		return err
	}
	return s.inner.SaveOffset(o)
}
func (s *stateWrap) LoadOffset() (uint64, error) {
	if s.readHook != nil {
		s.readHook("loadoffset")
	}
	return s.inner.LoadOffset()
}

// storageWrap: same for the board handle of a node.
type storageWrap struct {
	inner storage.Storage
	hook  func(op string, msgs []storage.Message) error
	// mute: sends are swallowed (replicas replaying a log); filter: the node is shown only these messages
	mute   bool
	filter func(storage.Message) bool
	// rewrite: the node is shown every message in this form (a log whose stamps are all moved back, C08)
	rewrite func(storage.Message) storage.Message
	// readHook is told about GetMessages / IgnoreMessages
	readHook func(op string)
	// limit: at most so many messages per read (a tick that brings only the next k messages); lastRead: what the last read returned
	limit    int
	lastRead []storage.Message
}

func (s *storageWrap) Send(m ...storage.Message) error {
	if s.hook != nil {
		if err := s.hook("send", m); err != nil {
			return err
		}
	}
	if s.mute {
		return nil
	}
	return s.inner.Send(m...)
}
func (s *storageWrap) GetMessages(o uint64) ([]storage.Message, error) {
	if s.readHook != nil {
		s.readHook("getmessages")
	}
	ms, err := s.inner.GetMessages(o)
	if err != nil {
		return ms, err
	}
	out := ms
	if s.filter != nil || s.rewrite != nil {
		out = nil
		for _, m := range ms {
			if s.filter == nil || s.filter(m) {
				if s.rewrite != nil {
					m = s.rewrite(m)
				}
				out = append(out, m)
			}
		}
	}
	if s.limit > 0 && len(out) > s.limit {
		out = out[:s.limit]
	}
	s.lastRead = out
	return out, nil
}
func (s *storageWrap) Close() error { return s.inner.Close() }
func (s *storageWrap) IgnoreMessages(m []string, u bool) error {
	if s.readHook != nil {
		s.readHook("ignoremessages")
	}
	return s.inner.IgnoreMessages(m, u)
}
func (s *storageWrap) UnignoreMessages() { s.inner.UnignoreMessages() }

type vnode struct {
	// cancel ends the context the node service was created with (its Poll loop returns)
	cancel context.CancelFunc
	idx    int
	name   string
	dir    string
	ldb    *state.LevelDBState
	st     *stateWrap
	stg    *storageWrap
	ks     keystore.KeyStore
	kp     *keystore.KeyPair
	fsmSvc fsmservice.FSMService
	opSvc  operation.OperationService
	sigSvc signature.SignatureService
	svc    node.NodeService
	air    *airgapped.Machine
	lg     *memLogger
	// participants that do not answer (slow / silent) are skipped by processOps
	silent bool
	// every operation carried to the airgapped machine, in order
	coldLog []types.Operation
}

type cluster struct {
	dir   string
	board string
	lock  string
	nodes []*vnode
	// resultHook, if set, sees every airgapped result before it is handed to the participant's node (a participant
	// controls both of its machines, so it may alter its own results)
	resultHook func(n *vnode, res *types.Operation)
	// cacheResults: an operation is carried to the airgapped machine once; if its result has to be submitted
	// again (the node died in between) the operator submits the same result file
	cacheResults bool
	resultCache  map[string][]byte
	// rawResultHook sees the bytes of every result file
	rawResultHook func(n *vnode, rb []byte)
	crafted       int
	// airTrace, if set, writes down every key-generation operation a machine handles in the abstract form of
	// Model/AirDkg.lean (airdkg.go)
	airTrace *airTrace
	// password of the airgapped machines (a machine that is restarted is unlocked with it again)
	password string
	// dbFault, if it says yes for an operation, makes the database of that participant's airgapped machine unavailable while
	// the machine handles the operation (storage fault); the machine is restarted on its database right afterwards
	dbFault func(n *vnode, cold types.Operation) bool
	// resultMon, if set, is told about a key-generation result file that reports a failure AND carries other messages
	resultMon func(string)
}

var testMnemonics = []string{
	"legal winner thank year wave sausage worth useful legal winner thank yellow",
	"letter advice cage absurd amount doctor acoustic avoid letter advice cage above",
	"zoo zoo zoo zoo zoo zoo zoo zoo zoo zoo zoo wrong",
	"abandon abandon abandon abandon abandon abandon abandon abandon abandon abandon abandon about",
	"legal winner thank year wave sausage worth useful legal winner thank year wave sausage worth useful legal will",
	"letter advice cage absurd amount doctor acoustic avoid letter advice cage absurd amount doctor acoustic avoid letter always",
	"zoo zoo zoo zoo zoo zoo zoo zoo zoo zoo zoo zoo zoo zoo zoo zoo zoo when",
	"abandon abandon abandon abandon abandon abandon abandon abandon abandon abandon abandon abandon abandon abandon abandon abandon abandon agent",
}

func init() {
	log.SetOutput(io.Discard) // the airgapped machine logs through the std logger
}

// buildNodeServices (re)creates everything a node process creates at start, on the given directories.
func (c *cluster) buildNodeServices(n *vnode) error {
	var err error
	n.ldb, err = state.NewLevelDBState(filepath.Join(n.dir, "state"), topic)
	if err != nil {
		return err
	}
	n.st = &stateWrap{inner: n.ldb}
	fs, err := file_storage.NewFileStorage(c.board, c.lock)
	if err != nil {
		return err
	}
	n.stg = &storageWrap{inner: fs}
	opRepo, err := oprepo.NewOperationRepo(n.st, topic)
	if err != nil {
		return err
	}
	n.opSvc = operation.NewOperationService(opRepo)
	n.sigSvc = signature.NewSignatureService(sigrepo.NewSignatureRepo(n.st))
	n.fsmSvc = fsmservice.NewFSMService(n.st, n.stg, topic)
	sp := services.ServiceProvider{}
	sp.SetLogger(n.lg)
	sp.SetState(n.st)
	sp.SetKeyStore(n.ks)
	sp.SetStorage(n.stg)
	sp.SetFSMService(n.fsmSvc)
	sp.SetOperationService(n.opSvc)
	sp.SetSignatureService(n.sigSvc)
	cfg := config.Config{Username: n.name, KeyStoreDBDSN: filepath.Join(n.dir, "keystore"),
		HttpApiConfig: &config.HttpApiConfig{}, KafkaStorageConfig: &config.KafkaStorageConfig{Topic: topic}}
	if n.cancel != nil {
		n.cancel()
	}
	var ctx context.Context
	ctx, n.cancel = context.WithCancel(context.Background())
	n.svc, err = node.NewNode(ctx, &cfg, &sp)
	return err
}

// clusterNames, when set, are the user names of the next clusters' participants (default node_0, node_1, …)
var clusterNames []string

func newCluster(dir string, n int, password string) (*cluster, error) {
	c := &cluster{dir: dir, board: filepath.Join(dir, "board.txt"), lock: filepath.Join(dir, "board.lock"), password: password}
	os.MkdirAll(dir, 0o755)
	for i := 0; i < n; i++ {
		name := fmt.Sprintf("node_%d", i)
		if i < len(clusterNames) {
			name = clusterNames[i]
		}
		v := &vnode{idx: i, name: name, dir: filepath.Join(dir, fmt.Sprintf("n%d", i))}
		os.MkdirAll(v.dir, 0o755)
		v.lg = &memLogger{name: v.name}
		var err error
		v.ks, err = keystore.NewLevelDBKeyStore(v.name, filepath.Join(v.dir, "keystore"))
		if err != nil {
			return nil, err
		}
		v.kp = keystore.NewKeyPair()
		if err := v.ks.PutKeys(v.name, v.kp); err != nil {
			return nil, err
		}
		if err := c.buildNodeServices(v); err != nil {
			return nil, err
		}
		v.air, err = airgapped.NewMachine(filepath.Join(v.dir, "airgapped"))
		if err != nil {
			return nil, err
		}
		v.air.SetEncryptionKey([]byte(password))
		if err := v.air.SetBaseSeed(testMnemonics[i%len(testMnemonics)]); err != nil {
			return nil, err
		}
		if err := v.air.InitKeys(); err != nil {
			return nil, err
		}
		os.MkdirAll(filepath.Join(v.dir, "results"), 0o755)
		v.air.SetResultFolder(filepath.Join(v.dir, "results"))
		c.nodes = append(c.nodes, v)
	}
	return c, nil
}

func (c *cluster) close() {
	for _, n := range c.nodes {
		if n.ldb != nil {
			n.ldb.VerifClose()
		}
		if n.stg != nil {
			n.stg.Close()
		}
		if n.air != nil {
			n.air.VerifCloseDB()
		}
		if ks, ok := n.ks.(interface{ Close() error }); ok {
			ks.Close()
		}
	}
}

type pollEvent struct {
	Offset uint64
	Event  string
	Sender string
	Err    string
	Mine   bool
}

// pollOnce is one tick of the node's own poll loop (BaseNodeService.tick through the hook VerifTick: what Poll runs every
// time its ticker fires), shown at most max messages (0: all that are there).
func (c *cluster) pollOnce(n *vnode, max int) ([]pollEvent, error) {
	tk, ok := n.svc.(interface{ VerifTick() error })
	if !ok {
		return nil, fmt.Errorf("the node service has no VerifTick hook (built without -tags verif?)")
	}
	n.stg.limit = max
	n.stg.lastRead = nil
	n.lg.failed = nil
	err := tk.VerifTick()
	n.stg.limit = 0
	if err != nil {
		return nil, err
	}
	var out []pollEvent
	for _, m := range n.stg.lastRead {
		pe := pollEvent{Offset: m.Offset, Event: m.Event, Sender: m.SenderAddr, Mine: m.RecipientAddr == "" || m.RecipientAddr == n.name}
		pe.Err = n.lg.failed[m.Offset]
		out = append(out, pe)
	}
	return out, nil
}

func opToDTO(o *types.Operation) *dto.OperationDTO {
	return &dto.OperationDTO{ID: o.ID, Type: string(o.Type), Payload: o.Payload, ResultMsgs: o.ResultMsgs, CreatedAt: o.CreatedAt,
		DkgID: o.DKGIdentifier, To: o.To, Event: o.Event, ExtraData: o.ExtraData}
}

// pendingOps returns the node's pending operations in a deterministic order.
func (n *vnode) pendingOps() []*types.Operation {
	ops, err := n.opSvc.GetOperations()
	if err != nil {
		return nil
	}
	ids := make([]string, 0, len(ops))
	for id := range ops {
		ids = append(ids, id)
	}
	sort.Strings(ids)
	out := make([]*types.Operation, 0, len(ids))
	for _, id := range ids {
		out = append(out, ops[id])
	}
	return out
}

// answerOp carries one pending operation through the JSON file exchange to the airgapped machine
// and the result back to the node, exactly as the operator does.
func (c *cluster) answerOp(n *vnode, op *types.Operation) error {
	// hot -> cold: JSON (QR / file)
	bz, err := json.Marshal(op)
	if err != nil {
		return err
	}
	var cold types.Operation
	if err := json.Unmarshal(bz, &cold); err != nil {
		return err
	}
	if string(cold.Type) == string(spf.StateAwaitParticipantsConfirmations) {
		return n.svc.ApproveParticipation(&dto.OperationIdDTO{OperationID: cold.ID})
	}
	var rb []byte
	if cached, ok := c.resultCache[n.name+"/"+cold.ID]; ok && c.cacheResults {
		rb = cached
	} else {
		n.coldLog = append(n.coldLog, cold)
		var path string
		if c.dbFault != nil && c.dbFault(n, cold) {
			path, err = c.processWithDBFault(n, cold)
		} else {
			path, err = n.air.ProcessOperation(cold, true)
		}
		if err != nil {
			if c.airTrace != nil {
				c.airTrace.record(c, n, cold, nil, err)
			}
			return fmt.Errorf("airgapped: %w", err)
		}
		rb, err = os.ReadFile(path)
		if err != nil {
			return err
		}
		os.Remove(path)
		if c.airTrace != nil {
			c.airTrace.record(c, n, cold, rb, nil)
		}
		if c.cacheResults {
			if c.resultCache == nil {
				c.resultCache = map[string][]byte{}
			}
			c.resultCache[n.name+"/"+cold.ID] = rb
		}
	}
	if c.rawResultHook != nil {
		c.rawResultHook(n, rb)
	}
	var res types.Operation
	if err := json.Unmarshal(rb, &res); err != nil {
		return fmt.Errorf("result file: %w", err)
	}
	if c.resultMon != nil && strings.HasPrefix(string(cold.Type), "state_dkg_") && strings.Contains(string(res.Event), "error") && len(res.ResultMsgs) != 1 {
		var evs []string
		for _, rm := range res.ResultMsgs {
			evs = append(evs, rm.Event)
		}
		c.resultMon(fmt.Sprintf("the machine of %s answers the %s operation of round %.8s with the failure event %s, and the result file carries %d messages for the board: %s", n.name, cold.Type, cold.DKGIdentifier, res.Event, len(res.ResultMsgs), strings.Join(evs, ", ")))
	}
	if c.resultHook != nil {
		c.resultHook(n, &res)
	}
	return n.svc.ProcessOperation(opToDTO(&res))
}

// processWithDBFault: the LevelDB of n's airgapped machine is closed while the machine handles the operation (whatever the
// handler wants to read from or write to the database fails; the operation log cannot be written either, so the result file
// is produced without logging, the way ReplayOperationsLog produces one). Then the operator restarts the machine on the same
// database directory and unlocks it with the same password.
func (c *cluster) processWithDBFault(n *vnode, cold types.Operation) (string, error) {
	n.air.VerifCloseDB()
	path, err := n.air.ProcessOperation(cold, false)
	m, e := airgapped.NewMachine(filepath.Join(n.dir, "airgapped"))
	if e != nil {
		return "", fmt.Errorf("harness: the machine does not restart after the storage fault: %w", e)
	}
	m.SetEncryptionKey([]byte(c.password))
	if e := m.InitKeys(); e != nil {
		m.VerifCloseDB()
		return "", fmt.Errorf("harness: the restarted machine does not unlock: %w", e)
	}
	m.SetResultFolder(filepath.Join(n.dir, "results"))
	n.air = m
	return path, err
}

func (c *cluster) answerAll(n *vnode) (int, []string) {
	var errs []string
	k := 0
	for _, op := range n.pendingOps() {
		if err := c.answerOp(n, op); err != nil {
			errs = append(errs, fmt.Sprintf("%s op %s: %v", n.name, op.Type, err))
		}
		k++
	}
	return k, errs
}

// pump: poll every node and answer every pending operation of every non-silent node until nothing moves.
func (c *cluster) pump(maxRounds int) (errs []string) {
	for r := 0; r < maxRounds; r++ {
		moved := 0
		for _, n := range c.nodes {
			evs, err := c.pollOnce(n, 0)
			if err != nil {
				errs = append(errs, fmt.Sprintf("%s poll: %v", n.name, err))
			}
			moved += len(evs)
		}
		for _, n := range c.nodes {
			if n.silent {
				continue
			}
			k, e := c.answerAll(n)
			moved += k
			errs = append(errs, e...)
		}
		if moved == 0 {
			return
		}
	}
	errs = append(errs, "pump: no quiescence")
	return
}

// startDKG posts the opening proposal from node 0; returns the round id.
func (c *cluster) startDKG(threshold int) (string, error) {
	var parts []*requests.SignatureProposalParticipantsEntry
	for _, n := range c.nodes {
		pk, err := n.air.GetPubKey().MarshalBinary()
		if err != nil {
			return "", err
		}
		parts = append(parts, &requests.SignatureProposalParticipantsEntry{Username: n.name, PubKey: n.kp.Pub, DkgPubKey: pk})
	}
	req := requests.SignatureProposalParticipantsListRequest{Participants: parts, SigningThreshold: threshold, CreatedAt: time.Now()}
	bz, err := json.Marshal(req)
	if err != nil {
		return "", err
	}
	h := sha256.Sum256(bz)
	return hex.EncodeToString(h[:]), c.nodes[0].svc.StartDKG(&dto.StartDkgDTO{Payload: bz})
}

func (c *cluster) roundState(n *vnode, round string) string {
	d, err := n.fsmSvc.GetFSMDump(&dto.DkgIdDTO{DkgID: round})
	if err != nil {
		return "?" + err.Error()
	}
	return string(d.State)
}

func (c *cluster) proposeData(n *vnode, round string, data map[string][]byte) error {
	id, _ := hex.DecodeString(round)
	return n.svc.ProposeSignMessages(&dto.ProposeSignBatchMessagesDTO{DkgID: id, Data: data})
}

func (c *cluster) proposeRange(n *vnode, round string, start, end int) error {
	id, _ := hex.DecodeString(round)
	return n.svc.ProposeSignMessages(&dto.ProposeSignBatchMessagesDTO{DkgID: id, Range: &dto.Range{Start: start, End: end}})
}

// proposeTasks posts a signing proposal with exactly these tasks, built and signed as ProposeSignMessages does (the API
// cannot produce a repeated identifier or a mix of ranges and explicit payloads; a participant writing to the board can)
func (c *cluster) proposeTasks(n *vnode, round string, tasks []requests.SigningTask) (string, error) {
	inst, err := n.fsmSvc.GetFSMInstance(round, false)
	if err != nil {
		return "", err
	}
	pid, err := inst.GetIDByUsername(n.name)
	if err != nil {
		return "", err
	}
	c.crafted++
	batch := requests.SigningBatchProposalStartRequest{BatchID: fmt.Sprintf("crafted-batch-%d", c.crafted), ParticipantId: pid, CreatedAt: time.Now(), SigningTasks: tasks}
	bz, err := json.Marshal(batch)
	if err != nil {
		return "", err
	}
	m := storage.Message{ID: fmt.Sprintf("crafted-%d", c.crafted), DkgRoundID: round, Event: "event_signing_start", Data: bz, SenderAddr: n.name}
	m.Signature = ed25519.Sign(n.kp.Priv, m.Bytes())
	return batch.BatchID, n.stg.Send(m)
}

func (c *cluster) boardMessages() []storage.Message {
	fs, err := file_storage.NewFileStorage(c.board, c.lock)
	if err != nil {
		return nil
	}
	defer fs.Close()
	ms, _ := fs.GetMessages(0)
	return ms
}

// silenceStdout: the airgapped machine prints progress bars with fmt.Print
func silenceStdout() func() {
	old := os.Stdout
	devnull, err := os.OpenFile(os.DevNull, os.O_WRONLY, 0)
	if err != nil {
		return func() {}
	}
	os.Stdout = devnull
	done := false
	return func() {
		if !done {
			done = true
			os.Stdout = old
			devnull.Close()
		}
	}
}
