package main

// fsmdiff: drives the real state_machines.{Create, FromDump, FSMInstance.Do} and writes
//   <out>/ops.txt      the command script (one op per line, also fed to the Lean driver)
//   <out>/go_obs.txt   one canonical observation per op
// Modes: exhaustive BFS over an abstract alphabet for small n, and seeded random walks.

import (
	"bufio"
	"bytes"
	"crypto/ed25519"
	"encoding/hex"
	"encoding/json"
	"fmt"
	"hash/fnv"
	"math/rand"
	"os"
	"path/filepath"
	"reflect"
	"sort"
	"strconv"
	"strings"
	"time"

	"github.com/corestario/kyber"
	"github.com/corestario/kyber/pairing"
	"github.com/corestario/kyber/pairing/bls12381"
	"github.com/corestario/kyber/share"
	"github.com/lidofinance/dc4bc/client/api/dto"
	"github.com/lidofinance/dc4bc/client/modules/state"
	"github.com/lidofinance/dc4bc/client/services/fsmservice"
	"github.com/lidofinance/dc4bc/dkg"
	"github.com/lidofinance/dc4bc/fsm/fsm"
	sm "github.com/lidofinance/dc4bc/fsm/state_machines"
	"github.com/lidofinance/dc4bc/fsm/types/requests"
)

const baseT = int64(1700000000) * 1000000000
const day = int64(86400) * 1000000000

func parseTimeTok(s string) time.Time {
	if s == "z" {
		return time.Time{}
	}
	n, err := strconv.ParseInt(s, 10, 64)
	if err != nil {
		panic("bad time token " + s)
	}
	return time.Unix(0, n).UTC()
}

func unhexTok(s string) []byte {
	if !strings.HasPrefix(s, "x") {
		panic("bad hex token " + s)
	}
	b, err := hex.DecodeString(s[1:])
	if err != nil {
		panic(err)
	}
	if b == nil {
		b = []byte{}
	}
	return b
}

func atoi(s string) int {
	n, err := strconv.Atoi(s)
	if err != nil {
		panic(err)
	}
	return n
}

func optErr(tok string) *requests.FSMError {
	if tok == "-" {
		return nil
	}
	return &requests.FSMError{ErrorMsg: string(unhexTok(tok))}
}

// buildReq turns arg tokens into the request value handed to Do (what FSMRequestFromMessage produces).
func buildReq(t []string) interface{} {
	switch t[0] {
	case "sigInit":
		n := atoi(t[3])
		r := requests.SignatureProposalParticipantsListRequest{SigningThreshold: atoi(t[1]), CreatedAt: parseTimeTok(t[2])}
		for i := 0; i < n; i++ {
			g := t[4+3*i:]
			if g[0] == "NIL" {
				// a JSON null in the participant list decodes to a nil entry
				r.Participants = append(r.Participants, nil)
				continue
			}
			r.Participants = append(r.Participants, &requests.SignatureProposalParticipantsEntry{
				Username: string(unhexTok(g[0])), PubKey: unhexTok(g[1]), DkgPubKey: unhexTok(g[2])})
		}
		return r
	case "sigPart":
		return requests.SignatureProposalParticipantRequest{ParticipantId: atoi(t[1]), CreatedAt: parseTimeTok(t[2])}
	case "default":
		return requests.DefaultRequest{CreatedAt: parseTimeTok(t[1])}
	case "commit":
		return requests.DKGProposalCommitConfirmationRequest{ParticipantId: atoi(t[1]), Commit: unhexTok(t[2]), CreatedAt: parseTimeTok(t[3])}
	case "deal":
		return requests.DKGProposalDealConfirmationRequest{ParticipantId: atoi(t[1]), Deal: unhexTok(t[2]), CreatedAt: parseTimeTok(t[3])}
	case "response":
		return requests.DKGProposalResponseConfirmationRequest{ParticipantId: atoi(t[1]), Response: unhexTok(t[2]), CreatedAt: parseTimeTok(t[3])}
	case "masterKey":
		return requests.DKGProposalMasterKeyConfirmationRequest{ParticipantId: atoi(t[1]), MasterKey: unhexTok(t[2]), CreatedAt: parseTimeTok(t[3]), PubPolyBz: unhexTok(t[4])}
	case "dkgErr":
		return requests.DKGProposalConfirmationErrorRequest{ParticipantId: atoi(t[1]), Error: optErr(t[2]), CreatedAt: parseTimeTok(t[3])}
	case "signStart":
		k := atoi(t[4])
		r := requests.SigningBatchProposalStartRequest{BatchID: string(unhexTok(t[1])), ParticipantId: atoi(t[2]), CreatedAt: parseTimeTok(t[3])}
		for i := 0; i < k; i++ {
			g := t[5+5*i:]
			var pl []byte
			if g[2] != "-" {
				pl = unhexTok(g[2])
			}
			r.SigningTasks = append(r.SigningTasks, requests.SigningTask{MessageID: string(unhexTok(g[0])), File: string(unhexTok(g[1])), Payload: pl, RangeStart: atoi(g[3]), RangeEnd: atoi(g[4])})
		}
		return r
	case "partialSigns":
		k := atoi(t[4])
		r := requests.SigningProposalBatchPartialSignRequests{BatchID: string(unhexTok(t[1])), ParticipantId: atoi(t[2]), CreatedAt: parseTimeTok(t[3])}
		for i := 0; i < k; i++ {
			g := t[5+2*i:]
			r.PartialSigns = append(r.PartialSigns, requests.PartialSign{MessageID: string(unhexTok(g[0])), Sign: unhexTok(g[1])})
		}
		return r
	case "signErr":
		return requests.SignatureProposalConfirmationErrorRequest{ParticipantId: atoi(t[1]), Error: optErr(t[2]), CreatedAt: parseTimeTok(t[3])}
	}
	panic("unknown arg kind " + t[0])
}

type fsmWorld struct {
	keyRotations int
	store        [][]byte // persisted dumps
	last  *sm.FSMInstance
	ops   *bufio.Writer
	obs   *bufio.Writer
	nOps  int
	hist  map[string]int
	mon   *fsmMonitor
	// the node's own round store (fsmservice on a LevelDB state): every kept dump also goes through it (C19)
	svc    fsmservice.FSMService
	svcN   int
	svcMon func(string)
	// steps whose result has been compared with its own restored dump already
	stepSeen map[uint64]bool
}

// storeRoundTrip: SaveFSM, then the three ways the node and the API read a round back (GetFSMInstance without
// creation, GetFSMDump, GetFSMList) must show the saved round, in the saved state, with the saved payload.
func (w *fsmWorld) storeRoundTrip(bz []byte) {
	if w.svc == nil {
		return
	}
	w.svcN++
	id := fmt.Sprintf("stored-%d", w.svcN%8)
	want := rDumpBytes(bz)
	state := dumpStateOf(bz)
	bad := func(what string) {
		w.svcMon(fmt.Sprintf("C19 store_roundtrip: a round saved in %s: %s", state, what))
	}
	if err := w.svc.SaveFSM(id, bz); err != nil {
		bad("SaveFSM fails: " + truncate(err.Error(), 120))
		return
	}
	inst, err := w.svc.GetFSMInstance(id, false)
	if err != nil || inst == nil {
		bad(fmt.Sprintf("GetFSMInstance does not find it (%v)", err))
	} else if back, derr := inst.Dump(); derr != nil || rDumpBytes(back) != want {
		bad("GetFSMInstance gives a different round: " + truncate(rDumpBytes(back), 200) + " instead of " + truncate(want, 200))
	}
	if inst2, err := w.svc.GetFSMInstance(id, true); err == nil && inst2 != nil {
		if back, derr := inst2.Dump(); derr != nil || rDumpBytes(back) != want {
			bad("GetFSMInstance (create if missing) gives a different round: " + truncate(rDumpBytes(back), 200))
		}
	} else {
		bad(fmt.Sprintf("GetFSMInstance (create if missing) fails (%v)", err))
	}
	if d, err := w.svc.GetFSMDump(&dto.DkgIdDTO{DkgID: id}); err != nil || d == nil {
		bad(fmt.Sprintf("GetFSMDump does not find it (%v)", err))
	} else if string(d.State) != state {
		bad("GetFSMDump shows state " + string(d.State))
	}
	if l, err := w.svc.GetFSMList(); err != nil {
		bad("GetFSMList fails: " + truncate(err.Error(), 120))
	} else if l[id] != state {
		bad(fmt.Sprintf("GetFSMList shows %q for it", l[id]))
	}
	if ok, err := w.svc.IsExist(id); err != nil || !ok {
		bad(fmt.Sprintf("IsExist says %v (%v)", ok, err))
	}
}

func dumpStateOf(bz []byte) string {
	var d struct{ State string }
	json.Unmarshal(bz, &d)
	return d.State
}

func (w *fsmWorld) emit(op, ob string) {
	fmt.Fprintln(w.ops, op)
	fmt.Fprintln(w.obs, ob)
	w.nOps++
}

func observe(inst *sm.FSMInstance, resp *fsm.Response, err error, panicked bool) string {
	dumpBz, derr := inst.Dump()
	dumpS := "D{!dump-error}"
	if derr == nil {
		dumpS = rDumpBytes(dumpBz)
	}
	if panicked {
		return "panic"
	}
	if resp == nil {
		return "route " + dumpS
	}
	res := "ok"
	if err != nil {
		res = "err"
	}
	st := string(resp.State)
	if st == "" {
		st = `""`
	}
	cur, _ := inst.State()
	return fmt.Sprintf("%s resp=%s data=%s cur=%s %s", res, st, rResp(resp.Data), string(cur), dumpS)
}

func safeDo(inst *sm.FSMInstance, ev string, req interface{}) (resp *fsm.Response, err error, panicked bool) {
	defer func() {
		if r := recover(); r != nil {
			panicked = true
		}
	}()
	resp, _, err = inst.Do(fsm.Event(ev), req)
	return
}

func (w *fsmWorld) create(id string) int {
	inst, err := sm.Create(id)
	if err != nil {
		panic(err)
	}
	bz, _ := inst.Dump()
	w.store = append(w.store, bz)
	w.emit("create "+hs(id), fmt.Sprintf("created %d", len(w.store)-1))
	return len(w.store) - 1
}

// keyNames: the user names of a round's key table, sorted
func keyNames(inst *sm.FSMInstance) []string {
	d := inst.FSMDump()
	if d == nil || d.Payload == nil {
		return nil
	}
	var out []string
	for n := range d.Payload.PubKeys {
		out = append(out, n)
	}
	sort.Strings(out)
	return out
}

// do applies (ev,args) to a fresh restore of store[idx]; returns observation and whether ok.
func (w *fsmWorld) do(idx int, ev string, args []string) (string, bool) {
	inst, err := sm.FromDump(w.store[idx])
	if err != nil {
		panic("stored dump not restorable: " + err.Error())
	}
	resp, derr, p := safeDo(inst, ev, buildReq(args))
	ob := observe(inst, resp, derr, p)
	w.last = inst
	w.noteStep(idx, ev, args)
	// C19: what comes back from the dump is the round that was in memory - every field, every stamp to the nanosecond (a
	// deadline that moves by a fraction of a second in the dump changes what the restored round answers near it), every
	// byte string byte for byte. After EVERY accepted step, not only those whose state the exploration keeps: a dump that
	// normalises what the round holds makes two different rounds look like one state
	if w.svcMon != nil && resp != nil && derr == nil && !p && w.firstTime(idx, ev, args) {
		if bz, e := inst.Dump(); e == nil {
			if restored, e := sm.FromDump(bz); e == nil {
				if a, b := canonPayload(inst), canonPayload(restored); a != b {
					w.svcMon(fmt.Sprintf("C19 restore_identity: a round in %s (after %s %s) comes back from its dump different from what was in memory %s", dumpStateOf(bz), ev, truncate(strings.Join(args, " "), 100), firstDiff(a, b)))
				}
				// the one edit the node makes to a round outside the machines: a re-initialisation replaces a participant's
				// communication key in the round's key table (reinitDKG: SetPubKeyUsername, Dump, SaveFSM). The round that
				// comes back from that dump is the round with the replaced key
				if names := keyNames(restored); len(names) > 0 && (len(w.store)+len(ev)+len(args))%8 == 0 {
					name := names[(len(w.store)+len(ev))%len(names)]
					rot := bytes.Repeat([]byte{0xC1}, ed25519.PublicKeySize)
					restored.FSMDump().Payload.SetPubKeyUsername(name, rot)
					if bz2, e := restored.Dump(); e == nil {
						if again, e := sm.FromDump(bz2); e == nil {
							w.keyRotations++
							if a, b := canonPayload(restored), canonPayload(again); a != b {
								w.svcMon(fmt.Sprintf("C19 restore_identity: a round in %s whose key table was edited as a re-initialisation does (the communication key of %s replaced), saved and loaded: what comes back differs from what was saved %s", dumpStateOf(bz), name, firstDiff(a, b)))
							} else if k, e := again.GetPubKeyByUsername(name); e != nil || !bytes.Equal(k, rot) {
								w.svcMon(fmt.Sprintf("C19 restore_identity: a round in %s whose key table was edited as a re-initialisation does, saved and loaded: the replaced communication key of %s is not the one the loaded round verifies with", dumpStateOf(bz), name))
							}
						}
					}
				}
			}
		}
	}
	// C19 "every state a round can reach can be saved": the round object, restored from a stored dump, was handed the event
	// and cannot be written down any more, whatever Do answered
	if w.svcMon != nil && !p && strings.Contains(ob, "D{!dump-error}") {
		_, e := inst.Dump()
		cur, _ := inst.State()
		w.svcMon(fmt.Sprintf("C19 unsavable: a round in %s was handed %s %s and is now in %s in memory, where it cannot be saved (Do answers error=%v; Dump: %v)",
			dumpStateOf(w.store[idx]), ev, truncate(strings.Join(args, " "), 160), cur, derr != nil, e))
	}
	if w.mon != nil {
		w.mon.check(w.store[idx], inst, ev, args, resp != nil && derr == nil && !p, resp == nil, p, idx)
	}
	w.emit(fmt.Sprintf("do %d %s %s", idx, ev, strings.Join(args, " ")), ob)
	w.hist[ev+"/"+strings.SplitN(ob, " ", 2)[0]]++
	return ob, resp != nil && derr == nil && !p
}

// firstTime: the step (stored state, event, arguments) has not been examined before (the exploration repeats its tree edges
// once per alphabet item for the in-memory comparison)
func (w *fsmWorld) firstTime(idx int, ev string, args []string) bool {
	h := fnv.New64a()
	fmt.Fprintf(h, "%d %s %s", idx, ev, strings.Join(args, " "))
	k := h.Sum64()
	if w.stepSeen == nil {
		w.stepSeen = map[uint64]bool{}
	}
	if w.stepSeen[k] {
		return false
	}
	w.stepSeen[k] = true
	return true
}

func (w *fsmWorld) redo(ev string, args []string) string {
	resp, derr, p := safeDo(w.last, ev, buildReq(args))
	ob := observe(w.last, resp, derr, p)
	w.emit(fmt.Sprintf("redo %s %s", ev, strings.Join(args, " ")), ob)
	return ob
}

// canonValue: a value written out field by field at full precision (times as nanoseconds, bytes as hex, map keys sorted),
// independent of the code's own (un)marshalling
func canonValue(v reflect.Value, b *strings.Builder) {
	if !v.IsValid() {
		b.WriteString("nil")
		return
	}
	if t, ok := v.Interface().(time.Time); ok && v.CanInterface() {
		if t.IsZero() {
			b.WriteString("T0")
		} else {
			fmt.Fprintf(b, "T%d", t.UnixNano())
		}
		return
	}
	switch v.Kind() {
	case reflect.Ptr, reflect.Interface:
		if v.IsNil() {
			b.WriteString("nil")
			return
		}
		canonValue(v.Elem(), b)
	case reflect.Struct:
		b.WriteString("{")
		for i := 0; i < v.NumField(); i++ {
			if v.Type().Field(i).PkgPath != "" {
				continue // unexported
			}
			b.WriteString(v.Type().Field(i).Name + "=")
			canonValue(v.Field(i), b)
			b.WriteString(" ")
		}
		b.WriteString("}")
	case reflect.Map:
		keys := v.MapKeys()
		sort.Slice(keys, func(i, j int) bool { return fmt.Sprint(keys[i].Interface()) < fmt.Sprint(keys[j].Interface()) })
		b.WriteString("map[")
		for _, k := range keys {
			fmt.Fprintf(b, "%v:", k.Interface())
			canonValue(v.MapIndex(k), b)
			b.WriteString(" ")
		}
		b.WriteString("]")
	case reflect.Slice:
		if v.Type().Elem().Kind() == reflect.Uint8 {
			fmt.Fprintf(b, "x%x", v.Bytes())
			return
		}
		b.WriteString("[")
		for i := 0; i < v.Len(); i++ {
			canonValue(v.Index(i), b)
			b.WriteString(" ")
		}
		b.WriteString("]")
	default:
		fmt.Fprintf(b, "%v", v.Interface())
	}
}

func canonPayload(inst *sm.FSMInstance) string {
	var b strings.Builder
	d := inst.FSMDump()
	if d == nil {
		return "no-dump"
	}
	canonValue(reflect.ValueOf(d.Payload), &b)
	return b.String()
}

// keep persists the dump of the last instance (as the node does) and restores it.
func (w *fsmWorld) keep() (int, bool) {
	bz, _ := w.last.Dump()
	restored, err := sm.FromDump(bz)
	if err != nil {
		w.emit("keep", "kept-unrestorable")
		return -1, false
	}
	// (C19 restore_identity - what comes back is the round that was in memory - is examined in do, after every accepted
	// step, whether or not the resulting state is kept)
	_ = restored
	w.storeRoundTrip(bz)
	w.unsavedStep()
	w.store = append(w.store, bz)
	w.emit("keep", fmt.Sprintf("kept %d", len(w.store)-1))
	return len(w.store) - 1, true
}

// real public-polynomial encodings (dkg.BLSKeyring.PubPolyBytes): a 2-commitment polynomial and
// the same polynomial extended by a third commitment
var polyTokA, polyTokExt, polyTokC0, polyTokC1 = func() (string, string, string, string) {
	suite := bls12381.NewBLS12381Suite(nil).(pairing.Suite)
	g := suite.G1()
	c := []kyber.Point{g.Point().Mul(g.Scalar().SetInt64(11), nil), g.Point().Mul(g.Scalar().SetInt64(22), nil), g.Point().Mul(g.Scalar().SetInt64(33), nil)}
	a, _ := (&dkg.BLSKeyring{PubPoly: share.NewPubPoly(g, nil, c[:2])}).PubPolyBytes()
	e, _ := (&dkg.BLSKeyring{PubPoly: share.NewPubPoly(g, nil, c)}).PubPolyBytes()
	// the same polynomial with only its constant term / only its last coefficient replaced
	c0, _ := (&dkg.BLSKeyring{PubPoly: share.NewPubPoly(g, nil, []kyber.Point{c[2], c[1]})}).PubPolyBytes()
	c1, _ := (&dkg.BLSKeyring{PubPoly: share.NewPubPoly(g, nil, []kyber.Point{c[0], c[2]})}).PubPolyBytes()
	return hx(a), hx(e), hx(c0), hx(c1)
}()

// nonCanonicalPolys: the real polynomial encoding (JSON) in forms that json.Marshal would not emit itself, as hex tokens:
// indented, and a JSON text with characters that encoding/json escapes ('<', '>', '&', U+2028)
func nonCanonicalPolys() []string {
	var ind bytes.Buffer
	if err := json.Indent(&ind, unhexTok(polyTokA), "", "  "); err != nil {
		panic("the real public polynomial is not JSON: " + err.Error())
	}
	return []string{hx(ind.Bytes()), hx([]byte("{\"PubPoly\": \"<a&b>\u2028\"}"))}
}

type alphaItem struct {
	ev   string
	args []string
	// another opening proposal for the round that is open already; the exhaustive exploration does not offer it to the
	// empty round (there it would only open a different round: a second copy of the whole state space)
	reopen bool
}

func user(i int) string { return fmt.Sprintf("user%d", i) }

func sigInitArgs(n, t int, ts string) []string {
	a := []string{"sigInit", fmt.Sprint(t), ts, fmt.Sprint(n)}
	for i := 0; i < n; i++ {
		a = append(a, hs(user(i)), hx([]byte(fmt.Sprintf("pubkey-of-%d--", i))), hx([]byte(fmt.Sprintf("dkgkey-of-%d--", i))))
	}
	return a
}

// alphabet is the abstract public event alphabet of C05/C06/C19 for n participants.
func alphabet(n int, full bool) []alphaItem {
	T := func(k int64) string { return fmt.Sprint(baseT + k) }
	late := fmt.Sprint(baseT + 8*day)
	var al []alphaItem
	add := func(ev string, args ...string) { al = append(al, alphaItem{ev: ev, args: args}) }
	pids := []int{}
	for i := -1; i <= n; i++ {
		pids = append(pids, i)
	}
	for _, p := range pids {
		ps := fmt.Sprint(p)
		add("event_sig_proposal_confirm_by_participant", "sigPart", ps, T(1))
		add("event_sig_proposal_decline_by_participant", "sigPart", ps, T(1))
		add("event_dkg_commit_confirm_received", "commit", ps, "x01", T(2))
		add("event_dkg_deal_confirm_received", "deal", ps, "x02", T(3))
		add("event_dkg_response_confirm_received", "response", ps, "x03", T(4))
		add("event_dkg_master_key_confirm_received", "masterKey", ps, "xaa", T(5), polyTokA)
		add("event_dkg_commit_confirm_canceled_by_error", "dkgErr", ps, hs("e"), T(2))
		add("event_dkg_deal_confirm_canceled_by_error", "dkgErr", ps, hs("e"), T(3))
		add("event_dkg_response_confirm_canceled_by_error", "dkgErr", ps, hs("e"), T(4))
		add("event_dkg_master_key_confirm_canceled_by_error", "dkgErr", ps, hs("e"), T(5))
		add("event_signing_partial_sign_received", "partialSigns", hs("A"), ps, T(7), "1", hs("m1"), hx([]byte{byte(16 + p + 1)}))
		add("event_signing_partial_sign_error_received", "signErr", ps, hs("e"), T(7))
	}
	// variants on participant 0 / 1
	add("event_sig_proposal_confirm_by_participant", "sigPart", "0", late)
	add("event_sig_proposal_confirm_by_participant", "sigPart", "0", "z")
	add("event_dkg_commit_confirm_received", "commit", "0", "x", T(2))
	add("event_dkg_commit_confirm_received", "commit", "0", "x01", late)
	// a contribution without content (every phase's request must carry its payload)
	add("event_dkg_deal_confirm_received", "deal", "0", "x", T(3))
	add("event_dkg_response_confirm_received", "response", "0", "x", T(4))
	add("event_dkg_master_key_confirm_received", "masterKey", "0", "x", T(5), polyTokA)
	add("event_dkg_deal_confirm_received", "deal", "0", "x02", late)
	add("event_dkg_response_confirm_received", "response", "0", "x03", late)
	add("event_dkg_master_key_confirm_received", "masterKey", "0", "xaa", late, polyTokA)
	add("event_dkg_master_key_confirm_received", "masterKey", "1", "xbb", T(5), polyTokA)   // mismatching key
	add("event_dkg_master_key_confirm_received", "masterKey", "1", "xaa", T(5), polyTokExt) // same key, the polynomial extended by one commitment
	add("event_dkg_master_key_confirm_received", "masterKey", "1", "xaa", T(5), "x51")      // same key, junk polynomial
	add("event_dkg_master_key_confirm_received", "masterKey", "1", "xaa", T(5), polyTokC0)  // same key, a polynomial that differs in its constant term only
	add("event_dkg_master_key_confirm_received", "masterKey", "1", "xaa", T(5), polyTokC1)  // … in its last coefficient only
	add("event_dkg_master_key_confirm_received", "masterKey", "1", "xaa", T(5), "x")        // same key, NO polynomial (an old machine, or a deviating one)
	if n > 2 {
		add("event_dkg_master_key_confirm_received", "masterKey", fmt.Sprint(n-1), "xaa", T(5), "x") // … as the last announcement
	}
	// the announced polynomial is a byte string the round keeps verbatim and compares byte by byte: the SAME announcement
	// by two participants in forms that a JSON encoder would not emit itself - indented JSON, JSON with an unescaped '<'
	// (the text that is no JSON at all is above) (C19: whatever the round holds comes back from the dump
	// byte for byte; the second, identical announcement is answered alike in memory and after dump+restore)
	// (by participant 1 and by the last one only: participant 0 announces the canonical form, so the signing states are not
	// explored a second and third time with another polynomial)
	ncp := nonCanonicalPolys()
	add("event_dkg_master_key_confirm_received", "masterKey", "1", "xaa", T(5), ncp[0])
	add("event_dkg_master_key_confirm_received", "masterKey", fmt.Sprint(n-1), "xaa", T(5), ncp[1])
	// an answer to the invitation naming an id that was never invited, stamped after the invitation deadline (the unknown
	// id AND the late stamp on one event), from every state - in particular with no and with one answer recorded
	for _, p := range []int{n} {
		add("event_sig_proposal_confirm_by_participant", "sigPart", fmt.Sprint(p), late)
		add("event_sig_proposal_decline_by_participant", "sigPart", fmt.Sprint(p), late)
	}
	// … and the same in the key generation: an uninvited id with a late stamp
	add("event_dkg_commit_confirm_received", "commit", fmt.Sprint(n), "x01", late)
	add("event_dkg_commit_confirm_canceled_by_error", "dkgErr", fmt.Sprint(n), hs("e"), late)
	add("event_dkg_commit_confirm_canceled_by_error", "dkgErr", "0", "-", T(2))
	add("event_signing_partial_sign_received", "partialSigns", hs("B"), "0", T(7), "1", hs("m1"), "x21") // other batch id
	add("event_signing_partial_sign_received", "partialSigns", hs("A"), "0", T(7), "0")                  // empty
	add("event_signing_partial_sign_received", "partialSigns", hs("A"), "1", late, "1", hs("m1"), "x22") // a correct answer, eight days late
	// machine switches and signing control
	add("event_sig_proposal_init", sigInitArgs(n, 2, T(0))...)
	// an opening proposal whose list holds a JSON null (second entry)
	nilArgs := sigInitArgs(n, 2, T(0))
	nilArgs[4+3], nilArgs[4+4], nilArgs[4+5] = "NIL", "x", "x"
	add("event_sig_proposal_init", nilArgs...)
	// the opening proposal once more, for a round that is open already: the same list stamped after the invitation
	// deadline, a shorter list
	al = append(al, alphaItem{ev: "event_sig_proposal_init", args: sigInitArgs(n, 2, late), reopen: true})
	if n > 2 {
		al = append(al, alphaItem{ev: "event_sig_proposal_init", args: sigInitArgs(n-1, 2, T(0)), reopen: true})
	}
	add("event_dkg_init_process", "default", T(1))
	add("event_signing_init", "default", T(6))
	add("event_signing_start", "signStart", hs("A"), "0", T(7), "1", hs("m1"), hs("f"), "x6d", "0", "0")
	add("event_signing_start", "signStart", hs("B"), "1", T(8), "1", hs("m1"), hs("f"), "x6e", "0", "0")
	add("event_signing_start", "signStart", hs(""), "0", T(7), "1", hs("m1"), hs("f"), "x6d", "0", "0")
	// an explicit but empty (non-nil) payload next to a range: must stay an explicit payload
	add("event_signing_start", "signStart", hs("C"), "0", T(7), "2", hs("e1"), hs("f e"), "x", "0", "2", hs("r1"), hs(""), "-", "1", "3")
	// several baked-range tasks in one batch: with a gap, contiguous / overlapping, around an explicit payload
	add("event_signing_start", "signStart", hs("D"), "0", T(7), "2", hs("r1"), hs(""), "-", "10", "13", hs("r2"), hs(""), "-", "20", "22")
	if full {
		add("event_signing_start", "signStart", hs("E"), "0", T(7), "3", hs("r1"), hs(""), "-", "3", "5", hs("r2"), hs(""), "-", "5", "7", hs("r3"), hs(""), "-", "6", "9")
		add("event_signing_start", "signStart", hs("F"), "0", T(7), "3", hs("r1"), hs(""), "-", "30", "31", hs("p"), hs("f"), "x01", "0", "0", hs("r2"), hs(""), "-", "40", "42")
	}
	add("event_signing_restart", "default", T(9))
	// wrong request type, internal and unknown events
	add("event_dkg_commit_confirm_received", "sigPart", "0", T(2))
	add("event_sig_proposal_validate", "default", T(1))
	add("event_dkg_commits_confirmed_internal", "default", T(1))
	add("event_signing_partial_signs_confirmed_internal", "default", T(1))
	add("event_bogus", "default", T(1))
	if !full {
		// quick tier: drop the id = n column duplicates of id = -1 behaviour only for the signing machine
	}
	return al
}

func isHandOver(stateLine string) bool {
	for _, s := range []string{"st=state_sig_proposal_collected ", "st=state_dkg_master_key_collected "} {
		if strings.Contains(stateLine, s) {
			return true
		}
	}
	return false
}

// dumpKey strips the observation down to the rendered dump (the abstract state).
func dumpKey(ob string) string {
	i := strings.Index(ob, "D{")
	if i < 0 {
		return ob
	}
	return ob[i:]
}

type fsmStats struct {
	States, Transitions, OkTransitions, BisimChecked, BisimDiffs, LiveTwinSteps int
	Exhaustive                                                                  bool
	Hist                                                                        map[string]int
	Monitors                                                                    []string
	Samples                                                                     []string
	MonitorChecks                                                               map[string]int
}

// exploreFSM: BFS to the fixpoint (or maxStates) for n participants and threshold t.
func exploreFSM(w *fsmWorld, n, t, maxStates int, bisim bool, st *fsmStats) {
	al := alphabet(n, true)
	root := w.create(fmt.Sprintf("round-%d-%d", n, t))
	seen := map[string]int{}
	type node struct {
		idx    int
		parent int
		via    *alphaItem
	}
	_, ok := w.do(root, "event_sig_proposal_init", sigInitArgs(n, t, fmt.Sprint(baseT)))
	if !ok {
		panic("init failed")
	}
	first, _ := w.keep()
	queue := []node{{root, -1, nil}, {first, root, &alphaItem{ev: "event_sig_proposal_init", args: sigInitArgs(n, t, fmt.Sprint(baseT))}}}
	seen[rDumpBytes(w.store[root])] = root
	seen[rDumpBytes(w.store[first])] = first
	exhaustive := true
	for len(queue) > 0 {
		cur := queue[0]
		queue = queue[1:]
		curKey := rDumpBytes(w.store[cur.idx])
		obsByItem := make([]string, len(al))
		for ai := range al {
			it := &al[ai]
			if it.reopen && cur.idx == root {
				continue
			}
			ob, ok := w.do(cur.idx, it.ev, it.args)
			obsByItem[ai] = ob
			st.Transitions++
			if !ok {
				// C05(4)/C18: a rejected event leaves the persisted round unchanged (the node does not
				// save on error; here: the in-memory dump equals the stored one apart from State:"")
				continue
			}
			st.OkTransitions++
			key := dumpKey(ob)
			if _, dup := seen[key]; dup {
				continue
			}
			if len(w.store) >= maxStates {
				exhaustive = false
				continue
			}
			idx, restorable := w.keep()
			if !restorable {
				st.Monitors = append(st.Monitors, fmt.Sprintf("C19 unrestorable n=%d t=%d after %s %s: %s", n, t, it.ev, strings.Join(it.args, " "), key))
				seen[key] = -1
				continue
			}
			seen[key] = idx
			queue = append(queue, node{idx, cur.idx, it})
			if len(st.Samples) < 6 {
				st.Samples = append(st.Samples, fmt.Sprintf("do %d %s %s => %s", cur.idx, it.ev, strings.Join(it.args, " "), truncate(ob, 300)))
			}
		}
		// C19 bisimulation: continue in memory after the tree edge vs. after dump+restore
		if bisim && cur.via != nil && !isHandOver(curKey+" ") {
			for ai := range al {
				it := &al[ai]
				w.do(cur.parent, cur.via.ev, cur.via.args)
				ob2 := w.redo(it.ev, it.args)
				st.BisimChecked++
				if ob2 != obsByItem[ai] {
					st.BisimDiffs++
					st.Monitors = append(st.Monitors, fmt.Sprintf("C19 bisim n=%d t=%d state %d via %s then %s %s:\n  restored: %s\n  inmemory: %s", n, t, cur.idx, cur.via.ev, it.ev, strings.Join(it.args, " "), obsByItem[ai], ob2))
				}
			}
		}
	}
	st.States += len(seen)
	if !exhaustive {
		st.Exhaustive = false
	}
}

func truncate(s string, n int) string {
	if len(s) <= n {
		return s
	}
	return s[:n] + "…"
}

// randomWalks: long random event sequences with a richer alphabet (n up to 7).
func randomWalks(w *fsmWorld, rng *rand.Rand, walks, steps int, st *fsmStats) {
	for k := 0; k < walks; k++ {
		n := 2 + rng.Intn(6)
		t := 2 + rng.Intn(n-1)
		al := alphabet(n, true)
		idx := w.create(fmt.Sprintf("walk-%d", k))
		if _, ok := w.do(idx, "event_sig_proposal_init", sigInitArgs(n, t, fmt.Sprint(baseT))); ok {
			idx, _ = w.keep()
		}
		// biased walk: mostly follow a happy path order, sometimes random
		for s := 0; s < steps; s++ {
			it := al[rng.Intn(len(al))]
			args := append([]string(nil), it.args...)
			// randomise bytes sometimes
			if rng.Intn(4) == 0 {
				for i, a := range args {
					if strings.HasPrefix(a, "x") && len(a) > 1 && len(a) <= 5 && i > 0 {
						args[i] = hx([]byte{byte(0x20 + rng.Intn(0x5f)), byte(0x20 + rng.Intn(0x5f))})
					}
				}
			}
			_, ok := w.do(idx, it.ev, args)
			st.Transitions++
			if ok {
				st.OkTransitions++
				if ni, r := w.keep(); r {
					idx = ni
				} else {
					st.Monitors = append(st.Monitors, fmt.Sprintf("C19 unrestorable in walk %d after %s", k, it.ev))
					break
				}
			}
		}
	}
}

// guidedWalks follow the ceremony order with random participants order and random perturbations,
// so that deep states (signing with several batches) are reached for n up to 7.
func guidedWalks(w *fsmWorld, rng *rand.Rand, walks int, st *fsmStats, rep *histReporter) {
	T := func(k int64) string { return fmt.Sprint(baseT + k) }
	for k := 0; k < walks; k++ {
		n := 2 + rng.Intn(6)
		t := 2 + rng.Intn(n-1)
		idx := w.create(fmt.Sprintf("guided-%d", k))
		// the same round, never restored: one instance kept in memory for the whole walk (C19: a round restored from its dump
		// answers every event like the round that was never stopped - whatever the machine objects remember besides the dump)
		live, _ := sm.Create(fmt.Sprintf("guided-%d", k))
		h := &roundHistory{label: fmt.Sprintf("guided walk %d", k)}
		step := func(ev string, args ...string) (accepted bool) {
			defer func() { h.note(ev, args, accepted, dumpStateOf(w.store[idx])) }()
			ob, ok := w.do(idx, ev, args)
			if live != nil {
				r, e, p := safeDo(live, ev, buildReq(args))
				st.LiveTwinSteps++
				obL := observe(live, r, e, p)
				kind := func(o string) string { return strings.SplitN(o, " ", 2)[0] }
				okL := r != nil && e == nil && !p
				switch {
				case okL != ok || kind(obL) != kind(ob) || (ok && obL != ob):
					st.Monitors = append(st.Monitors, fmt.Sprintf("C19 restored_answers_alike: guided walk %d (n=%d t=%d), %s %s: the round kept in memory answers %s, the same round restored from its dump %s", k, n, t, ev, truncate(strings.Join(args, " "), 80), truncate(obL, 160), truncate(ob, 160)))
					live = nil
				}
				// (after a refused event the object's own dump is not comparable - its state field is blanked until the next
				// accepted event - but the object goes on: only the kind of answer is compared there, and everything again at
				// the next accepted event)
			}
			st.Transitions++
			if ok {
				st.OkTransitions++
				ni, r := w.keep()
				if !r {
					st.Monitors = append(st.Monitors, fmt.Sprintf("C19 unrestorable in guided walk %d after %s", k, ev))
					return false
				}
				idx = ni
				// an object kept in memory is bound to ONE of the three machines: where a round passes from one machine to the
				// next (invitations collected -> key generation, master key collected -> signing) the node restores it from its
				// dump "by hand" before going on; so does the twin. Everywhere else it stays the same object.
				if live != nil {
					if cur := dumpStateOf(w.store[idx]); cur == "state_sig_proposal_collected" || cur == "state_dkg_master_key_collected" {
						live, _ = sm.FromDump(w.store[idx])
					}
				}
			}
			return ok
		}
		noise := func() {
			al := alphabet(n, true)
			for rng.Intn(3) == 0 {
				it := al[rng.Intn(len(al))]
				step(it.ev, it.args...)
			}
		}
		step("event_sig_proposal_init", sigInitArgs(n, t, T(0))...)
		perm := func() []int { return rng.Perm(n) }
		for _, p := range perm() {
			noise()
			step("event_sig_proposal_confirm_by_participant", "sigPart", fmt.Sprint(p), T(1))
		}
		step("event_dkg_init_process", "default", T(1))
		for _, p := range perm() {
			noise()
			step("event_dkg_commit_confirm_received", "commit", fmt.Sprint(p), hx([]byte{1, byte(p)}), T(2))
		}
		for _, p := range perm() {
			noise()
			step("event_dkg_deal_confirm_received", "deal", fmt.Sprint(p), hx([]byte{2, byte(p)}), T(3))
		}
		for _, p := range perm() {
			noise()
			step("event_dkg_response_confirm_received", "response", fmt.Sprint(p), hx([]byte{3, byte(p)}), T(4))
		}
		for _, p := range perm() {
			noise()
			step("event_dkg_master_key_confirm_received", "masterKey", fmt.Sprint(p), "xaa", T(5), polyTokA)
		}
		step("event_signing_init", "default", T(6))
		for b := 0; b < 3; b++ {
			batch := fmt.Sprintf("B%d", b)
			if b > 0 && rng.Intn(3) == 0 {
				batch = fmt.Sprintf("B%d", b-1) // a batch id that was used before in this round
			}
			step("event_signing_start", "signStart", hs(batch), "0", T(7+int64(b)), "2", hs("m1"), hs("f1"), "x6d", "0", "0", hs("m2"), hs("f2"), "-", "0", "2")
			for _, p := range perm() {
				noise()
				if rng.Intn(5) == 0 {
					step("event_signing_partial_sign_error_received", "signErr", fmt.Sprint(p), hs("boom"), T(8))
				} else {
					bid := batch
					if rng.Intn(4) == 0 && b > 0 {
						bid = fmt.Sprintf("B%d", b-1) // stale batch
					}
					step("event_signing_partial_sign_received", "partialSigns", hs(bid), fmt.Sprint(p), T(8), "2", hs("m1"), hx([]byte{byte(p), byte(b)}), hs("m2"), hx([]byte{byte(p), 9}))
				}
				step("event_signing_restart", "default", T(9))
			}
		}
		// the properties read over the whole history of the round
		rep.checkC05(h)
		rep.checkC06(h)
	}
}

func runFsmDiff(outDir string, seed int64, tier string) {
	os.MkdirAll(outDir, 0o755)
	fo, _ := os.Create(filepath.Join(outDir, "ops.txt"))
	fb, _ := os.Create(filepath.Join(outDir, "go_obs.txt"))
	w := &fsmWorld{ops: bufio.NewWriterSize(fo, 1<<20), obs: bufio.NewWriterSize(fb, 1<<20), hist: map[string]int{}}
	st := &fsmStats{Exhaustive: true}
	w.mon = &fsmMonitor{st: st, seen: map[string]bool{}}
	if ldb, err := state.NewLevelDBState(filepath.Join(outDir, "fsm-store"), "verif"); err == nil {
		w.svc = fsmservice.NewFSMService(ldb, nil, "verif")
		storeSeen := map[string]int{}
		w.svcMon = func(m string) {
			k := monitorKind(m)
			if storeSeen[k]++; storeSeen[k] <= 5 {
				st.Monitors = append(st.Monitors, m)
			}
		}
		defer os.RemoveAll(filepath.Join(outDir, "fsm-store"))
	} else {
		st.Monitors = append(st.Monitors, "harness: fsm store: "+err.Error())
	}
	rng := rand.New(rand.NewSource(seed))
	type cfg struct{ n, t int }
	var cfgs []cfg
	maxStates := 6000
	if tier == "thorough" {
		cfgs = []cfg{{2, 2}, {3, 2}, {3, 3}, {4, 2}, {4, 3}, {4, 4}}
		maxStates = 400000
	} else {
		cfgs = []cfg{{2, 2}, {3, 2}, {3, 3}}
	}
	for _, c := range cfgs {
		exploreFSM(w, c.n, c.t, len(w.store)+maxStates, true, st)
	}
	walks, steps, guided := 60, 120, 40
	if tier == "thorough" {
		walks, steps, guided = 600, 200, 400
	}
	randomWalks(w, rng, walks, steps, st)
	rep := &histReporter{st: st, seen: map[string]int{}}
	scriptedHistories(w, st, rep)
	guidedWalks(w, rng, guided, st, rep)
	w.ops.Flush()
	w.obs.Flush()
	fo.Close()
	fb.Close()
	st.Hist = w.hist
	writeJSON(filepath.Join(outDir, "stats.json"), st)
	fmt.Printf("fsmdiff: ops=%d states=%d transitions=%d ok=%d bisim=%d bisimDiffs=%d exhaustive=%v monitors=%d\n",
		w.nOps, st.States, st.Transitions, st.OkTransitions, st.BisimChecked, st.BisimDiffs, st.Exhaustive, len(st.Monitors))
}
