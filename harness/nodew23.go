package main

// nodediff, part 3 (C15, outside the model's history): a transient fault in the middle of an answer.
//
// The answer to an operation may consist of several board messages (the deals result: one message per other participant and
// the node's own confirmation). While the node submits such an answer, ONE call of its board handle or ONE call of its key
// store fails; ProcessOperation returns the error and the operator does what the error asks for: submits the same result file
// again. Whatever happened in between, the property speaks about the board: the messages of the result are there, each once,
// attributed to the node and signed with its key, the operation is retired and is not answered again.
//
// The board handle used here refuses a Send CALL as a whole (nothing of that call is written): the call that carries the k-th
// message handed to it since the fault was armed. The key store refuses its k-th LoadKeys call.

import (
	"bytes"
	"crypto/ed25519"
	"encoding/json"
	"errors"
	"fmt"
	"os"
	"strings"

	"github.com/lidofinance/dc4bc/client/modules/keystore"
	ctypes "github.com/lidofinance/dc4bc/client/types"
	"github.com/lidofinance/dc4bc/fsm/fsm"
	sm "github.com/lidofinance/dc4bc/fsm/state_machines"
	"github.com/lidofinance/dc4bc/storage"
)

// faultKS lets the harness interrupt the key-store reads of a node.
type faultKS struct {
	inner keystore.KeyStore
	hook  func() error
}

func (k *faultKS) PutKeys(u string, kp *keystore.KeyPair) error { return k.inner.PutKeys(u, kp) }
func (k *faultKS) LoadKeys(u, p string) (*keystore.KeyPair, error) {
	if k.hook != nil {
		if err := k.hook(); err != nil {
			return nil, err
		}
	}
	return k.inner.LoadKeys(u, p)
}

func sameBoardMessage(a, b storage.Message) bool {
	return a.Event == b.Event && a.DkgRoundID == b.DkgRoundID && a.RecipientAddr == b.RecipientAddr && bytes.Equal(a.Data, b.Data)
}

// faultedAnswers runs the scenario once per kind of fault (and the unsaved step of a round, below).
func (r *nodeRun) faultedAnswers(outDir string) {
	for _, kind := range []string{"board", "keystore"} {
		r.faultedAnswer(outDir, kind)
	}
	r.unsavedRoundStep(outDir)
}

// unsavedRoundStep (C19 at the node, outside the model's history): the node loads a round, the machine accepts the message,
// and the write of the new dump fails (a transient fault of the state database): ProcessMessage returns the error and
// nothing is saved. The round of the node is then the saved round: listing it, inspecting it and loading it for the next
// message show the saved state, and the same message handed to the node again is answered as the saved round answers it.
func (r *nodeRun) unsavedRoundStep(outDir string) {
	dir, _ := os.MkdirTemp(outDir, "unsaved")
	defer os.RemoveAll(dir)
	c, err := newCluster(dir, 2, "pw")
	if err != nil {
		r.mon("harness: " + err.Error())
		return
	}
	defer c.close()
	round, err := c.startDKG(2)
	if err != nil {
		r.mon("harness: " + err.Error())
		return
	}
	obs, other := c.nodes[0], c.nodes[1]
	for _, nd := range c.nodes {
		c.pollOnce(nd, 0)
	}
	c.answerAll(other) // the other participant accepts the invitation: its confirmation is on the board
	var msg *storage.Message
	for _, bm := range c.boardMessages() {
		if bm.SenderAddr == other.name && bm.DkgRoundID == round {
			x := bm
			msg = &x
		}
	}
	if msg == nil {
		r.mon("harness: unsavedRoundStep: no confirmation of the other participant on the board")
		return
	}
	storedDump := func() []byte {
		m := map[string][]byte{}
		if bz, _ := obs.ldb.Get(topic + "_fsm_state"); len(bz) > 0 {
			json.Unmarshal(bz, &m)
		}
		return m[round]
	}
	saved := storedDump()
	state := dumpStateOf(saved)
	ref, err := sm.FromDump(saved)
	if err != nil {
		r.mon("harness: unsavedRoundStep: " + err.Error())
		return
	}
	req, err := ctypes.FSMRequestFromMessage(*msg)
	if err != nil {
		r.mon("harness: unsavedRoundStep: " + err.Error())
		return
	}
	refResp, refDump, refErr := ref.Do(fsm.Event(msg.Event), req)
	if refErr != nil || refResp == nil {
		r.st.Notes = append(r.st.Notes, "unsavedRoundStep: the saved round refuses the confirmation, nothing to try")
		return
	}
	faults := 0
	obs.st.hook = func(op, key string, _ []byte) error {
		if op == "set" && key == topic+"_fsm_state" && faults == 0 {
			faults++
			return errors.New("verif: transient failure")
		}
		return nil
	}
	defer func() { obs.st.hook = nil }()
	perr := obs.svc.ProcessMessage(*msg)
	if faults == 0 || perr == nil {
		r.mon(fmt.Sprintf("harness: unsavedRoundStep: the write of the round was not reached / did not fail the message (faults=%d, err=%v)", faults, perr))
		return
	}
	what := fmt.Sprintf("a round saved in %s; %s from %s is accepted by the machine and the write of the new dump fails once (ProcessMessage: %s), nothing is saved", state, msg.Event, other.name, truncate(perr.Error(), 80))
	if now := storedDump(); !bytes.Equal(now, saved) {
		r.st.Notes = append(r.st.Notes, "unsavedRoundStep: the stored round changed although the write failed")
		return
	}
	listed := "?"
	if l, err := obs.fsmSvc.GetFSMList(); err == nil {
		listed = l[round]
	} else {
		listed = "?" + err.Error()
	}
	inspected := c.roundState(obs, round)
	if listed != state || inspected != state {
		r.mon(fmt.Sprintf("C19 load_shows_saved_round: %s: afterwards the round is listed (GetFSMList) in %q and inspected (GetFSMDump) in %q", what, listed, inspected))
	}
	if inst, err := obs.fsmSvc.GetFSMInstance(round, false); err != nil {
		r.mon(fmt.Sprintf("C19 load_shows_saved_round: %s: afterwards the round cannot be loaded: %v", what, err))
	} else if back, derr := inst.Dump(); derr != nil || rDumpBytes(back) != rDumpBytes(saved) {
		r.mon(fmt.Sprintf("C19 load_shows_saved_round: %s: the next load gives a round that is not the saved one (%s)", what, firstDiff(rDumpBytes(back), rDumpBytes(saved))))
	}
	// the same message again (the board delivers it again / the operator has it re-read): the saved round accepts it
	perr2 := obs.svc.ProcessMessage(*msg)
	if perr2 != nil {
		r.mon(fmt.Sprintf("C19 restored_answers_alike: %s: handed the same message again the node refuses it (%s), the saved round accepts it (-> %s)", what, truncate(perr2.Error(), 160), refResp.State))
	} else if now := storedDump(); rDumpBytes(now) != rDumpBytes(refDump) {
		r.mon(fmt.Sprintf("C19 restored_answers_alike: %s: handed the same message again the node accepts it and stores a round that is not what the saved round makes of it (%s)", what, firstDiff(rDumpBytes(now), rDumpBytes(refDump))))
	}
}

func (r *nodeRun) faultedAnswer(outDir, kind string) {
	dir, _ := os.MkdirTemp(outDir, "faultans")
	defer os.RemoveAll(dir)
	n := 3 + r.rng.Intn(2)
	c, err := newCluster(dir, n, "pw")
	if err != nil {
		r.mon("harness: " + err.Error())
		return
	}
	defer c.close()
	obs := c.nodes[r.rng.Intn(n)]
	var ks *faultKS
	if kind == "keystore" {
		// the observed node is started on a key store the harness can interrupt
		ks = &faultKS{inner: obs.ks}
		obs.ks = ks
		obs.ldb.VerifClose()
		obs.stg.Close()
		if err := c.buildNodeServices(obs); err != nil {
			r.mon("harness: faultedAnswers: " + err.Error())
			return
		}
	}
	if _, err := c.startDKG(2); err != nil {
		r.mon("harness: " + err.Error())
		return
	}
	// the ceremony runs until the observed node holds an operation whose answer has several messages
	var op *ctypes.Operation
	var rb []byte
	var res ctypes.Operation
	for i := 0; i < 12 && op == nil; i++ {
		for _, nd := range c.nodes {
			c.pollOnce(nd, 0)
		}
		for _, nd := range c.nodes {
			if nd != obs {
				c.answerAll(nd)
			}
		}
		for _, o := range sortedPending(obs) {
			if string(o.Type) != "state_dkg_deals_await_confirmations" {
				c.answerOp(obs, o)
				continue
			}
			bz, _ := json.Marshal(o)
			var cold ctypes.Operation
			json.Unmarshal(bz, &cold)
			path, err := obs.air.ProcessOperation(cold, true)
			if err != nil {
				r.mon("harness: faultedAnswers: " + err.Error())
				return
			}
			rb, _ = os.ReadFile(path)
			os.Remove(path)
			if json.Unmarshal(rb, &res) != nil {
				return
			}
			op = o
			break
		}
	}
	if op == nil {
		r.mon("harness: faultedAnswers: the observed node never got its deals operation")
		return
	}
	m := len(res.ResultMsgs)
	if m < 2 {
		r.st.Notes = append(r.st.Notes, fmt.Sprintf("faultedAnswers: the deals result of %s has %d message(s), no middle to fail in", obs.name, m))
		return
	}
	k := 2 + r.rng.Intn(m-1) // the fault hits message k of m, 2 <= k <= m
	armed, handed, faults := true, 0, 0
	fault := errors.New("verif: transient failure")
	switch kind {
	case "board":
		obs.stg.hook = func(opName string, msgs []storage.Message) error {
			if opName != "send" || !armed {
				return nil
			}
			first := handed + 1
			handed += len(msgs)
			if first <= k && k <= handed {
				armed = false
				faults++
				return fault // the whole call is refused: nothing of it is written
			}
			return nil
		}
		defer func() { obs.stg.hook = nil }()
	case "keystore":
		ks.hook = func() error {
			if !armed {
				return nil
			}
			handed++
			if handed == k {
				armed = false
				faults++
				return fault
			}
			return nil
		}
		defer func() { ks.hook = nil }()
	}
	what := fmt.Sprintf("a %s result of %d messages (n=%d, node %s), one %s fault at message %d", op.Type, m, n, obs.name, kind, k)
	pending := func() bool {
		for _, p := range obs.pendingOps() {
			if p.ID == op.ID {
				return true
			}
		}
		return false
	}
	// how often each message of the result is on the board (behind position from), and what else is there
	from := len(c.boardMessages())
	tally := func() (counts []int, total int, foreign int, misattributed int) {
		counts = make([]int, m)
		for _, pm := range c.boardMessages()[from:] {
			total++
			hit := false
			for i, w := range res.ResultMsgs {
				if sameBoardMessage(pm, w) {
					counts[i]++
					hit = true
					break
				}
			}
			if !hit {
				foreign++
			} else if pm.SenderAddr != obs.name || len(obs.kp.Pub) != ed25519.PublicKeySize || !ed25519.Verify(obs.kp.Pub, pm.Data, pm.Signature) {
				misattributed++
			}
		}
		return
	}
	submit := func() error {
		// the same result FILE every time (the node fills sender and signature into the value it is handed)
		var file ctypes.Operation
		if err := json.Unmarshal(rb, &file); err != nil {
			return err
		}
		return obs.svc.ProcessOperation(opToDTO(&file))
	}
	var history []string
	accepted := false
	for attempt := 1; attempt <= 3 && !accepted; attempt++ {
		err := submit()
		counts, total, _, _ := tally()
		if err == nil {
			accepted = true
			history = append(history, fmt.Sprintf("submission %d accepted", attempt))
			break
		}
		history = append(history, fmt.Sprintf("submission %d refused (%s)", attempt, truncate(err.Error(), 90)))
		if pending() && total > 0 {
			// refused, still pending and answerable - and part of the answer is out
			var there []string
			for i, cnt := range counts {
				if cnt > 0 {
					there = append(there, fmt.Sprintf("message %d for %q", i+1, res.ResultMsgs[i].RecipientAddr))
				}
			}
			r.mon(fmt.Sprintf("C15 posted_exactly_result: %s: %s and the operation is still pending, yet %d of the %d messages of the result are on the board (%s): what is posted is not the result, and the operation can still be answered",
				what, history[len(history)-1], total, m, strings.Join(there, ", ")))
		}
		if !pending() {
			break
		}
	}
	r.st.Notes = append(r.st.Notes, fmt.Sprintf("faultedAnswers: %s: %s (faults injected: %d)", what, strings.Join(history, ", "), faults))
	if faults == 0 {
		r.mon("harness: faultedAnswers: the fault was never reached: " + what)
	}
	if !accepted {
		// nothing the property speaks about happened if nothing is on the board; the tally below still applies
		r.st.Notes = append(r.st.Notes, "faultedAnswers: the result was never accepted: "+strings.Join(history, ", "))
	}
	counts, total, foreign, misattributed := tally()
	var twice, missing []string
	for i, cnt := range counts {
		if cnt > 1 {
			twice = append(twice, fmt.Sprintf("message %d for %q %d times", i+1, res.ResultMsgs[i].RecipientAddr, cnt))
		}
		if cnt == 0 {
			missing = append(missing, fmt.Sprintf("message %d for %q", i+1, res.ResultMsgs[i].RecipientAddr))
		}
	}
	if len(twice) > 0 {
		r.mon(fmt.Sprintf("C15 posted_exactly_result: %s; %s: the board holds %d messages for a result of %d (%s): the answer did not reach the board once",
			what, strings.Join(history, ", "), total, m, strings.Join(twice, ", ")))
	}
	if accepted && len(missing) > 0 {
		r.mon(fmt.Sprintf("C15 posted_exactly_result: %s; %s: the result was accepted but the board lacks %s", what, strings.Join(history, ", "), strings.Join(missing, ", ")))
	}
	if foreign > 0 {
		r.mon(fmt.Sprintf("C15 posted_exactly_result: %s; %s: %d message(s) on the board are not messages of the result", what, strings.Join(history, ", "), foreign))
	}
	if misattributed > 0 {
		r.mon(fmt.Sprintf("C15 posted_exactly_result: %s; %s: %d posted message(s) are not attributed to / signed by the node", what, strings.Join(history, ", "), misattributed))
	}
	if accepted {
		if pending() {
			r.mon(fmt.Sprintf("C15 retired_once: %s; %s: the operation is still pending after its result was accepted and posted", what, strings.Join(history, ", ")))
		}
		// one submission more: refused, nothing posted
		before := len(c.boardMessages())
		err := submit()
		if more := len(c.boardMessages()) - before; err == nil || more > 0 {
			r.mon(fmt.Sprintf("C15 retired_once: %s; %s: the same result submitted once more was answered again (%d more messages posted)", what, strings.Join(history, ", "), more))
		}
	}
}
