package main

// fsmdiff, C19 through the node's round store (the real FSMService on LevelDB): a round that is loaded and stepped but NOT
// saved. The node loads the round before every message (GetFSMInstance), lets the machine take the step and saves the dump
// only when everything after the step went well too; when anything fails in between - or when it restarted a cancelled
// signing round in memory and the message was refused after all - nothing is saved. The round is then the SAVED round:
// loaded again (by the next message, after a restart of the process, by the API that lists and inspects rounds) it must
// be in the saved state with the saved payload and answer the next event exactly as the saved round does.
//
// Every transition the exploration and the walks keep is used once that way: the round before the transition is saved, loaded,
// the (accepted) event applied to the loaded instance, nothing saved; then GetFSMInstance, GetFSMDump, GetFSMList are asked
// again and the event is handed to a fresh load.

import (
	"fmt"
	"strings"

	"github.com/lidofinance/dc4bc/client/api/dto"
	sm "github.com/lidofinance/dc4bc/fsm/state_machines"
)

type w23Step struct {
	idx  int
	ev   string
	args []string
	n    int
	// reported: lines handed to the monitor so far (a handful is enough)
	reported int
}

var w23Steps = map[*fsmWorld]*w23Step{}

// noteStep: the event last applied to a restore of store[idx] (what keep persists the outcome of)
func (w *fsmWorld) noteStep(idx int, ev string, args []string) {
	s := w23Steps[w]
	if s == nil {
		s = &w23Step{}
		w23Steps[w] = s
	}
	s.idx, s.ev, s.args = idx, ev, args
}

func (w *fsmWorld) unsavedStep() {
	s := w23Steps[w]
	if w.svc == nil || w.svcMon == nil || s == nil || s.idx < 0 || s.idx >= len(w.store) || s.ev == "" {
		return
	}
	saved := w.store[s.idx]
	ev, args := s.ev, s.args
	s.ev = ""
	// what the saved round answers to the event (restored from its dump, as after a restart of the process)
	ref, err := sm.FromDump(saved)
	if err != nil {
		return
	}
	rr, re, rp := safeDo(ref, ev, buildReq(args))
	if rr == nil || re != nil || rp {
		return // not an accepted step (keep is only called after one)
	}
	refOb := observe(ref, rr, re, rp)
	s.n++
	id := fmt.Sprintf("unsaved-%d", s.n%3)
	want := rDumpBytes(saved)
	state := dumpStateOf(saved)
	// (details: the long findings, written last - the check shows the beginning of a line)
	var finds, details []string
	bad := func(what string) { finds = append(finds, what) }
	defer func() {
		finds = append(finds, details...)
		if len(finds) == 0 {
			return
		}
		if s.reported++; s.reported > 6 {
			return // a handful of histories is enough
		}
		w.svcMon(fmt.Sprintf("C19 load_shows_saved_round: a round saved in %s (SaveFSM), loaded (GetFSMInstance), stepped by an accepted %s %s and NOT saved: %s", state, ev, truncate(strings.Join(args, " "), 60), strings.Join(finds, "; ")))
	}()
	if err := w.svc.SaveFSM(id, saved); err != nil {
		bad("SaveFSM fails: " + truncate(err.Error(), 120))
		return
	}
	inst, err := w.svc.GetFSMInstance(id, false)
	if err != nil || inst == nil {
		bad(fmt.Sprintf("GetFSMInstance does not find it (%v)", err))
		return
	}
	if r1, e1, p1 := safeDo(inst, ev, buildReq(args)); r1 == nil || e1 != nil || p1 {
		bad("the loaded round refuses the event that the saved round accepts: " + truncate(observe(inst, r1, e1, p1), 200))
		return
	}
	// nothing is saved. Every way to read the round must still show the saved one.
	if d, err := w.svc.GetFSMDump(&dto.DkgIdDTO{DkgID: id}); err != nil || d == nil {
		bad(fmt.Sprintf("GetFSMDump does not find it afterwards (%v)", err))
	} else {
		if string(d.State) != state {
			bad("GetFSMDump then shows state " + string(d.State))
		} else if bz, merr := d.Marshal(); merr != nil || rDumpBytes(bz) != want {
			bad("GetFSMDump then shows a different round in that state")
		}
		if l, err := w.svc.GetFSMList(); err != nil {
			bad("GetFSMList fails afterwards: " + truncate(err.Error(), 120))
		} else if l[id] != state {
			bad(fmt.Sprintf("GetFSMList then shows %q for it", l[id]))
		} else if l[id] != string(d.State) {
			bad(fmt.Sprintf("the round is listed (GetFSMList) in %q but inspected (GetFSMDump) in %q", l[id], d.State))
		}
	}
	var differ []string
	for _, create := range []bool{true, false} {
		how := "GetFSMInstance"
		if create {
			how = "GetFSMInstance (create if missing)"
		}
		again, err := w.svc.GetFSMInstance(id, create)
		if err != nil || again == nil {
			bad(fmt.Sprintf("%s does not find it afterwards (%v)", how, err))
			continue
		}
		if back, derr := again.Dump(); derr != nil || rDumpBytes(back) != want {
			if differ = append(differ, how); !create {
				details = append(details, "the next "+strings.Join(differ, " / ")+" gives a round that is not the saved one ("+firstDiff(rDumpBytes(back), want)+")")
			}
		} else if !create && len(differ) > 0 {
			bad("the next " + differ[0] + " gives a round that is not the saved one")
		}
		if create {
			continue
		}
		// the next event (the same message delivered again) is answered as by the saved round
		r2, e2, p2 := safeDo(again, ev, buildReq(args))
		if ob := observe(again, r2, e2, p2); ob != refOb {
			kind := func(o string) string { return strings.SplitN(o, " D{", 2)[0] }
			bad("handed the same event, the round loaded next answers [" + truncate(kind(ob), 140) + "], the saved round answers [" + truncate(kind(refOb), 140) + "]")
		}
	}
}
